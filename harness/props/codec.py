"""C01 / C02: the wire codec.  Implementation vs Lean model vs an independent restatement."""

from __future__ import annotations

import asyncio
import itertools
import time

from .. import gen, lib
from ..lib import Corr, enc

lib.use_repo()

from marshmallow import ValidationError  # noqa: E402

from aiomysensors.gateway import Gateway  # noqa: E402
from aiomysensors.model.message import Message, MessageSchema  # noqa: E402
from aiomysensors.model.protocol import get_protocol  # noqa: E402
from aiomysensors.transport import Transport  # noqa: E402


def schema_for(version: str) -> MessageSchema:
    s = MessageSchema()
    s.set_protocol(get_protocol(version))
    return s


def impl_load(schema: MessageSchema, line: str):
    try:
        m = schema.load(line)
    except ValidationError:
        return ("invalid",)
    except Exception as e:  # noqa: BLE001
        return ("foreign", type(e).__name__)
    vals = (m.node_id, m.child_id, m.command, m.ack, m.message_type, m.payload)
    if not all(type(x) is int for x in vals[:5]) or type(vals[5]) is not str:
        return ("badtypes", repr(vals))
    return ("ok", vals)


def impl_dump(schema: MessageSchema, m: Message):
    try:
        return ("ok", schema.dump(m))
    except ValidationError:
        return ("invalid",)
    except Exception as e:  # noqa: BLE001
        return ("foreign", type(e).__name__)


def ref_accepts(line: str):
    """The property's own words (C02), independent of the model: returns the decoded fields or None."""
    parts = line.rstrip().split(";")
    if len(parts) < 6:
        return None
    try:
        n, c, cmd, ack, t = (int(x) for x in parts[:5])
    except ValueError:
        return None
    if not (0 <= n <= 255 and 0 <= c <= 255 and 0 <= cmd <= 4 and ack in (0, 1)):
        return None
    if cmd in (3, 4) and c != 255 and not (cmd == 3 and t in (3, 4)):
        return None
    if c == 255 and cmd in (1, 2):
        return None
    return (n, c, cmd, ack, t, ";".join(parts[5:]))


def model_dec(version: str, line: str) -> str:
    return f"dec {version} {enc(line)}"


def parse_model_dec(out: str):
    if out == "invalid":
        return ("invalid",)
    tok = out.split(" ")
    if tok[0] != "ok" or len(tok) != 7:
        return ("model-error", out)
    return ("ok", (int(tok[1]), int(tok[2]), int(tok[3]), int(tok[4]), int(tok[5]), lib.dec(tok[6])))


class RecTransport(Transport):
    def __init__(self, lines):
        self.lines = list(lines)
        self.writes = []

    async def connect(self):
        pass

    async def disconnect(self):
        pass

    async def read(self):
        return self.lines.pop(0)

    async def write(self, decoded_message):
        self.writes.append(decoded_message)


def wf_messages(rng, tier: str):
    """Well-formed messages: boundary product plus random ones."""
    ids = gen.ID_VALUES
    # type numbers: table values, and integer-width boundaries (a type is any integer): t, t +/- 2^16, 2^31, 2^32, 2^63, 2^64
    types = [0, 3, 4, 2, 9, 14, 19, 22, 32, 49, -5, 10**20,
             2 + 2**16, 3 + 2**16, 2**16 - 1, 2**16, 2 - 2**16, 2**31 - 1, 2**31, 2 + 2**32, 2**63, 2 + 2**64, -(2**63) - 1]
    out = []
    for n, c, cmd, ack, t in itertools.product([0, 1, 255], ids, range(5), (0, 1), types):
        out.append((n, c, cmd, ack, t))
    k = 3000 if tier == "quick" else 60000
    for _ in range(k):
        out.append((rng.randint(0, 255), rng.choice(ids + [rng.randint(0, 255)]), rng.randint(0, 4),
                    rng.randint(0, 1), gen.msg_type(rng, "2.2")))
    return out


def cross_ok(c, cmd, t) -> bool:
    if cmd in (3, 4) and c != 255 and not (cmd == 3 and t in (3, 4)):
        return False
    return not (c == 255 and cmd in (1, 2))


def run_c01(ctx) -> Corr:
    corr = Corr("C01", "well-formed messages (boundary product of node/child/command/ack/type classes that "
                "satisfy the cross-field rules, plus random ones) x payload classes x 5 versions; checked: "
                "dump shape, load(dump(m)) == m, dump(load(l)) == rstrip(l)+'\\n' on canonical lines, "
                "Gateway.send/listen end to end, all against the Lean encode/decode. non-trivial = payload has "
                "';', whitespace or non-ASCII, or a field is a boundary/negative/huge value, or the id-request "
                "exception applies. Plus gateway histories (states:* in the distribution; harness/props/codecstates.py): "
                "node lives and random traffic on one real Gateway per history, 5 versions, held set commands released at "
                "wakes, replies, reboot flags, unknown version / nodes; checked per step: the message Gateway.listen yields "
                "has exactly the field values its transport line spells and re-encodes to it, Gateway.send writes exactly "
                "the message's encoding, every written text is a one-line encoding; non-trivial there = a yielded line "
                "whose handler also wrote something, or a send that was held. Plus concurrent sends (concurrent:* in the "
                "distribution; harness/props/codec_concurrent.py): several tasks send through one Gateway (every command, buffered "
                "and unbuffered, 5 versions, a plain Transport and the library's MQTTTransport) while Transport.write really "
                "suspends at a gate, a listening task writes replies and releases held commands meanwhile, under random and "
                "bounded-exhaustive schedules of task starts, arriving lines and write completions / failures; checked: every "
                "argument of Transport.write is exactly one encoded message that decodes back, every message whose send came to "
                "its end was handed over in a write of its own during the call, nothing is written twice, a task's messages "
                "keep their order; non-trivial there = a send made while another write was suspended")
    corr.notes.append("Gateway histories (codecstates.run): judged by the oracle and also expressed as operations of the Lean "
                      "gateway model (Driver.lean gnew/gnode/gchild/gval/grecv/gsend), compared on the codec view only: the six "
                      "yielded field values (or invalid / raised) per received line, outcome class and written texts per send "
                      "call. Replies written while a line is handled, registry and buffers are other properties' views "
                      "(C04, C06, C07) and are not compared here; the listen() generator style (one generator / a fresh one "
                      "per line) and the probe line placed after every line under test are not operations of the model.")
    rng = lib.rng_for(ctx.seed, "c01")
    cases = []
    for c in lib.load_corpus("C01"):
        if "history" in c:
            continue      # gateway histories: replayed by codecstates.run below
        cases.append((c["version"], tuple(c["fields"]), c["payload"], "corpus"))
    msgs = [m for m in wf_messages(rng, ctx.tier) if cross_ok(m[1], m[2], m[4])]
    n_product = 3 * len(gen.ID_VALUES) * 5 * 2 * 23
    for i, m in enumerate(msgs):
        label, p = gen.payload(rng)
        if not gen.is_c01_payload(p):
            continue
        if i < n_product:
            # the boundary product runs under EVERY version, each on one long-lived schema instance:
            # an encoder or decoder that keeps state between messages must not change any result
            for v in lib.VERSIONS:
                cases.append((v, m, p, label))
        else:
            cases.append((lib.VERSIONS[i % 5], m, p, label))
    schemas = {v: schema_for(v) for v in lib.VERSIONS}
    ops = []
    impl = []
    for version, (n, c, cmd, ack, t), p, label in cases:
        sch = schemas[version]
        m = Message(n, c, cmd, ack, t, p)
        d = impl_dump(sch, m)
        expected = f"{n};{c};{cmd};{ack};{t};{p}\n"
        case = {"version": version, "fields": [n, c, cmd, ack, t], "payload": p}
        if d != ("ok", expected):
            corr.violate("dump does not produce the one-line form", {**case, "dump": repr(d)})
            impl.append(None)
            continue
        line = d[1]
        if line.count("\n") != 1 or not line.endswith("\n"):
            corr.violate("encoded form is not exactly one newline-terminated line", case)
        back = impl_load(sch, line)
        if back != ("ok", (n, c, cmd, ack, t, p)):
            corr.violate("decode(encode(m)) != m", {**case, "decoded": repr(back)})
        else:
            re = impl_dump(sch, Message(*back[1]))
            if re != ("ok", line):
                corr.violate("re-encoding a decoded canonical line does not reproduce it", case)
        ws = gen.trailing_ws(rng)
        padded = line.rstrip() + ws if p == p.rstrip() else line
        back2 = impl_load(sch, padded)
        if back2[0] == "ok":
            re2 = impl_dump(sch, Message(*back2[1]))
            if re2 != ("ok", padded.rstrip() + "\n"):
                corr.violate("dump(load(l)) != rstrip(l)+newline", {**case, "line": padded})
        elif p == p.rstrip():
            corr.violate("canonical line with trailing whitespace rejected", {**case, "line": padded, "got": repr(back2)})
        impl.append((line, back, padded, back2))
        ops.append(f"enc {n} {c} {cmd} {ack} {t} {enc(p)}")
        ops.append(model_dec(version, line))
        ops.append(model_dec(version, padded))
        nontriv = (";" in p or p != p.strip() or not p.isascii() or n in (0, 255) or c in (0, 255) or t < 0
                   or t > 255 or (cmd == 3 and t in (3, 4) and c != 255))
        corr.case((version, n, c, cmd, ack, t, p), nontriv, {**case, "line": line} if nontriv else None)
        corr.count(f"payload:{label}")
        corr.count(f"cmd:{cmd}")
    # Gateway.send vs Transport.write when several tasks send through one gateway while a write is suspended (the model's
    # part of it - encode / decode of what was sent / written - travels with the batch below)
    from . import codec_concurrent
    t0 = time.time()
    cc_ops, cc_finish = codec_concurrent.run(corr, ctx)
    corr.notes.append(f"concurrent-sends part took {time.time() - t0:.1f}s (implementation and oracle)")
    if ctx.model_ok:
        outs = lib.run_model(ops + cc_ops)
        cc_finish(outs[len(ops):])
        j = 0
        for (version, (n, c, cmd, ack, t), p, label), im in zip(cases, impl):
            if im is None:
                continue
            line, back, padded, back2 = im
            case = {"version": version, "fields": [n, c, cmd, ack, t], "payload": p}
            if lib.dec(outs[j]) != line:
                corr.disagree("encode", {**case, "impl": line, "model": lib.dec(outs[j])})
            md = parse_model_dec(outs[j + 1])
            if md != back:
                corr.disagree("decode", {**case, "line": line, "impl": repr(back), "model": repr(md)})
            md2 = parse_model_dec(outs[j + 2])
            if md2 != back2:
                corr.disagree("decode-padded", {**case, "line": padded, "impl": repr(back2), "model": repr(md2)})
            j += 3
    # end to end through Gateway.send and Gateway.listen
    e2e = 0

    async def e2e_run():
        nonlocal e2e
        for version, (n, c, cmd, ack, t), p, _ in cases[: (400 if ctx.tier == "quick" else 5000)]:
            tr = RecTransport([])
            gw = Gateway(tr)
            gw.protocol_version = version
            m = Message(n, c, cmd, ack, t, p)
            expected = f"{n};{c};{cmd};{ack};{t};{p}\n"
            try:
                await gw.send(m)
            except Exception as e:  # noqa: BLE001
                corr.violate("Gateway.send raised on a well-formed message for an unknown node",
                             {"version": version, "fields": [n, c, cmd, ack, t], "payload": p, "exc": type(e).__name__})
                continue
            if tr.writes != [expected]:
                corr.violate("Gateway.send wrote something other than the encoded line",
                             {"version": version, "fields": [n, c, cmd, ack, t], "payload": p, "writes": tr.writes})
            e2e += 1
            # listen: log messages have no handler, so the decoded message comes back as it is
            if cmd == 3 and t == 9 and c == 255:
                tr.lines.append(expected)
                got = await anext(gw.listen())
                if (got.node_id, got.child_id, got.command, got.ack, got.message_type, got.payload) != (n, c, cmd, ack, t, p):
                    corr.violate("Gateway.listen yielded different field values", {"line": expected})
    asyncio.run(e2e_run())
    corr.count("end-to-end-sends", e2e)

    # ... and the way an application reuses things: one Gateway per version for the whole run, ONE Message object whose
    # fields are assigned before every send (and sent twice unchanged now and then).  What is written must be the
    # encoding of the field values the object has at the moment of the send.
    reused = 0

    async def reuse_run():
        nonlocal reused
        gws = {}
        for v in lib.VERSIONS:
            tr = RecTransport([])
            g = Gateway(tr)
            g.protocol_version = v
            gws[v] = (g, tr, Message(0, 0, 0, 0, 0, ""))
        for k, (version, (n, c, cmd, ack, t), p, _) in enumerate(cases[: (600 if ctx.tier == "quick" else 6000)]):
            g, tr, m = gws[version]
            # successive cases differ in one or several fields: assign them one way or the other
            m.node_id, m.child_id, m.command, m.ack, m.message_type, m.payload = n, c, cmd, ack, t, p
            expected = f"{n};{c};{cmd};{ack};{t};{p}\n"
            for _ in range(2 if k % 7 == 0 else 1):
                tr.writes.clear()
                try:
                    await g.send(m)
                except Exception as e:  # noqa: BLE001
                    corr.violate("Gateway.send raised on a well-formed message (reused Gateway and Message objects)",
                                 {"version": version, "fields": [n, c, cmd, ack, t], "payload": p, "exc": type(e).__name__})
                    break
                if tr.writes != [expected]:
                    corr.violate("Gateway.send of a reused Message object wrote something other than the encoding of its current fields",
                                 {"version": version, "fields": [n, c, cmd, ack, t], "payload": p, "writes": tr.writes[:3]})
                    break
            reused += 1
    asyncio.run(reuse_run())
    corr.count("sends-of-a-reused-message-object", reused)

    # ... and at the gateway boundary in gateway states where the handlers do more than return: whole histories (nodes
    # presenting, reporting, asking, sleeping with held set commands of several keys and payload kinds, waking, reboot
    # flags, version unknown, unknown nodes), all five versions; every message Gateway.listen yields must spell its line
    from . import codecstates
    codecstates.run(corr, ctx)
    return corr


def malformed_lines(rng, tier: str):
    """The malformed stream of C02: field-class mutations of valid lines, short and long lines."""
    valid = [
        ("1", "2", "1", "0", "0", "20.5"), ("0", "255", "3", "0", "2", "2.2"), ("7", "255", "3", "1", "0", "88"),
        ("255", "255", "3", "0", "3", ""), ("255", "5", "3", "0", "3", ""), ("1", "5", "3", "0", "4", "9"),
        ("254", "0", "0", "0", "6", "desc"), ("1", "255", "0", "0", "17", "2.0"), ("1", "255", "4", "0", "0", "fw"),
        ("1", "3", "2", "0", "49", ""), ("1", "255", "1", "0", "0", "x"), ("1", "255", "2", "0", "0", "x"),
        ("1", "3", "3", "0", "0", "x"), ("1", "3", "4", "0", "0", "x"), ("1", "3", "3", "0", "-5", "x"),
    ]
    out = []
    # every single-field mutation
    for bi, base in enumerate(valid):
        for pos in range(5):
            for label, text in gen.INT_TEXTS:
                if len(text) > 1000 and bi > 0:
                    continue  # the digit-limit classes are slow to ship to the model: one base line only
                f = list(base)
                f[pos] = text
                out.append((";".join(f), f"mut{pos}:{label}"))
    # field counts 0..8
    for base in valid:
        for k in range(0, 9):
            f = (list(base) + ["x", "y", "z"])[:k]
            out.append((";".join(f), f"count{k}"))
    # trailing whitespace variants
    for sp in gen.PY_SPACES:
        out.append(("1;2;1;0;0;20.5" + sp, "trail-ws"))
        out.append(("1;2;1;0;0;" + sp, "trail-ws-empty-payload"))
        out.append(("1;2;1;0;0" + sp, "trail-ws-5-fields"))
        out.append(("1;2;1;0;" + sp + "0;x", "ws-inside-type"))
    out += [("", "empty"), ("\n", "newline"), (";", "delim"), (";;;;;", "six-empty"), (";;;;;;", "seven-empty"),
            ("invalid", "word")]
    # the cross-field rule, every combination: child id (system child or not) x command x every type number any
    # version knows (and a few it does not) — the rule names exactly two internal types as exempt
    types = sorted({int(t) for v in lib.VERSIONS for t in gen.TABLES["versions"][v]["internal"]} | {-1, 34, 40, 100})
    for child in ("0", "5", "254", "255"):
        for cmd in ("0", "1", "2", "3", "4"):
            for t in types:
                out.append((f"1;{child};{cmd};0;{t};x", "cross-field"))
    # random pairs of mutations / random products
    k = 10000 if tier == "quick" else 200000
    texts = [t for _, t in gen.INT_TEXTS if len(t) < 1000] + [str(x) for x in (0, 1, 2, 3, 4, 5, 254, 255, 256)]
    for _ in range(k):
        base = list(rng.choice(valid))
        for pos in rng.sample(range(5), rng.choice([1, 2, 2, 3])):
            base[pos] = rng.choice(texts)
        if rng.random() < 0.2:
            base = base[: rng.randint(0, 6)]
        if rng.random() < 0.1:
            base.append(rng.choice(["a", "", ";", "1"]))
        out.append((";".join(base) + (gen.trailing_ws(rng) if rng.random() < 0.3 else ""), "random"))
    if tier != "quick":
        # all pairs of field mutations on three base lines
        for base in valid[:3]:
            for p1, p2 in itertools.combinations(range(5), 2):
                for (_, t1), (_, t2) in itertools.product([x for x in gen.INT_TEXTS if len(x[1]) < 1000], repeat=2):
                    f = list(base)
                    f[p1], f[p2] = t1, t2
                    out.append((";".join(f), "pair"))
    return out


# ---- C02 at the point where an application meets the decoder: Gateway.listen ---------------------------------

LISTEN_PROBE = "0;255;3;0;9;next line"     # what the transport would deliver after the line under test
LISTEN_CHUNK = 40
# registries in which the base lines' nodes and children exist, so that well-formed set / req / presentation lines are
# yielded (their decoded fields observable) instead of ending in a missing-node error; without node 254 an id request
# can still be granted (it is refused once the highest id is in use)
def _registry(nodes):
    return [p for n in nodes for p in [("node", n, 17, "2.0", "", "", 0, 0, False, False)]
            + [("child", n, c, c, 6, "c") for c in (0, 1, 2, 3, 5)]]


LISTEN_PRELOADS = [[], _registry((0, 1, 7)), _registry((0, 1, 7, 254))]


def sets_version(line: str) -> bool:
    """Well-formed lines whose handling may switch the gateway's active protocol (version report, gateway presentation)."""
    f = ref_accepts(line)
    return f is not None and f[1] == 255 and ((f[2] == 3 and f[4] == 2) or (f[2] == 0 and f[0] == 0))


def listen_histories(triples):
    """(version, line, label) -> gateway histories: per version, up to LISTEN_CHUNK received lines on one Gateway object,
    in turn with an empty and two populated registries.  A line that may switch the active protocol ends its history,
    so every line is decoded under the version the history was started with."""
    from .. import gw
    per = {}
    for version, line, label in triples:
        per.setdefault(version, []).append((line, label))
    hists = []
    for version, items in per.items():
        cur = None
        for line, label in items:
            if cur is None:
                k = len(hists)
                cur = (gw.Hist(version, True, list(LISTEN_PRELOADS[k % 3])), [])
                hists.append(cur)
            cur[0].ops.append(("recv", line, (), gw.DEFAULT_TIME))
            cur[1].append(label)
            if len(cur[1]) >= LISTEN_CHUNK or sets_version(line):
                cur = None
    return hists


def _fields_of_message(m):
    vals = (m.node_id, m.child_id, m.command, m.ack, m.message_type, m.payload)
    if not all(type(x) is int for x in vals[:5]) or type(vals[5]) is not str:
        return ("badtypes", repr(vals))
    return ("ok", vals)


async def _listen_trace(h, fresh_listener: bool):
    """One history of received lines on the real Gateway, read through `Gateway.listen` (one generator for as long as it
    keeps yielding, or a fresh one per line).  Per step: the codec-view observation
      ("ok", fields)            a message was yielded, or a library error carries the decoded Message object
      ("invalid",)              InvalidMessageError that does not carry a decoded Message (it names the received text)
      ("accepted", class)       another library error (missing node / child ...): decoded, fields not observable
      ("foreign", class)        anything else
    plus how it was observed, the active protocol before the step, whether the registry / buffers / version changed or
    something was written, and whether listen went on to read the following line."""
    from .. import gw
    g, tr = gw.build_gateway(h)
    return await _listen_on(g, tr, h.ops, fresh_listener)


async def _listen_on(g, tr, ops, fresh_listener: bool, keep_version: str | None = None):
    """`_listen_trace` on a Gateway object that already exists (`tr` its FaultTransport).  With `keep_version`, the
    gateway's reported version is set back to it after a step that changed it (a long-lived gateway used for probes
    under one protocol version)."""
    from .. import gw
    from aiomysensors import exceptions as exc
    listener = None
    trace = []
    state = gw.render_state(g)
    for op in ops:
        line = op[1]
        tr.attempts = []
        tr.faults = []
        tr.lines = [line, LISTEN_PROBE]
        gw.TIME_STUB.now = tuple(op[3])
        proto = g.protocol.VERSION
        before = state
        if listener is None or fresh_listener:
            if listener is not None:
                await listener.aclose()
            listener = g.listen()
        got_msg = None           # the Message object the application got hold of at this step (yielded, or carried by the error)
        try:
            m = await anext(listener)
            obs, how, got_msg = _fields_of_message(m), "yield", m
        except Exception as e:  # noqa: BLE001
            listener = None      # an async generator that raised is finished
            how = type(e).__name__
            carried = getattr(e, "message", None)
            if isinstance(e, exc.AIOMySensorsError) and isinstance(carried, Message):
                obs = _fields_of_message(carried)
                how += "(decoded message)"
                got_msg = carried
            elif isinstance(e, exc.InvalidMessageError):
                obs = ("invalid",)
            elif isinstance(e, exc.AIOMySensorsError):
                obs = ("accepted", type(e).__name__)
            else:
                obs = ("foreign", type(e).__name__)
        state = gw.render_state(g)
        trace.append({"obs": obs, "how": how, "proto": proto, "touched": state != before or bool(tr.attempts),
                      "overread": len(tr.lines) < 1, "msg": got_msg})
        if keep_version is not None and g.protocol_version != keep_version:
            g.protocol_version = keep_version
            state = gw.render_state(g)
    if listener is not None:
        await listener.aclose()
    return trace


def listen_verdict(line: str, t) -> str | None:
    """C02 restated at Gateway.listen: what is wrong with one observed step, or None."""
    want = ref_accepts(line)
    obs, how = t["obs"], t["how"]
    if want is None:
        if how == "yield":
            if t["overread"]:
                return "Gateway.listen did not raise on a line the property rejects: it went on to the following line"
            return "Gateway.listen accepted (yielded a message for) a line the property rejects"
        if obs[0] == "foreign":
            return "Gateway.listen failed on a malformed line with something other than InvalidMessageError"
        if obs[0] == "accepted":
            return ("a line the property rejects was not rejected as an invalid message: Gateway.listen raised another "
                    "library error (the line was decoded and handled)")
        if obs[0] != "invalid":
            return ("a line the property rejects was decoded by Gateway.listen: the library error it raised carries the "
                    "decoded Message, not the received text")
        if t["touched"]:
            return "a line rejected as invalid nevertheless changed the gateway's state or caused a write"
        return None
    if obs[0] == "invalid":
        return "Gateway.listen rejected a well-formed line as an invalid message"
    if obs[0] in ("ok", "badtypes") and obs != ("ok", want):
        return "Gateway.listen decoded a well-formed line to other field values than it spells"
    return None   # yielded / handled with exactly the spelled values; handler errors and foreign exceptions after a
    #               successful decode are not C02's (C03, C04): they are left to the model comparison


def listen_end_to_end(corr: Corr, ctx, triples, model_of):
    """The stream of run_c02 once more, this time through a real Gateway per version: transport line -> Gateway.listen
    -> yielded message / exception.  Oracle = listen_verdict; model = Codec.decode (`dec`) at the protocol active at that
    step, compared on the codec view (accept / reject + decoded fields)."""
    from .. import gw
    hists = listen_histories(triples)

    async def run_all():
        return [await _listen_trace(h, fresh_listener=(k // 3) % 2 == 1) for k, (h, _) in enumerate(hists)]

    traces = asyncio.run(run_all())

    def alone(h, i, what):
        """The shortest history on which the same verdict shows: the line alone (empty, then the same registry), else the prefix."""
        op = h.ops[i]
        for pre in ([], h.preload):
            s = gw.Hist(h.version, h.metric, list(pre), [op])
            for fresh in (False, True):
                t = asyncio.run(_listen_trace(s, fresh))[0]
                if listen_verdict(op[1], t) == what:
                    return s, t
        return gw.Hist(h.version, h.metric, h.preload, h.ops[: i + 1]), None

    extra, pending = [], []
    for (h, labels), trace in zip(hists, traces):
        for i, (op, label, t) in enumerate(zip(h.ops, labels, trace)):
            line = op[1]
            want = ref_accepts(line)
            case = {"version": h.version, "line": line, "class": label, "via": "Gateway.listen",
                    "observed": t["how"], "got": repr(t["obs"]), "want": repr(want) if want is not None else "InvalidMessageError"}
            what = listen_verdict(line, t)
            if what is not None and len(corr.violations) < 50:
                s, t1 = alone(h, i, what)
                if t1 is not None:
                    case.update({"observed": t1["how"], "got": repr(t1["obs"])})
                corr.violate(what, {**case, "history": s.to_json()})
            canonical = want is not None and ";".join(str(x) for x in want[:5]) == ";".join(line.rstrip().split(";")[:5])
            corr.case(("listen", h.version, line, bool(h.preload)), t["obs"][0] not in ("ok", "accepted") or not canonical,
                      {k: case[k] for k in ("version", "line", "class", "via", "observed")} if len(line) < 80 else None)
            corr.count(f"listen:class:{label.split(':')[0]}")
            corr.count(f"listen:outcome:{t['obs'][0]}" + (":yielded" if t["how"] == "yield" else ""))
            corr.count(f"listen:active-protocol:{t['proto']}")
            key = (t["proto"], line)
            if key not in model_of:
                model_of[key] = None
                extra.append(key)
            pending.append((key, case, t, h, i))
    if not ctx.model_ok:
        return
    for key, o in zip(extra, lib.run_model([model_dec(v, l) for v, l in extra])):
        model_of[key] = parse_model_dec(o)
    for key, case, t, h, i in pending:
        md, obs = model_of[key], t["obs"]
        same = md[0] == "ok" if obs[0] == "accepted" else md == obs
        if not same:
            corr.disagree("decode through Gateway.listen",
                          {**case, "model": repr(md), "history": gw.Hist(h.version, h.metric, h.preload, h.ops[: i + 1]).to_json()})


def run_c02(ctx) -> Corr:
    corr = Corr("C02", "malformed stream: every single-field text-class mutation (40 classes incl. Unicode digits, "
                "underscores, signs, padding, digit-limit boundary) of 15 base lines, 0-8 fields, every Python "
                "whitespace code point at the end, random multi-field mutations (thorough: all pairs), x 5 versions; "
                "compared: accept/reject + decoded values + exception class, implementation vs Lean decode vs the "
                "property's literal predicate; every (line, version) twice: MessageSchema.load, and end to end as a "
                "transport line read through Gateway.listen on a real Gateway (histories of <= 40 lines, empty and "
                "populated registries, one listen() generator or a fresh one per line); then the boundary lines (node / "
                "child id 0/254/255/256 x every command) again before and after every step of other activity of the "
                "library in the same process (sessions on persistence files, saves / loads, other schema and gateway "
                "objects), through decoders created for the probe and decoders created before that activity; then "
                "histories in which the application assigns to (every field, and all six), sends, dumps or keeps the Message "
                "objects it received between decodes of equal, respelled and neighbouring well-formed lines, through fresh and "
                "long-lived MessageSchema / Gateway objects under changing versions: every load judged as before, and every "
                "message still held keeps its returned values overlaid with the application's own assignments. "
                "non-trivial = distinct (line, version) whose outcome is reject, or accept with a non-canonical "
                "numeral; for the interference probes: distinct (steps so far, decoder, version, line) after at least one step; "
                "for the returned-object histories: loads after at least one assignment in the history")
    corr.notes.append("Gateway.listen part: judged by the property's predicate (reject = InvalidMessageError that does not carry a "
                      "decoded Message, nothing yielded, no state change, no write, the following line not read; accept = the "
                      "yielded message, or the Message carried by a handler's library error, has exactly the spelled values) and "
                      "compared with the model's Codec.decode (driver op `dec`) at the protocol active at that step. The gateway "
                      "model's `grecv` is not used here: what a handler does with an accepted line is outside C02's view "
                      "(C03-C08 compare it); a handler error without a Message (missing node/child) counts as accepted with "
                      "unobserved fields.")
    rng = lib.rng_for(ctx.seed, "c02")
    lines = [(c["line"], "corpus") for c in lib.load_corpus("C02")] + malformed_lines(rng, ctx.tier)
    schemas = {v: schema_for(v) for v in lib.VERSIONS}
    ops, rec = [], []
    triples = []
    for i, (line, label) in enumerate(lines):
        if lib.has_surrogate(line):
            continue
        versions = lib.VERSIONS if (label != "random" and label != "pair") else [lib.VERSIONS[i % 5]]
        for version in versions:
            got = impl_load(schemas[version], line)
            want = ref_accepts(line)
            case = {"version": version, "line": line, "class": label}
            if got[0] not in ("ok", "invalid"):
                corr.violate("decoder failed with something other than a validation error", {**case, "got": repr(got)})
            elif want is None and got[0] == "ok":
                corr.violate("decoder accepted a line the property rejects", {**case, "got": repr(got)})
            elif want is not None and got != ("ok", want):
                corr.violate("decoder rejected or mis-decoded a well-formed line", {**case, "got": repr(got), "want": repr(want)})
            ops.append(model_dec(version, line))
            rec.append((case, got))
            triples.append((version, line, label))
            canonical = want is not None and ";".join(str(x) for x in want[:5]) == ";".join(line.rstrip().split(";")[:5])
            corr.case((version, line), got[0] != "ok" or not canonical, case if len(line) < 80 else None)
            corr.count(f"class:{label.split(':')[0]}")
            corr.count(f"outcome:{got[0]}")
    model_of = {}
    if ctx.model_ok:
        from . import codec_aliasing
        also = [k for k in codec_aliasing.model_keys(ctx) if not lib.has_surrogate(k[1])]   # the loads of the returned-object part
        outs = lib.run_model(ops + [model_dec(v, l) for v, l in also])
        for key, o in zip(also, outs[len(ops):]):
            model_of[key] = parse_model_dec(o)
        for (case, got), o in zip(rec, outs):
            md = parse_model_dec(o)
            model_of[(case["version"], case["line"])] = md
            if md != got:
                corr.disagree("decode", {**case, "impl": repr(got), "model": repr(md)})
    listen_end_to_end(corr, ctx, triples, model_of)
    # ... and decoding must not depend on what else the library did in the process (restarts on a persistence file,
    # saves, other schema / gateway objects): probes before and after every step of such activity
    from . import codec_interference
    t0 = time.time()
    codec_interference.run(corr, ctx, model_of)
    corr.notes.append(f"interference part took {time.time() - t0:.1f}s")
    # ... nor on what the application did with the messages it got for earlier lines (assigned to, sent, dumped, kept)
    from . import codec_aliasing
    t0 = time.time()
    codec_aliasing.run(corr, ctx, model_of)
    corr.notes.append(f"returned-object part took {time.time() - t0:.1f}s")
    return corr
