"""C16, sixth group of scenarios: ENTERING the context fails, or is cancelled, at each step of `__aenter__`, with a
persistence file that holds a non-empty registry.

"entering the gateway context loads the file ... If connecting fails the error propagates and no background task is
left behind" - and (`load_failure_starts_nothing`) a failing load propagates before anything was started.  A step of
the entry that fails must leave nothing behind; in particular it must leave the persistence file as it was: the file
is the only copy of the registry between two sessions, and a start-up that is interrupted (a start-up timeout, Ctrl-C,
a transient I/O error, one entry the loader refuses) is followed by another start-up that reads it.

The other groups let the load fail in one way (a file that is not JSON), never look at the file afterwards, and never
cancel the task while it is still entering.  Here, on the stepping virtual-time loop and the in-loop file layer of the
churn group (no threads, no real waiting: a run is deterministic):

  * the file holds `size` nodes in the library's own format (or that content damaged in one of the ways the loader
    distinguishes: not UTF-8, not JSON, nested too deeply, JSON that is not an object, one entry - the first, one in
    the middle, the last - that is not a node: a number, a list, null, an object with a field missing or of the wrong type);
  * a step fails: a read-mode file operation of `load` (`open`, `read`, the `close` of the `async with`) raises a
    transient OSError (EIO, EACCES, EMFILE, ...; the file itself is intact); the saver task cannot be created; `connect`
    fails after `connect_takes` loop iterations (the saver is then anywhere in its first save, or asleep);
  * or the task running the statement is CANCELLED k loop iterations after the statement began, for every k from 0 to
    the length of the entry as MEASURED on the tree under test by an undisturbed run (+2): inside each file operation
    of `load`, inside `connect` with the saver at each step of its first save, and, past the entry, in the body;
  * afterwards the SAME Gateway object is entered again, nothing failing (the retry of a start-up).

Judged (the property's words, over the observation):
  * what propagates is the failing step's error - PersistenceReadError for the load, the start's, the connect's - or
    the cancellation;
  * no task is left, the saver is not alive, the transport is not left connected, the body did not run;
  * a load or start that failed / was cancelled started nothing: no saver, no connect, and THE FILE IS WHAT IT WAS - it
    still loads to the registry it held (content the loader refuses: byte for byte);
  * a connect that failed / was cancelled: the saver is stopped, the final save was performed and the file holds the
    registry that was loaded, i.e. what it held;
  * a cancellation that arrives in the body: the whole oracle of the other groups (`lifecycle.oracle`);
  * the second entry is in order, and its registry holds every node the file held before the first one.
What a stand-alone `Persistence.load` of the same content does (on the tree under test) tells whether the content is
loadable; which exception class a refused content gives is C14's business, not judged here.

On the model's side: `C16.load_failure_touches_nothing` (the file, at every moment of every schedule) and
`LL.load_failure_touches_nothing_generated` (the same about the control skeleton translated from `__aenter__`, for both
kinds of exception class at the load - `Classes.load = true` is the cancellation delivered inside `load`).
"""

from __future__ import annotations

import asyncio
import errno
import json
import os
import time
from unittest import mock

from . import churn
from . import lifecycle as lc
from .lifecycle import Config, Gateway, NodeSchema, Persistence, PersistenceReadError, pers_mod

CONTENTS_WHOLE = ("truncated-json", "not-utf8", "top-level-list", "top-level-number", "top-level-null", "top-level-string")
CONTENTS_ENTRY = ("entry-number", "entry-list", "entry-null", "entry-empty-object", "entry-string", "entry-bad-id",
                  "entry-missing-type", "entry-bad-children", "entry-bad-child", "entry-nested-too-deeply")
WHERE = ("first", "middle", "last")
READ_OPS = ("open", "read", "close")
# transient failures of a file operation on a file that is there and intact (ENOENT is not one: a missing file is no failure)
ERRNO_BOX = (errno.EIO, errno.EACCES, errno.EMFILE, errno.ENFILE, errno.ENOMEM, errno.EINTR, errno.ESTALE, errno.ETIMEDOUT,
             errno.EPERM, errno.EBUSY, errno.EAGAIN, errno.ENOSPC)
SIZE_BOX = (1, 2, 3, 7, 9, 10, 11, 25, 26, 60, 100, 128, 254)
SIZE_BOX_QUICK = (1, 3, 7, 9, 10, 11, 25, 40)     # the entry has the same suspension points whatever the size: small registries in the quick tier
NEST = 100_000
GUARD = 100_000          # virtual seconds: reached only if nothing is runnable any more


class StartBoom(Exception):
    pass


class EnterController(lc.Controller):
    """The in-loop file layer; `read_fault` = (operation, errno): that read-mode operation of the main coroutine fails
    once with OSError(errno), after its suspension (as the executor await of the real layer does)."""

    def __init__(self, clock, proxy, read_fault=None) -> None:
        super().__init__(clock, proxy)
        self.read_fault = read_fault
        self.injected: BaseException | None = None

    async def op(self, kind: str, mode: str, effect):
        f = self.read_fault
        if f is not None and self.injected is None and "w" not in mode and kind == f[0] and self.who() == "main":
            self.log.append(("main", kind + ":r", self.clock.now))
            if kind == "close":
                effect()
            await asyncio.sleep(0)
            self.injected = OSError(f[1], "injected: " + os.strerror(f[1]))
            raise self.injected
        return await super().op(kind, mode, effect)


class EnterProxy(churn.ChurnProxy):
    """`asyncio` inside aiomysensors.persistence; `start_fails`: the saver task cannot be created (once)."""

    def __init__(self, clock, loop, start_fails: bool = False) -> None:
        super().__init__(clock, loop)
        self.start_fails = start_fails
        self.start_failed: BaseException | None = None

    def create_task(self, coro, **kw):
        if self.start_fails and self.start_failed is None:
            self.start_failed = StartBoom("injected: the saver task could not be created")
            coro.close()
            raise self.start_failed
        return super().create_task(coro, **kw)


class SlowTransport(lc.FlakyTransport):
    """`connect` takes `takes` loop iterations, then fails or succeeds; tells whether it is connected."""

    def __init__(self, takes: int, fails: bool) -> None:
        super().__init__(connect_fails=fails)
        self.takes = takes
        self.connected = False

    async def connect(self) -> None:
        self.calls.append("connect")
        for _ in range(self.takes):
            await asyncio.sleep(0)
        if self.connect_fails:
            raise lc.ConnectBoom("connect")
        self.connected = True

    async def disconnect(self) -> None:
        self.calls.append("disconnect")
        await asyncio.sleep(0)
        self.connected = False


def file_bytes(size: int, content: str, where: str) -> bytes:
    """The persistence file: `size` nodes as the library writes them, damaged as `content` says (`where`: which entry)."""
    schema = NodeSchema()
    dumped = {str(i): schema.dump(churn.make_node(i)) for i in range(1, size + 1)}
    text = json.dumps(dumped, sort_keys=True, indent=2)
    if content == "valid":
        return text.encode()
    if content == "truncated-json":
        return text[: max(1, 2 * len(text) // 3)].encode()
    if content == "not-utf8":
        raw = text.encode()
        cut = raw.index(b"node ") + 5 if b"node " in raw else len(raw) // 2
        return raw[:cut] + b"\xff\xfe" + raw[cut:]
    if content == "top-level-list":
        return json.dumps(list(dumped.values()), indent=2).encode()
    if content in ("top-level-number", "top-level-null", "top-level-string"):
        return {"top-level-number": b"5", "top-level-null": b"null", "top-level-string": b'"nodes"'}[content]
    keys = sorted(dumped)                       # the order of the entries in the file (and of the loader's loop)
    if not keys:
        keys = ["1"]
        dumped["1"] = {}
    key = keys[{"first": 0, "middle": len(keys) // 2, "last": len(keys) - 1}[where]]
    entry = dumped[key]
    marker = None
    if content == "entry-number":
        dumped[key] = 5
    elif content == "entry-list":
        dumped[key] = [entry]
    elif content == "entry-null":
        dumped[key] = None
    elif content == "entry-empty-object":
        dumped[key] = {}
    elif content == "entry-string":
        dumped[key] = "node"
    elif content == "entry-bad-id":
        dumped[key] = {**entry, "node_id": "x"}
    elif content == "entry-missing-type":
        dumped[key] = {k: v for k, v in entry.items() if k != "node_type"}
    elif content == "entry-bad-children":
        dumped[key] = {**entry, "children": 5}
    elif content == "entry-bad-child":
        dumped[key] = {**entry, "children": {"1": {"child_id": 1, "child_type": "relay?", "values": {"x": 1}}}}
    elif content == "entry-nested-too-deeply":
        marker = "@@nested@@"
        dumped[key] = marker
    else:
        raise ValueError(content)
    text = json.dumps(dumped, sort_keys=True, indent=2)
    if marker is not None:
        text = text.replace(json.dumps(marker), "[" * NEST + "]" * NEST)
    return text.encode()


def held(path: str):
    """The registry the file holds (canonical), '' for an empty file, None when it cannot be loaded."""
    try:
        return lc.file_canon(path)
    except Exception:  # noqa: BLE001  (bytes that are not text)
        return None


def n_nodes(canonical) -> int | None:
    return None if canonical is None else len(lc._dumped(canonical))      # noqa: SLF001


def run_enter(path: str, c: dict) -> dict:
    """One context statement (and, `retry`, a second one on the same objects) on the real Gateway.

    c: size, content, where; fault = None | ["open"|"read"|"close", errno] | ["start"] | ["connect"]; cancel_at = None | k
    (the task running the statement is cancelled k loop iterations after it was created); connect_takes; retry."""
    size, content, where = c["size"], c.get("content", "valid"), c.get("where", "last")
    fault = list(c.get("fault") or [])
    cancel_at = c.get("cancel_at")
    takes = c.get("connect_takes", 1)
    retry = c.get("retry", True)

    async def main() -> dict:
        loop = asyncio.get_running_loop()
        clock = churn.LoopClock(loop)
        raw0 = file_bytes(size, content, where)
        with open(path, "wb") as f:
            f.write(raw0)
        # what a stand-alone load of this content does on this tree
        ref_nodes: dict = {}
        ref_proxy = churn.ChurnProxy(clock, loop)
        ref_ctl = lc.Controller(clock, ref_proxy)
        reference = "loads"
        with mock.patch.object(pers_mod, "aiofiles", lc.FakeFiles(ref_ctl)), mock.patch.object(pers_mod, "asyncio", ref_proxy):
            try:
                await Persistence(ref_nodes, path).load()
            except PersistenceReadError:
                reference = "refused"
            except Exception as e:  # noqa: BLE001  not this property's business (C14)
                reference = "refused with " + type(e).__name__
        close_handles(ref_ctl)
        file0 = lc.canon(ref_nodes) if reference == "loads" else None
        transport = SlowTransport(takes, fault[:1] == ["connect"])
        gateway = Gateway(transport, Config(persistence_file=path))
        touched: set[int] = set()           # nodes a body of this run added or changed

        async def one_context(session: int, cancel_k, read_fault, start_fails: bool, raw_before, held_before) -> dict:
            proxy = EnterProxy(clock, loop, start_fails)
            ctl = EnterController(clock, proxy, read_fault)
            transport.calls = []
            state: dict = {"entered": False, "loaded_ok": None}
            marks: dict = {}
            body_parked = asyncio.Event()
            reg_at_exit = None
            exc: BaseException | None = None

            def holds(now: dict, canonical) -> bool:
                """Every node of that registry text is in the registry as it is there (but for what a body changed)."""
                return canonical is not None and all(now.get(k) == v for k, v in lc._dumped(canonical).items()  # noqa: SLF001
                                                     if int(k) not in touched)

            def change_the_registry() -> None:
                """The body's own change: a node joins (a full network: a value of one node changes)."""
                own = next((i for i in range(200, churn.MAX_ID + 1) if i not in gateway.nodes), None)
                if own is None:
                    own = 1 + session
                    gateway.nodes[own].battery_level = (gateway.nodes[own].battery_level + 1) % 101
                else:
                    gateway.nodes[own] = churn.make_node(own, " (added in the body)")
                touched.add(own)

            async def context() -> None:
                nonlocal reg_at_exit
                try:
                    async with gateway:
                        state["entered"] = True
                        marks["body_iter"] = loop.iterations
                        now = lc._dumped(lc.canon(gateway.nodes))        # noqa: SLF001
                        state["loaded_ok"] = holds(now, held_before) if held_before is not None else None
                        state["registry_holds_what_the_file_held_at_first"] = holds(now, file0)
                        change_the_registry()
                        reg_at_exit = lc.canon(gateway.nodes)
                        if cancel_k is not None:
                            body_parked.set()
                            await asyncio.Event().wait()     # the task running the context is cancelled here
                finally:
                    if reg_at_exit is None:
                        reg_at_exit = lc.canon(gateway.nodes)

            with mock.patch.object(pers_mod, "aiofiles", lc.FakeFiles(ctl)), mock.patch.object(pers_mod, "asyncio", proxy):
                before = asyncio.all_tasks()
                marks["enter_iter"] = loop.iterations
                task = asyncio.ensure_future(context())
                stage = None
                if cancel_k is not None:
                    for _ in range(cancel_k):
                        if task.done():
                            break
                        await asyncio.sleep(0)
                    if not task.done():
                        stage = "body" if state["entered"] else "connect" if "connect" in transport.calls else \
                            "load" if ctl.log else "not begun"
                        state["at_cancel"] = {"stage": stage, "file_operations_so_far": [f"{w}:{k}" for w, k, _ in ctl.log],
                                              "saver_task_exists": bool(proxy.created)}
                        task.cancel()
                await asyncio.wait([task], timeout=GUARD)
                try:
                    if not task.done():
                        raise TimeoutError
                    if task.cancelled():
                        raise asyncio.CancelledError
                    if task.exception() is not None:
                        raise task.exception()
                except BaseException as e:  # noqa: BLE001
                    exc = e
                t_end = loop.time()
                for _ in range(5):
                    await asyncio.sleep(0)
                leftovers = [t for t in asyncio.all_tasks() - before if t is not asyncio.current_task() and not t.done()]
                names = sorted({getattr(t.get_coro(), "__qualname__", "?") for t in leftovers})
                saver_alive = any(not t.done() for t in proxy.created)
                raw_after = read_bytes(path)
                held_after = held_before if raw_after == raw_before else held(path)
                for t in leftovers:
                    t.cancel()
                if leftovers:
                    await asyncio.wait(leftovers, timeout=GUARD)
            close_handles(ctl)
            outcome = lc.classify(exc)
            if exc is not None and exc is proxy.start_failed:
                outcome = "startErr"
            writes = [f"{w}:{k}" for w, k, _ in ctl.log if k.endswith(":w")]
            state["file_after"] = (raw_after, held_after)
            return {
                **state, "session": session, "outcome": outcome,
                "error": None if exc is None else f"{type(exc).__name__}: {exc}"[:200],
                "caused_by_the_injected_error": bool(exc is not None and ctl.injected is not None and exc.__cause__ is ctl.injected),
                "stage_at_cancel": stage, "cancel_requested": stage is not None,
                "connect_called": "connect" in transport.calls, "disconnect_called": "disconnect" in transport.calls,
                "transport_connected": transport.connected, "calls": list(transport.calls),
                "started": bool(proxy.created), "saver_alive": saver_alive,
                "leftover_tasks": len(leftovers), "leftover_names": names,
                "final_save_done": ctl.main_saves_done > 0, "saver_saves": ctl.saver_saves,
                "write_operations_on_the_file": writes[:9],
                "file_bytes_unchanged": raw_after == raw_before,
                "file_holds_what_it_held": held_before is not None and held_after == held_before,
                "file_is_registry_at_exit": held_after is not None and held_after == reg_at_exit,
                "file": "truncated" if raw_after == b"" else "unchanged" if raw_after == raw_before else
                        "unreadable" if held_after is None else "holds what it held" if held_after == held_before else
                        "holds the registry as of exit" if held_after == reg_at_exit else "other",
                "nodes_in_file_before": n_nodes(held_before), "nodes_in_file_after": n_nodes(held_after),
                "nodes_in_registry": len(gateway.nodes),
                "starts": [t for who, kind, t in ctl.log if who == "saver" and kind == "open:w"], "vnow": int(t_end),
                "entry_iterations": (marks["body_iter"] - marks["enter_iter"]) if "body_iter" in marks else None,
            }

        read_fault = (fault[0], fault[1]) if fault[:1] and fault[0] in READ_OPS else None
        first = await one_context(0, cancel_at, read_fault, fault[:1] == ["start"], raw0, file0 if reference == "loads" else held(path))
        after = first.pop("file_after")
        first["a_stand_alone_load_of_this_content"] = reference
        first["nodes_in_file_at_first"] = n_nodes(file0)
        if retry and first["outcome"] != "hang":
            transport.connect_fails = False
            first["entered_again"] = await one_context(1, None, None, False, *after)
            first["entered_again"].pop("file_after")
        return first

    return asyncio.run(main(), loop_factory=churn.SteppingLoop)


def read_bytes(path: str):
    try:
        with open(path, "rb") as f:
            return f.read()
    except OSError:
        return None


def close_handles(ctl) -> None:
    for h in ctl.handles:
        try:
            h.close()
        except Exception:  # noqa: BLE001
            pass


# ---- the oracle ----------------------------------------------------------------------------------


def describe(c: dict) -> str:
    content, fault = c.get("content", "valid"), list(c.get("fault") or [])
    s = f"entering the context with a persistence file of {c['size']} node(s)"
    if content != "valid":
        s += f" damaged ({content}" + (f", the {c.get('where', 'last')} entry" if content.startswith("entry-") else "") + ")"
    if fault[:1] and fault[0] in READ_OPS:
        s += f", the {fault[0]} of the load failing with OSError {errno.errorcode.get(fault[1], fault[1])}"
    elif fault[:1] == ["start"]:
        s += ", the saver task failing to start"
    elif fault[:1] == ["connect"]:
        s += f", connect failing after {c.get('connect_takes', 1)} loop iteration(s)"
    if c.get("cancel_at") is not None:
        s += f", the task cancelled {c['cancel_at']} loop iteration(s) after the statement began" \
             f" (connect takes {c.get('connect_takes', 1)})"
    return s


def wanted(c: dict, obs: dict) -> tuple[str | None, str]:
    """(what has to propagate - None: the entry has to succeed, the step of the entry that ended it)."""
    fault = list(c.get("fault") or [])
    if obs["cancel_requested"]:
        return "cancelled", obs["stage_at_cancel"]
    if obs["a_stand_alone_load_of_this_content"] != "loads" or (fault[:1] and fault[0] in READ_OPS):
        return "loadErr", "load"
    if fault[:1] == ["start"]:
        return "startErr", "start"
    if fault[:1] == ["connect"]:
        return "connectErr", "connect"
    return None, "none"


def failed_entry_clauses(obs: dict, want: str, stage: str, loadable: bool) -> list[str]:
    """The property over a context statement that had to end before the body."""
    bad = []
    step = {"load": "the load", "not begun": "the statement, before its first step,", "start": "the start of the saver",
            "connect": "connect"}.get(stage, stage)
    how = "was cancelled" if want == "cancelled" else "failed"
    now = "it is empty now" if obs["file"] == "truncated" else "now it cannot be loaded" if obs["nodes_in_file_after"] is None else \
        f"now it holds {obs['nodes_in_file_after']} node(s)"
    if obs["outcome"] == "hang":
        bad.append("the context statement did not complete (timeout)")
    elif obs["outcome"] != want:
        bad.append(f"propagated {obs['outcome']} ({obs['error']}), expected {want}")
    if obs["entered"]:
        bad.append(f"{step} {how} but the body ran")
    if obs["leftover_tasks"] or obs["saver_alive"]:
        bad.append(f"{obs['leftover_tasks']} background task(s) left running {obs['leftover_names']}")
    if obs["transport_connected"]:
        bad.append("the transport was left connected")
    if stage in ("load", "not begun", "start"):
        if obs["started"] or obs["connect_called"]:
            bad.append(f"{step} {how} but the saver was started / the transport asked to connect")
        intact = obs["file_holds_what_it_held"] if loadable else obs["file_bytes_unchanged"]
        if not intact:
            bad.append(f"{step} {how} and the persistence file is no longer what it was: it held "
                       + (f"{obs['nodes_in_file_before']} node(s)" if loadable else "content the loader refuses (nothing was written over it before)")
                       + f", {now} (write operations on the file: {obs['write_operations_on_the_file']})")
    elif stage == "connect":
        if obs["started"] and not obs["final_save_done"]:
            bad.append("no final save was performed")
        if not obs["file_holds_what_it_held"]:
            bad.append(f"{step} {how} and the file does not hold the registry that was loaded from it: it held "
                       f"{obs['nodes_in_file_before']} node(s), {now}")
    return bad


def entered_clauses(case: dict, obs: dict, faults: dict, what: str) -> list[str]:
    """The whole oracle of the other groups over a context statement whose body ran.  (A connect and a body that never
    suspend leave the context before the saver task had its first turn: the position "not-started" of the other groups.)"""
    scratch = lc.Corr("C16", "")
    never_suspended = case["enterfail"].get("connect_takes", 1) == 0 and not faults
    if lc.oracle(scratch, what, case, obs, faults, "not-started" if never_suspended else "enterfail"):
        return []
    return [scratch.violations[0]["what"][len(what) + 2:]]


def judge(corr, case: dict, obs: dict) -> bool:
    c = case["enterfail"]
    what = describe(c)
    want, stage = wanted(c, obs)
    loadable = obs["a_stand_alone_load_of_this_content"] == "loads"
    if want is None or stage == "body":
        if not obs["entered"] and obs["outcome"] != "hang":
            bad = [f"nothing fails, yet the context was not entered: propagated {obs['outcome']} ({obs['error']})"]
        else:
            bad = entered_clauses(case, obs, {"cancel": True} if stage == "body" else {}, what)
    else:
        bad = failed_entry_clauses(obs, want, stage, loadable)
    again = obs.get("entered_again")
    if again is not None and not bad:
        # the retry of the start-up, nothing failing: in order, and nothing of what the file held has been lost
        pre = "entered again on the same objects: "
        if not loadable:
            # the content is refused again; the file must still be what it was
            more = failed_entry_clauses({**again, "cancel_requested": False}, "loadErr", "load", False)
        elif not again["entered"]:
            more = [f"the context was not entered: propagated {again['outcome']} ({again['error']})"]
        else:
            more = entered_clauses(case, again, {}, what)
            if not again.get("registry_holds_what_the_file_held_at_first"):
                more.append(f"the registry does not hold the {obs['nodes_in_file_at_first']} node(s) the file held before the first "
                            f"entry (it holds {again['nodes_in_registry']})")
        bad += [pre + m for m in more]
    if bad:
        corr.violate(what + ": " + "; ".join(bad), {**case, "observed": obs})
    return not bad


# ---- the generator -------------------------------------------------------------------------------


def case_of(origin: str, **c) -> dict:
    c = {k: v for k, v in c.items() if v is not None}
    c.setdefault("content", "valid")
    c.setdefault("connect_takes", 1)
    return {"enterfail": c, "origin": origin, "what_happens": describe(c) + "; then the same Gateway object is entered again"}


def enterfail_group(corr, ctx, rng, path: str) -> None:
    """Generates, runs and judges the scenarios of this group; called from lifecycle.run_c16."""
    quick = ctx.tier == "quick"
    t0 = time.monotonic()
    sizes = [2, 26] + [rng.choice(SIZE_BOX_QUICK)]
    if not quick:
        sizes = sorted(set(SIZE_BOX))
    takes_all = (1, 6) if quick else (0, 1, 2, 6, 9)
    hangs = 0

    def execute(case: dict, nontrivial: bool = True):
        nonlocal hangs
        if hangs >= 3:
            corr.count("enterfail:skipped-after-repeated-hangs")
            return None
        c = case["enterfail"]
        try:
            obs = run_enter(path, c)
        except BaseException as e:  # noqa: BLE001
            corr.violate(f"enter-failure scenario crashed: {type(e).__name__}: {e}"[:300], case)
            return None
        hangs += obs["outcome"] == "hang"
        ok = judge(corr, case, obs)
        want, stage = wanted(c, obs)
        corr.count("enterfail:" + case["origin"])
        corr.count("enterfail:ended-in:" + stage)
        corr.count("enterfail:outcome:" + obs["outcome"])
        corr.count("enterfail:file-after:" + obs["file"])
        if "entered_again" in obs:
            corr.count("enterfail:entered-again:" + obs["entered_again"]["outcome"])
        key = ("enterfail", c["size"], c["content"], c.get("where"), tuple(c.get("fault") or ()), c.get("cancel_at"), c["connect_takes"])
        corr.case(key, nontrivial, {"case": c, "ended_in": stage, "outcome": obs["outcome"], "file": obs["file"], "ok": ok})
        return obs

    for turn, size in enumerate(sizes):
        # the undisturbed entries: judged, and they tell how many loop iterations the entry takes on this tree
        for takes in takes_all:
            obs = execute(case_of("enterfail-undisturbed", size=size, connect_takes=takes), nontrivial=False)
            n = ((obs or {}).get("entry_iterations") or (4 + takes)) + 2
            # the task is cancelled k iterations after the statement began: every k of the entry, and a little beyond
            ks = list(range(n + 1))
            if quick and turn > 0:
                ks = [k for k in ks if takes == takes_all[-1] or k <= 4]      # the load's part once more, connect's with the long connect
            for k in ks:
                execute(case_of("enterfail-cancelled", size=size, connect_takes=takes, cancel_at=k))
        # a read-mode file operation of the load fails with a transient OSError
        for j, op in enumerate(READ_OPS):
            errnos = [ERRNO_BOX[(turn + j) % 3], rng.choice(ERRNO_BOX)] if quick else list(ERRNO_BOX)
            for e in dict.fromkeys(errnos):
                execute(case_of("enterfail-read-fault", size=size, fault=[op, e]))
        # the saver cannot be started; connect fails with the saver anywhere in its first save
        execute(case_of("enterfail-start-fault", size=size, fault=["start"]))
        for takes in takes_all if quick else range(0, 10):
            execute(case_of("enterfail-connect-fault", size=size, connect_takes=takes, fault=["connect"]))
        # content the loader refuses: every class, the refused entry first / in the middle / last
        for j, content in enumerate(CONTENTS_WHOLE):
            if quick and (j + turn) % len(sizes) != 0 and content != "truncated-json":
                continue
            execute(case_of("enterfail-content", size=size, content=content))
        for j, content in enumerate(CONTENTS_ENTRY):
            wheres = [WHERE[(j + turn) % 3]] if quick else list(WHERE)
            if quick and content == "entry-bad-id" and turn == 1:
                wheres = list(WHERE)
            if quick and turn == 2 and j % 2:
                continue
            for where in wheres:
                execute(case_of("enterfail-content", size=size, content=content, where=where))
    if not quick:
        for _ in range(60):
            size = rng.choice(SIZE_BOX)
            r = rng.random()
            if r < 0.4:
                execute(case_of("enterfail-random", size=size, connect_takes=rng.randint(0, 12), cancel_at=rng.randint(0, 20)))
            elif r < 0.7:
                execute(case_of("enterfail-random", size=size, content=rng.choice(CONTENTS_ENTRY), where=rng.choice(WHERE)))
            else:
                execute(case_of("enterfail-random", size=size, fault=[rng.choice(READ_OPS), rng.choice(ERRNO_BOX)]))
    corr.count("enterfail:wall-ms", int(1000 * (time.monotonic() - t0)))
    corr.notes.append("enter-failure scenarios (a step of __aenter__ fails or the task is cancelled k loop iterations after the statement "
                      "began, the file holding a non-empty registry or damaged content; then the same objects are entered again): judged "
                      "by the oracle alone - the failing step's error or the cancellation propagates, nothing is left, a load that did not "
                      "complete started nothing and the file is what it was.  On the model's side: `load_failure_touches_nothing` "
                      "(Properties/C16.lean, every moment of every schedule) and `load_failure_touches_nothing_generated` "
                      "(LifecycleBodiesEq.lean: the skeleton translated from __aenter__, `Classes.load = true` being the cancellation "
                      "delivered inside load); loop iterations are not mapped to model steps")


def replay(case: dict) -> int:
    """Re-executes an enter-failure case on the implementation and prints what the oracle says."""
    path = os.path.join(lc.lib.scratch(), "c16-enterfail-replay.json")
    print("what happens:", case.get("what_happens"))
    obs = run_enter(path, case["enterfail"])
    keys = ("outcome", "error", "a_stand_alone_load_of_this_content", "at_cancel", "entered", "started", "connect_called",
            "transport_connected", "leftover_tasks", "saver_alive", "final_save_done", "write_operations_on_the_file",
            "file", "nodes_in_file_before", "nodes_in_file_after", "file_bytes_unchanged", "file_holds_what_it_held")
    for k in keys:
        print(f"  {k}: {obs.get(k)!r}")
    again = obs.get("entered_again")
    if again is not None:
        print("  entered again:", {k: again.get(k) for k in ("outcome", "error", "entered", "loaded_ok", "nodes_in_registry",
                                                             "registry_holds_what_the_file_held_at_first", "file")})
    corr = lc.Corr("C16", "")
    ok = judge(corr, {k: v for k, v in case.items() if k in ("enterfail", "origin", "what_happens")}, obs)
    for v in corr.violations:
        print("VIOLATED:", v["what"])
    print("reproduced" if not ok else "not reproduced: the oracle holds on this tree")
    return 0
