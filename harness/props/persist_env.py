"""C14: loading in a process that is not the library's alone.

The property quantifies over the CONTENT of the persistence file; it says nothing about the program around the load, so
it has to hold in every program an application can legitimately be.  A fresh interpreter that imports nothing but the
library (what every other part of C14's run is) is the least typical of them: a real application defines classes of its
own - marshmallow schemas for its API (marshmallow keeps ONE class registry per process, looked up by bare class name
whenever a schema refers to another one by name), subclasses of the library's `NodeSchema` / `ChildSchema` /
`MessageSchema` that keep the library's class name, subclasses of `Node` / `Child` / `Persistence` / `Gateway`
(`__subclasses__()`, `__init_subclass__` registries), modules called `node` or `model` - it configures logging at DEBUG
level, runs its event loop in debug mode, has used the library's schemas before.  Anything the load resolves through
such a process-wide table (a name, a registry, a subclass list, a logger level) makes the outcome for a file depend on
what ELSE lives in the process.

An *environment* is a list of steps an application takes, executed in a FRESH interpreter (this module run as a
script; steps before `import-library` run before the library is imported at all):

  ["define-schema", module, name, base, register]   `class <name>(<base>)` in the application's module `module`; base None:
                                            marshmallow.Schema with fields of its own (nesting the module's previous
                                            schema by its FULL path); base "pkg.mod:Class": a subclass of that library class
                                            with one more field; register False: `class Meta: register = False`
  ["define-class", module, name, base]      `class <name>(<library class>)` - a plain subclass (model classes, Persistence, ...)
  ["use", module, name]                     the application instantiates its schema and loads / dumps a record through it
  ["import-library"]                        `import aiomysensors` (+ persistence, gateway)
  ["library-use"]                           the library's own schemas and a save / load round trip are used once
  ["logging-debug"]                         logging configured at DEBUG level with a handler on the root and library loggers
  ["loads", {...}]                          C14's files are loaded (Persistence.load, every k-th through Gateway.__aenter__)

Oracle (C14, nothing more): every load ends in success or PersistenceReadError; a missing file is no error and is
created; an empty file leaves the registry as it is.  Model: `Persist.loadFile` has no parameter for the process, so each
outcome is compared with the model's outcome for the same bytes (or, where the main run did not ask the model, with the
outcome of the same load in the harness's own process).

A failing load is re-executed in fresh interpreters to find a short environment: each single step alone (in parallel),
else greedy removal.  Replay (`./check C14 --replay <file>`): the environment and the file are re-executed in a fresh
interpreter, with the same load in an interpreter without the application's steps as the control.
"""

from __future__ import annotations

import base64
import concurrent.futures
import json
import os
import subprocess
import sys
import tempfile
import time

from .. import lib

# NOTE: nothing of the library (and nothing that imports it) may be imported at module level: as a script this module
# executes the steps before `import-library` first.

APP_MODULES = ("app_api", "app.models", "node", "plugins.mysensors.model.node")
ENTER_EVERY = 5
MAX_SHOWN = 2000


# ---- executing an environment (in the fresh interpreter) -------------------------------------------------------


def _app_module(name: str):
    """The application's module `name` (a real module object in sys.modules, parents included)."""
    import types

    parts = name.split(".")
    for i in range(1, len(parts) + 1):
        mname = ".".join(parts[:i])
        if mname not in sys.modules:
            mod = types.ModuleType(mname)
            mod.__dict__["__path__"] = []
            sys.modules[mname] = mod
            if i > 1:
                setattr(sys.modules[".".join(parts[:i - 1])], parts[i - 1], mod)
    return sys.modules[name]


def _library_class(ref: str):
    import importlib

    mname, _, cname = ref.partition(":")
    return getattr(importlib.import_module(mname), cname)


class _World:
    def __init__(self, job: dict) -> None:
        self.job = job
        self.defined: dict[tuple[str, str], type] = {}
        self.last_schema: dict[str, str] = {}
        self.phase = 0
        self.loads: list = []
        self.imported = False

    def import_library(self) -> None:
        if not self.imported:
            lib.use_repo()
            import aiomysensors  # noqa: F401
            import aiomysensors.gateway  # noqa: F401
            import aiomysensors.persistence  # noqa: F401
            self.imported = True

    def do(self, step: list) -> str:
        kind = step[0]
        if kind == "import-library":
            self.import_library()
            return "imported"
        if kind == "define-schema":
            from marshmallow import Schema, fields

            _, module, name, base, register = step
            mod = _app_module(module)
            attrs: dict = {"__module__": module, "__qualname__": name}
            if base is None:
                attrs["ident"] = fields.Int(required=True)
                attrs["label"] = fields.Str()
                prev = self.last_schema.get(module)
                if prev is not None:
                    attrs["parts"] = fields.Dict(keys=fields.Int(), values=fields.Nested(f"{module}.{prev}"))
                bases = (Schema,)
            else:
                self.import_library()
                attrs["app_label"] = fields.Str()
                bases = (_library_class(base),)
            if not register:
                attrs["Meta"] = type("Meta", (), {"register": False})
            cls = type(bases[0])(name, bases, attrs)       # what the class statement does
            setattr(mod, name, cls)
            self.defined[(module, name)] = cls
            if base is None and register:
                self.last_schema[module] = name
            return f"class {module}.{name}({'marshmallow.Schema' if base is None else base.replace(':', '.')})"
        if kind == "define-class":
            _, module, name, base = step
            self.import_library()
            mod = _app_module(module)
            parent = _library_class(base)
            cls = type(parent)(name, (parent,), {"__module__": module, "__qualname__": name})
            setattr(mod, name, cls)
            self.defined[(module, name)] = cls
            return f"class {module}.{name}({base.replace(':', '.')})"
        if kind == "use":
            cls = self.defined.get((step[1], step[2]))
            if cls is None:
                return "skipped (no such class)"
            sch = cls()
            outs = []
            for rec in ({"ident": 1, "label": "x", "parts": {"2": {"ident": 2}}}, {"ident": 3}, {}):
                try:
                    obj = sch.load(dict(rec))
                    outs.append("loaded")
                    sch.dump(obj)
                except Exception as e:  # noqa: BLE001  what the application's own schema does is not judged
                    outs.append(type(e).__name__)
            return " ".join(outs)
        if kind == "library-use":
            return self._library_use()
        if kind == "logging-debug":
            import io
            import logging

            handler = logging.StreamHandler(io.StringIO())
            handler.setFormatter(logging.Formatter("%(asctime)s %(name)s %(levelname)s %(message)s"))
            for lname in ("", "aiomysensors"):
                lg = logging.getLogger(lname)
                lg.setLevel(logging.DEBUG)
                lg.addHandler(handler)
            return "logging at DEBUG"
        if kind == "loads":
            self.import_library()
            return self._loads(step[1])
        return "unknown step"

    def _library_use(self) -> str:
        import asyncio

        self.import_library()
        from . import persist as P

        outs = []
        from aiomysensors.model import message, node

        for mod in (node, message):
            for cname, cls in sorted(vars(mod).items()):
                if isinstance(cls, type) and cls.__module__ == mod.__name__ and cname.endswith("Schema"):
                    for rec in ({}, {"node_id": 1, "node_type": 17, "protocol_version": "2.0", "children": {"1": {"child_id": 1, "child_type": 6}}},
                                {"child_id": 1, "child_type": 6, "values": {"2": "x"}}, "1;1;1;0;2;1\n"):
                        try:
                            cls().load(rec)
                            outs.append("ok")
                        except Exception as e:  # noqa: BLE001
                            outs.append(type(e).__name__)

        async def round_trip():
            p = P.fresh_path()
            saved = await P.impl_save(p, P.sample_registry())
            back, _ = await P.impl_load(p)
            if os.path.exists(p):
                os.unlink(p)
            return f"save {saved[:40]} load {back[:12]}"

        return " ".join(f"{k}*{outs.count(k)}" for k in dict.fromkeys(outs)) + "; " + asyncio.run(round_trip())

    def _loads(self, spec: dict) -> str:
        import asyncio
        import traceback

        from . import persist as P

        files = self.job["files"]
        select = spec.get("select")
        idxs = list(range(len(files))) if select is None else list(select)
        phase = self.phase
        self.phase += 1
        every = spec.get("enter_every", ENTER_EVERY)

        async def one(i: int, via: str):
            f = files[i]
            p = P.fresh_path()
            if f.get("b64") is not None:
                with open(p, "wb") as fh:
                    fh.write(base64.b64decode(f["b64"]))
            cur = P.build(f["into"]) if f.get("into") else {}
            before = P.render_nodes(cur)
            try:
                if via == "load":
                    await P.Persistence(cur, p).load()
                    out = "ok " + P.render_nodes(cur)
                else:
                    g = P.Gateway(P.IdleTransport(), P.Config(persistence_file=p))
                    g.nodes.update(cur)
                    await g.__aenter__()
                    out = "ok " + P.render_nodes(g.nodes)
                    try:
                        await g.__aexit__(None, None, None)
                    except BaseException:  # noqa: BLE001  leaving is not judged by C14
                        pass
            except BaseException as e:  # noqa: BLE001
                out = P.outcome_of(e)
                if out.startswith("foreign"):
                    # the text of a foreign exception is part of the finding
                    out += " (" + "".join(traceback.format_exception_only(type(e), e)).strip()[:240] + ")"
            exists = os.path.exists(p)
            if exists:
                os.unlink(p)
            return [phase, i, via, out, before, exists]

        async def main():
            for i in idxs:
                via = spec.get("via") or ("enter" if every and (i + phase) % every == 0 else "load")
                self.loads.append(await one(i, via))

        asyncio.run(main(), debug=bool(self.job.get("loop_debug")))
        return f"{len(idxs)} loads"


def execute(job: dict) -> dict:
    t0 = time.monotonic()
    w = _World(job)
    log = []
    for step in job["steps"]:
        try:
            log.append(w.do(step))
        except Exception as e:  # noqa: BLE001  a step the application could not take (an enum cannot be subclassed, ...)
            log.append(f"could not: {type(e).__name__}: {str(e)[:120]}")
    return {"log": log, "loads": w.loads, "seconds": round(time.monotonic() - t0, 2)}


# ---- the parent's side: jobs in fresh interpreters -------------------------------------------------------------------


class Job:
    def __init__(self, env: dict, files: list[dict]) -> None:
        self.env = env
        self.files = files
        d = lib.scratch()
        self.inp = tempfile.NamedTemporaryFile("w+", dir=d, suffix=".envjob", delete=False, encoding="utf-8")
        self.out = tempfile.NamedTemporaryFile("w+", dir=d, suffix=".envout", delete=False, encoding="utf-8")
        json.dump({"steps": env["steps"], "loop_debug": env.get("loop_debug", False), "files": files}, self.inp)
        self.inp.flush()
        self.inp.seek(0)
        environ = dict(os.environ, PYTHONDONTWRITEBYTECODE="1")
        self.proc = subprocess.Popen([sys.executable, "-m", "harness.props.persist_env"], cwd=lib.VERIF, env=environ,
                                     stdin=self.inp, stdout=self.out, stderr=subprocess.PIPE)

    def result(self, timeout: int = 600) -> dict | None:
        try:
            _, err = self.proc.communicate(timeout=timeout)
        except subprocess.TimeoutExpired:
            self.proc.kill()
            self.proc.communicate()
            err = b"timeout"
        self.stderr = err.decode("utf-8", "replace")[-1500:]
        self.out.seek(0)
        text = self.out.read()
        for f in (self.inp, self.out):
            f.close()
            try:
                os.unlink(f.name)
            except OSError:
                pass
        try:
            return json.loads(text.strip().split("\n")[-1])
        except (ValueError, IndexError):
            return None


def run_fresh(env: dict, files: list[dict]) -> dict | None:
    return Job(env, files).result(timeout=300)


# ---- the environments -------------------------------------------------------------------------------------------------


def library_classes() -> list[dict]:
    """Every public class the library defines in the modules that are loaded once the package, its gateway and its
    persistence are imported: {module, name, kind} with kind schema / field / enum / class."""
    import enum

    import marshmallow

    out = []
    for mname in sorted(sys.modules):
        mod = sys.modules[mname]
        if mod is None or not (mname == "aiomysensors" or mname.startswith("aiomysensors.")):
            continue
        for cname, obj in sorted(vars(mod).items()):
            if isinstance(obj, type) and obj.__module__ == mname and not cname.startswith("_"):
                kind = ("schema" if issubclass(obj, marshmallow.Schema) else "field" if issubclass(obj, marshmallow.fields.Field)
                        else "enum" if issubclass(obj, enum.Enum) else "class")
                out.append({"module": mname, "name": cname, "kind": kind})
    return out


def _ref(c: dict) -> str:
    return f"{c['module']}:{c['name']}"


def environments(seed: int, tier: str, rng, classes: list[dict]) -> list[dict]:
    schemas = [c for c in classes if c["kind"] == "schema"]
    # the classes an application extends: everything of the model and persistence layer, the gateway, the exceptions
    plain = [c for c in classes if c["kind"] in ("class", "field")]
    model = [c for c in plain if (".model." in c["module"] + "." and ".protocol" not in c["module"])
             or c["module"].endswith((".persistence", ".gateway", ".exceptions"))]
    loads_all = ["loads", {}]
    envs = []
    m0, m1, m2, m3 = APP_MODULES

    # 1. an application with an API of its own: its module is imported BEFORE the library; marshmallow schemas called
    #    like the library's (and one that is not), used
    steps = []
    for c in schemas + [{"name": "ItemSchema"}]:
        steps += [["define-schema", m0, c["name"], None, True], ["use", m0, c["name"]]]
    envs.append({"label": "the application's API module defines marshmallow schemas named like the library's, before the library is imported",
                 "steps": steps + [["import-library"], loads_all], "share": 1})
    # 2. an application that extends the library: subclasses of the library's schemas and model classes under the SAME names
    steps = [["import-library"]]
    for c in model:
        steps.append(["define-class", m1, c["name"], _ref(c)])
    for c in schemas:
        steps += [["define-schema", m1, c["name"], _ref(c), True], ["use", m1, c["name"]]]
    envs.append({"label": "the application subclasses the library's schemas and model classes under the same names",
                 "steps": steps + [["logging-debug"], loads_all], "share": 2, "loop_debug": True})
    # 3. the harmless relatives: other names, unregistered look-alikes, every other class of the library subclassed
    steps = [["import-library"], ["library-use"]]
    for c in schemas:
        steps += [["define-schema", m2, "My" + c["name"], _ref(c), True], ["define-schema", m2, c["name"], None, False],
                  ["define-schema", m3, c["name"], _ref(c), False], ["use", m2, "My" + c["name"]]]
    for c in plain:
        steps.append(["define-class", m3, c["name"] if c not in model else "App" + c["name"], _ref(c)])
        if c in model:
            steps.append(["define-class", m2, "Other" + c["name"], _ref(c)])       # two implementations side by side
    envs.append({"label": "subclasses under other names, unregistered look-alikes, every class of the library subclassed",
                 "steps": steps + [loads_all], "share": 2})
    # 4. classes that appear while the program runs (a plugin loaded later): loads, definitions, the same loads again
    steps = [["import-library"], loads_all]
    for c in schemas:
        steps.append(["define-schema", m3, c["name"], None if rng.random() < 0.5 else _ref(c), True])
    for c in rng.sample(model, min(3, len(model))):
        steps.append(["define-class", m3, c["name"], _ref(c)])
    envs.append({"label": "look-alike classes are defined between two rounds of loads (a plugin imported later)",
                 "steps": steps + [loads_all], "share": 3})
    # 5. random applications
    for k in range(2 if tier == "quick" else 24):
        early, late = [], []
        for c in schemas:
            r = rng.random()
            mod = rng.choice(APP_MODULES)
            if r < 0.3:
                early += [["define-schema", mod, c["name"], None, rng.random() < 0.85]] + ([["use", mod, c["name"]]] if rng.random() < 0.5 else [])
            elif r < 0.6:
                late += [["define-schema", mod, c["name"], _ref(c) if rng.random() < 0.6 else None, rng.random() < 0.85]]
                if rng.random() < 0.5:
                    late.append(["use", mod, c["name"]])
            elif r < 0.75:
                late.append(["define-schema", mod, "App" + c["name"], _ref(c), True])
        for c in model:
            if rng.random() < 0.3:
                late.append(["define-class", rng.choice(APP_MODULES), c["name"] if rng.random() < 0.7 else "App" + c["name"], _ref(c)])
        for extra in (["logging-debug"], ["library-use"]):
            if rng.random() < 0.4:
                late.append(extra)
        rng.shuffle(late)
        if rng.random() < 0.3:
            late.insert(rng.randrange(len(late) + 1), loads_all)
        envs.append({"label": f"random application {k}", "steps": early + [["import-library"]] + late + [loads_all],
                     "share": 3, "loop_debug": rng.random() < 0.3})
    return envs


def pick_files(files: list, share: int, offset: int, tier: str) -> list[int]:
    """Which of C14's files an environment loads: every valid / special / corpus file, and of the prefixes, mutations and
    random values every (4 x share)-th (quick) or every share-th (thorough), rotated by seed and environment."""
    step = share * (4 if tier == "quick" else 1)
    out = []
    for i, (label, _data, _cur) in enumerate(files):
        thinned = label == "prefix" or label == "random" or label.startswith("mutation")
        if not thinned or (i + offset) % step == 0:
            out.append(i)
    return out


PARALLEL = 8


def _launch(started: dict, k: int) -> None:
    """Start environment k in an interpreter of its own (at most PARALLEL of them run at a time)."""
    if k >= len(started["envs"]) or started["jobs"][k] is not None:
        return
    env, files, descs = started["envs"][k], started["files"], started["descs"]
    t0 = time.monotonic()
    idxs = pick_files(files, env["share"], started["seed"] + k, started["tier"])
    payload = [{"label": files[i][0], "b64": base64.b64encode(files[i][1]).decode("ascii"), "into": descs[i], "index": i} for i in idxs]
    # a missing file: not an error, created holding the current registry
    payload.append({"label": "missing", "b64": None, "into": None, "index": None})
    payload.append({"label": "missing", "b64": None, "into": started["into"], "index": None})
    started["jobs"][k] = Job(env, payload)
    started["start_s"] += time.monotonic() - t0


def start(ctx, files: list, descs: list, into_desc) -> dict:
    """Start the environments, each in an interpreter of its own (they run while the main run goes on in this process)."""
    rng = lib.rng_for(ctx.seed, "c14-env")
    classes = library_classes()
    envs = environments(ctx.seed, ctx.tier, rng, classes)
    started = {"envs": envs, "jobs": [None] * len(envs), "classes": classes, "start_s": 0.0, "files": files, "descs": descs,
               "into": into_desc, "seed": ctx.seed, "tier": ctx.tier}
    for k in range(min(PARALLEL, len(envs))):
        _launch(started, k)
    return started


def load_failure(f: dict, via: str, out: str, before: str, exists: bool) -> str | None:
    """C14 for one load."""
    where = "Gateway.__aenter__" if via == "enter" else "Persistence.load"
    if not out.startswith(("ok ", "err persistenceRead")):
        return f"{where} raised something other than PersistenceReadError: {out}"
    if f["b64"] is None:
        if out != "ok " + before:
            return f"{where}: a missing persistence file is an error or changed the registry: {out[:200]}"
        if not exists:
            return f"{where}: a missing persistence file was not created"
    elif f["b64"] == "" and out != "ok " + before:
        return f"{where}: an empty file did not load as an empty registry: {out[:200]}"
    return None


def describe_steps(steps: list, log: list | None = None) -> list[str]:
    out = []
    for k, s in enumerate(steps):
        kind = s[0]
        if kind == "define-schema":
            base = "marshmallow.Schema" if s[3] is None else s[3].replace(":", ".")
            text = (f"the application defines `class {s[2]}({base})` in its module {s[1]}" + (", with fields of its own" if s[3] is None else "")
                    + ("" if s[4] else " (class Meta: register = False)"))
        elif kind == "define-class":
            text = f"the application defines `class {s[2]}({s[3].replace(':', '.')})` in its module {s[1]}"
        elif kind == "use":
            text = f"the application loads and dumps records through its {s[1]}.{s[2]}"
        elif kind == "import-library":
            text = "aiomysensors is imported"
        elif kind == "library-use":
            text = "the library's own schemas are used once and a registry is saved and loaded"
        elif kind == "logging-debug":
            text = "logging is configured at DEBUG level with a handler (root and aiomysensors loggers)"
        elif kind == "loads":
            spec = s[1]
            text = ("the persistence files are loaded" if spec.get("select") is None else
                    f"the file is loaded through {'Gateway.__aenter__' if spec.get('via') == 'enter' else 'Persistence.load'}")
        else:
            text = json.dumps(s)
        out.append(text + (f"  -> {log[k]}" if log is not None and k < len(log) and kind != "loads" else ""))
    return out


def _single_file_env(env: dict, upto: int, via: str, keep: list[int]) -> dict:
    """The environment cut after its loads step number `upto`, its non-load steps restricted to `keep`, every loads step
    loading the one file (index 0 of the job's files) through `via`."""
    steps = []
    for k, s in enumerate(env["steps"][:upto + 1]):
        if s[0] == "loads":
            if k == upto or k in keep:
                steps.append(["loads", {"select": [0], "via": via}])
        elif s[0] == "import-library" or k in keep:
            steps.append(s)
    return {"steps": steps, "loop_debug": env.get("loop_debug", False), "label": env["label"]}


def _fails(res: dict | None, f: dict) -> str | None:
    """Does the LAST load of a single-file run fail the oracle?"""
    if res is None or not res["loads"]:
        return None
    _phase, _i, via, out, before, exists = res["loads"][-1]
    return load_failure(f, via, out, before, exists)


def minimise(env: dict, upto: int, f: dict, via: str, budget: int = 40):
    """(environment, result, reproduced in a fresh interpreter?)."""
    removable = [k for k, s in enumerate(env["steps"][:upto]) if s[0] != "import-library"]
    full = _single_file_env(env, upto, via, removable)
    res = run_fresh(full, [f])
    if _fails(res, f) is None:
        return full, res, False
    # one step alone?
    with concurrent.futures.ThreadPoolExecutor(max_workers=6) as pool:
        cands = [(k, _single_file_env(env, upto, via, [k])) for k in removable if env["steps"][k][0] != "loads"][:48]
        for (k, cand), r in zip(cands, pool.map(lambda kc: run_fresh(kc[1], [f]), cands)):
            if _fails(r, f) is not None:
                return cand, r, True
    keep, best = list(removable), (full, res)
    j = 0
    while j < len(keep) and budget > 0:
        budget -= 1
        trial = keep[:j] + keep[j + 1:]
        cand = _single_file_env(env, upto, via, trial)
        r = run_fresh(cand, [f])
        if _fails(r, f) is not None:
            keep, best = trial, (cand, r)
        else:
            j += 1
    return best[0], best[1], True


def shown(f: dict) -> str:
    if f["b64"] is None:
        return "<no file>"
    data = base64.b64decode(f["b64"])
    return data[:400].decode("utf-8", "replace") + ("…" if len(data) > 400 else "")


def collect(corr, started: dict, expected_of) -> None:
    """Judge every load of every environment; `expected_of(file index)` -> the outcome the model (or the same load in
    the harness's own process) gave for that file, or None."""
    reported = False
    t0 = time.monotonic()
    for k in range(len(started["envs"])):
        _launch(started, k)
        job = started["jobs"][k]
        env, files = job.env, job.files
        res = job.result()
        _launch(started, k + PARALLEL)
        corr.count("environment: processes with application classes (fresh interpreters)")
        if res is None:
            raise RuntimeError(f"the environment run failed to report ({env['label']}): {job.stderr[-600:]}")
        started.setdefault("seconds", []).append(res.get("seconds"))
        for s, o in zip(env["steps"], res["log"]):
            corr.count(f"environment step:{s[0]}")
            if o.startswith("could not"):
                corr.count("environment step the application could not take (e.g. an enum subclass)")
        loads_steps = [k for k, s in enumerate(env["steps"]) if s[0] == "loads"]
        first_bad = None
        for phase, i, via, out, before, exists in res["loads"]:
            f = files[i]
            corr.count("environment: " + ("Gateway.__aenter__" if via == "enter" else "Persistence.load"))
            corr.count("environment outcome:" + (" ".join(out.split(" ")[:3]) if not out.startswith("ok") else "ok"))
            corr.case(("environment", env["label"], phase, i, via), True,
                      {"label": "environment: " + env["label"], "file": shown(f)[:160], "outcome": out[:160]} if i == 0 and phase == 0 else None)
            bad = load_failure(f, via, out, before, exists)
            if bad is not None:
                corr.count("environment: loads failing the oracle")
                # reported: the first failing load of a VALID file if there is one (the plainest witness), else the first
                if first_bad is None or (f["label"] == "valid" and files[first_bad[2]]["label"] != "valid"):
                    first_bad = (bad, phase, i, via, out)
                continue
            want = expected_of(f["index"]) if f["index"] is not None else None
            if want is not None:
                corr.count("environment: loads compared with the model's outcome for the same bytes")
                if want != out:
                    corr.disagree("load outcome in a process with application classes (model: the outcome of loading the same bytes)",
                                  {"scenario": env["label"], "steps": describe_steps(env["steps"], res["log"])[:60], "via": via,
                                   "label": f["label"], "bytes": shown(f), "impl": out[:800], "model": want[:800]})
        if first_bad is None:
            continue
        bad, phase, i, via, out = first_bad
        f = dict(files[i])
        upto = loads_steps[phase]
        if not reported:
            reported = True
            small, r, fresh_ok = minimise(env, upto, f, via)
            control = run_fresh({"steps": [["import-library"], ["loads", {"select": [0], "via": via}]]}, [f])
            ctl = control["loads"][-1][3] if control and control["loads"] else None
            got = r["loads"][-1][3] if (fresh_ok and r and r["loads"]) else out
            steps = describe_steps(small["steps"], r["log"] if r else None)
            steps.append(f"-> {got[:300]}")
            steps.append(f"(the same load in an interpreter that only imports the library: {ctl[:200] if ctl else 'n/a'})")
            corr.violate(("in a process in which the application has defined classes of its own: " if _fails(control, f) is None else "") + bad,
                         {"scenario": env["label"], "label": f["label"], "bytes": shown(f), "steps": steps,
                          "environment": {"env": small, "file": f, "via": via, "reproduced_in_a_fresh_interpreter": fresh_ok,
                                          "found_in": env["label"], "failing_loads_in_that_process": sum(
                                              1 for _p, j, v, o, b, e in res["loads"] if load_failure(files[j], v, o, b, e) is not None)}})
        else:
            corr.violate("in a process in which the application has defined classes of its own: " + bad,
                         {"scenario": env["label"], "label": f["label"], "bytes": shown(f),
                          "steps": describe_steps(env["steps"][:upto + 1], res["log"]) + [f"-> {out[:300]}"],
                          "environment": {"env": _single_file_env(env, upto, via, list(range(upto))), "file": f, "via": via,
                                          "reproduced_in_a_fresh_interpreter": None, "found_in": env["label"]}})
    secs = started.get("seconds", [])
    corr.notes.append(
        f"environments (harness/props/persist_env.py): {len(started['envs'])} fresh interpreters in which an application has defined "
        f"classes of its own ({sum(1 for c in started['classes'] if c['kind'] == 'schema')} library schemas, "
        f"{sum(1 for c in started['classes'] if c['kind'] in ('class', 'field'))} other library classes to name-alike / subclass), "
        f"run beside the main run (their own run times: {secs} s; this process spent {started['start_s']:.1f} s starting them and {time.monotonic() - t0:.1f} s waiting for and judging their results); the Lean model's load has no parameter for the process, so every outcome is "
        "compared with the model's outcome for the same bytes")


# ---- replay -------------------------------------------------------------------------------------------------------------


def replay(case: dict) -> None:
    e = case["environment"]
    env, f, via = e["env"], e["file"], e["via"]
    print(f"file ({f['label']}): {shown(f)[:600]}")
    control = run_fresh({"steps": [["import-library"], ["loads", {"select": [0], "via": via}]]}, [f])
    res = run_fresh(env, [f])
    if res is None or control is None:
        print("the fresh interpreter did not report")
        return
    print("an interpreter that only imports the library:")
    print("   the file is loaded ->", control["loads"][-1][3][:300] if control["loads"] else "n/a")
    print("a fresh interpreter with the application's steps:")
    for line in describe_steps(env["steps"], res["log"]):
        print("   ", line)
    for _phase, _i, v, out, before, exists in res["loads"]:
        print(f"    load through {'Gateway.__aenter__' if v == 'enter' else 'Persistence.load'} -> {out[:300]}")
    bad = _fails(res, f)
    print("oracle:", f"VIOLATED - {bad}" if bad else "holds on this tree (the load succeeded or raised PersistenceReadError)")


if __name__ == "__main__":
    print(json.dumps(execute(json.load(sys.stdin))))
