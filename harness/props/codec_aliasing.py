"""C02 and the objects the decoder hands out: what a line decodes to must not depend on what was DONE WITH earlier results.

The property gives the decoder no memory: "an accepted line always decodes to exactly the field values it spells".
`Message` is a plain object whose six attributes are public and writable, and applications do write them - the usual
way to answer a report is to take the message that came in, change command / ack / payload and send it back.  So the
quantifier "all received lines" includes lines received AFTER the application changed, sent, dumped or merely kept the
messages it got for earlier lines - equal lines (nodes report on a timer, most readings repeat), lines that spell the
same values differently, lines that differ in one field, under the same or another MessageSchema / Gateway / protocol
version.  A decoder that hands out an object it also keeps (a memo of decoded lines, an object pool, a per-schema
scratch message) passes every test that decodes each line once and only reads the result; this module is the part of
the C02 run that does something with the results.

A *history* is a list of operations (JSON lists):

  ["load", name, decoder, version, line]   decode `line`; the application keeps the Message it gets as `name`
  ["set",  name, field, value]             the application assigns one attribute of a message it holds
  ["send", name, version]                  ... passes it to Gateway.send of the long-lived gateway of that version
  ["dump", name, version]                  ... passes it to MessageSchema.dump of the long-lived schema of that version

with the four decoders of the interference part, per protocol version:

  schema-fresh   MessageSchema.load of a schema created for this one load
  schema-kept    MessageSchema.load of one schema used for the whole run
  listen-fresh   Gateway.listen of a Gateway created for this one line
  listen-kept    Gateway.listen of one Gateway used for the whole run

Oracle, at every "load": the property's own predicate (`codec.ref_accepts` through `load_verdict` / `listen_verdict`),
the same as everywhere else in the C02 run, since the statement knows no history.  And at every "load" and "set": each
message the application still holds has the values it had when it was returned, overlaid with the application's own
assignments - a result that changes later, because another line was decoded or ANOTHER result was assigned to, is not
the decoding of its line either (what "send" / "dump" do to their argument is not a statement about decoding: after those
the held values are read afresh and not judged).  If assigning is refused (an immutable Message), nothing was done with
the object and the history goes on.

Model: `Codec.decode` (driver op `dec`) is a pure function of version and line (C02.decode_history_free says what that
means for a history), so "set" / "send" / "dump" are not operations of the driver; every load is compared with `dec` at
the protocol active at that step.

On a violation the history (cut at the failing operation) is re-executed in a FRESH interpreter and shortened greedily;
`./check C02 --replay <file>` re-executes the recorded operations.
"""

from __future__ import annotations

import asyncio
import json
import os
import subprocess
import sys

from .. import gen, gw, lib
from . import codec
from .codec_interference import PATHS, load_verdict

from marshmallow import ValidationError  # noqa: E402

from aiomysensors.model.message import Message  # noqa: E402
from aiomysensors.model.node import Child, Node  # noqa: E402

VERSIONS = lib.VERSIONS
VIA = {"schema-fresh": "MessageSchema.load (object created for this one load)",
       "schema-kept": "MessageSchema.load (one object per version for the whole run)",
       "listen-fresh": "Gateway.listen (Gateway created for this one line)",
       "listen-kept": "Gateway.listen (one Gateway per version for the whole run)"}
FIELDS = ("node_id", "child_id", "command", "ack", "message_type", "payload")


def _registry(nodes=(0, 1, 7, 254), children=(0, 1, 2, 3, 5, 254)):
    return [p for n in nodes for p in [("node", n, 17, "2.0", "", "", 0, 0, False, False)]
            + [("child", n, c, c, 6, "c") for c in children]]


REGISTRY = _registry()

# well-formed lines of every command, the kinds an application answers: reports (set), requests, presentations, the
# internal messages whose handlers reply or change state, a stream message, payloads with delimiters / empty / padded
BASE_LINES = [
    "1;1;1;0;2;1", "7;3;1;1;0;21.5", "1;2;1;0;0;20.5", "1;3;2;0;49;", "254;254;1;0;2;0", "1;5;2;1;0;", "1;0;1;0;49;55.7;13.0;18",
    "1;255;0;0;17;2.0", "1;0;0;0;6;temp", "0;255;3;0;9;log;with;delims", "1;255;3;0;0;57", "1;255;3;0;11;sketch name",
    "255;255;3;0;3;", "255;5;3;0;3;", "1;5;3;0;4;9", "1;255;3;0;6;M", "1;255;3;0;1;", "1;255;4;0;0;0102", "0;255;3;0;2;2.1",
    "0;0;1;0;0; padded", "9;1;1;0;2;unknown node", "1;9;1;0;2;unknown child", "1;255;3;0;22;5", "1;255;3;0;18;",
]

# what an application may assign: other valid values, the boundaries, values no line may spell
SET_VALUES = {
    "node_id": [0, 1, 7, 254, 255, 256, -1],
    "child_id": [0, 1, 2, 254, 255, 256],
    "command": [0, 1, 2, 3, 4, 5],
    "ack": [0, 1, 2],
    "message_type": [0, 2, 3, 4, 17, 49, -5, 2 + 2**16],
    "payload": ["", "0", "1", "changed", "a;b", " padded ", "0102"],
}


def respell(rng, line: str) -> str:
    """The same six values, written differently (as far as `int()` and the trailing strip allow)."""
    f = line.split(";", 5)
    for i in rng.sample(range(5), rng.randint(1, 3)):
        v = int(f[i])
        f[i] = rng.choice(["0" + str(v) if v >= 0 else str(v), "+" + str(v) if v >= 0 else str(v), " " + str(v), str(v) + " ",
                           "00" + str(v) if v >= 0 else str(v)])
    out = ";".join(f)
    if f[5] == f[5].rstrip() and rng.random() < 0.5:
        out += gen.trailing_ws(rng)
    return out


def neighbour(rng, line: str) -> str:
    """A well-formed line that differs from `line` in one field."""
    want = codec.ref_accepts(line)
    for _ in range(20):
        f = list(want)
        i = rng.randrange(6)
        f[i] = rng.choice(SET_VALUES[FIELDS[i]])
        cand = ";".join(str(x) for x in f)
        if tuple(f) != want and codec.ref_accepts(cand) is not None:
            return cand
    return line


def other_value(rng, field: str, current):
    vals = [v for v in SET_VALUES[field] if v != current]
    return rng.choice(vals)


# ---- executing a history ------------------------------------------------------------------------------


def _fields(m) -> list:
    return [getattr(m, f, "<missing>") for f in FIELDS]


class Runner:
    """The long-lived decoders of the process and the messages the application holds."""

    def __init__(self) -> None:
        self.kept_schemas = {v: codec.schema_for(v) for v in VERSIONS}
        self.kept_gws = {v: gw.build_gateway(gw.Hist(v, True, list(REGISTRY))) for v in VERSIONS}
        self.held: dict[str, Message] = {}
        self.expected: dict[str, list] = {}
        self.line_of: dict[str, str] = {}

    def forget(self) -> None:
        """A new history: the application lets go of what it held.  The decoders stay; the registries of the long-lived
        gateways are put back (a node presentation replaces the node and its children), so that set / req lines keep
        being yielded."""
        self.held, self.expected, self.line_of = {}, {}, {}
        for g, _ in self.kept_gws.values():
            g.nodes.clear()
            for p in REGISTRY:          # as gw.build_gateway does
                if p[0] == "node":
                    g.nodes[p[1]] = Node(p[1], p[2], p[3], sketch_name=p[4], sketch_version=p[5], battery_level=p[6], heartbeat=p[7])
                else:
                    g.nodes[p[1]].children[p[2]] = Child(p[3], p[4], description=p[5])

    def _changed(self, skip: str | None = None):
        """Held messages whose values are no longer (returned values + the application's own assignments)."""
        out = []
        for name, m in self.held.items():
            now = _fields(m)
            if name != skip and now != self.expected[name]:
                out.append({"name": name, "line": self.line_of[name], "should_be": list(self.expected[name]), "is": now})
        return out

    def _rebase(self) -> None:
        for name, m in self.held.items():
            self.expected[name] = _fields(m)

    async def do(self, op) -> dict:
        kind = op[0]
        if kind == "load":
            _, name, path, version, line = op
            msg = None
            if path.startswith("schema"):
                s = codec.schema_for(version) if path == "schema-fresh" else self.kept_schemas[version]
                try:                    # codec.impl_load, keeping the object
                    msg = s.load(line)
                    got = codec._fields_of_message(msg)
                except ValidationError:
                    got = ("invalid",)
                except Exception as e:  # noqa: BLE001
                    got = ("foreign", type(e).__name__)
                res = {"got": got, "what": load_verdict(line, got), "proto": version, "how": None}
            else:
                if path == "listen-fresh":
                    g, tr = gw.build_gateway(gw.Hist(version, True, list(REGISTRY)))
                else:
                    g, tr = self.kept_gws[version]
                t = (await codec._listen_on(g, tr, [("recv", line, (), gw.DEFAULT_TIME)], True, keep_version=version))[0]
                msg = t["msg"]
                res = {"got": t["obs"], "what": codec.listen_verdict(line, t), "proto": t["proto"], "how": t["how"]}
            res["changed"] = self._changed()
            if isinstance(msg, Message):
                self.held[name] = msg
                self.expected[name] = _fields(msg)
                self.line_of[name] = line
            return res
        name = op[1]
        m = self.held.get(name)
        if m is None:
            return {"skipped": "the application holds no such message"}
        if kind == "set":
            _, _, field, value = op
            try:
                setattr(m, field, value)
            except Exception as e:  # noqa: BLE001  an immutable Message: nothing was done with it
                return {"refused": type(e).__name__, "changed": self._changed()}
            self.expected[name] = _fields(m)       # the object itself: whatever the assignment made of it
            return {"set": True, "changed": self._changed(skip=name)}
        version = op[2]
        try:
            if kind == "send":
                g, tr = self.kept_gws[version]
                tr.attempts, tr.faults = [], []
                await g.send(m)
                out = "ok " + repr([a for a, _ in tr.attempts])[:120]
            else:
                out = "ok " + repr(self.kept_schemas[version].dump(m))[:120]
        except Exception as e:  # noqa: BLE001  what sending / dumping a changed message does is C01's and C12's business
            out = "raised " + type(e).__name__
        self._rebase()
        return {"used": out}


def failure_of(op, res):
    """(what, details) if this step violates the property, else None."""
    if res.get("what") is not None:
        return res["what"], None
    if res.get("changed"):
        c = res["changed"][0]
        if op[0] == "load":
            return ("a message decoded earlier no longer has the values its line spells (nor the ones the application "
                    "assigned) after another line was decoded"), c
        return "assigning to one decoded message changed another decoded message the application holds", c
    return None


# ---- generating histories -----------------------------------------------------------------------------------


def systematic_histories(rng) -> list[list]:
    """Per version x decoder x field (and all six at once): decode a line, assign, decode the same line again through the
    same decoder, through another decoder under another version, and respelled."""
    hists = []
    k = 0
    for vi, version in enumerate(VERSIONS):
        for pi, path in enumerate(PATHS):
            for fi, field in enumerate(FIELDS + ("all",)):
                line = BASE_LINES[k % len(BASE_LINES)]
                k += 1
                want = codec.ref_accepts(line)
                ops = [["load", "a", path, version, line]]
                if fi % 3 == 1:
                    ops.append(["load", "b", path, version, line])      # two results for one line, one of them assigned to
                for f in (FIELDS if field == "all" else (field,)):
                    ops.append(["set", "a", f, other_value(rng, f, want[FIELDS.index(f)])])
                if fi % 2 == 0:
                    ops.append(["send" if (vi + pi) % 2 == 0 else "dump", "a", version])
                ops.append(["load", "c", path, version, line])
                ops.append(["load", "d", PATHS[(pi + 1 + fi) % 4], VERSIONS[(vi + 1 + fi) % 5], line])
                ops.append(["load", "e", path, version, respell(rng, line)])
                if field == "all":
                    ops.append(["load", "f", PATHS[(pi + 2) % 4], version, neighbour(rng, line)])
                hists.append(ops)
    return hists


def random_history(rng, extra_lines) -> list:
    bases = [rng.choice(BASE_LINES) if rng.random() < 0.7 else rng.choice(extra_lines) for _ in range(rng.choice([1, 1, 2]))]
    family = list(bases)
    for b in bases:
        family += [respell(rng, b), neighbour(rng, b)]
    path, version = rng.choice(PATHS), rng.choice(VERSIONS)
    ops, names = [], []
    for j in range(rng.randint(5, 16)):
        r = rng.random()
        if r < 0.5 or not names:
            if rng.random() < 0.35:
                path = rng.choice(PATHS)
            if rng.random() < 0.25:
                version = rng.choice(VERSIONS)
            name = f"m{j}"
            # mostly the line seen last or first (a repeating report), else any of the family
            line = bases[0] if rng.random() < 0.5 else rng.choice(family)
            ops.append(["load", name, path, version, line])
            names.append((name, line))
        elif r < 0.87:
            name, line = rng.choice(names[-3:]) if rng.random() < 0.7 else rng.choice(names)
            want = codec.ref_accepts(line)
            for f in rng.sample(FIELDS, rng.choice([1, 1, 1, 2, 3, 6])):
                # another value, or the value another line of the family spells there
                if rng.random() < 0.3:
                    v = codec.ref_accepts(rng.choice(family))[FIELDS.index(f)]
                else:
                    v = other_value(rng, f, want[FIELDS.index(f)])
                ops.append(["set", name, f, v])
        else:
            ops.append([rng.choice(["send", "dump"]), rng.choice(names)[0], rng.choice(VERSIONS)])
    if ops[-1][0] != "load":
        ops.append(["load", "last", path, version, bases[0]])
    return ops


# ---- a fresh interpreter ----------------------------------------------------------------------------------------


async def _execute(ops) -> list[dict]:
    r = Runner()
    out = []
    for op in ops:
        res = await r.do(op)
        f = failure_of(op, res)
        out.append({"res": {k: (repr(v) if k == "got" else v) for k, v in res.items()}, "what": f[0] if f else None,
                    "details": f[1] if f else None})
    return out


def run_fresh(ops, timeout: int = 120):
    """Execute the operations in a new interpreter (same tree); None if that failed."""
    env = dict(os.environ, PYTHONDONTWRITEBYTECODE="1")
    p = subprocess.run([sys.executable, "-m", "harness.props.codec_aliasing"], cwd=lib.VERIF, env=env, timeout=timeout,
                       input=json.dumps({"ops": ops}).encode(), capture_output=True, check=False)
    try:
        return json.loads(p.stdout.decode().strip().split("\n")[-1])
    except (ValueError, IndexError):
        return None


def minimise(ops, what: str, before: list):
    """(ops, reproduced in a fresh interpreter?, per-step results): the history alone, shortened greedily (the failing
    operation stays last); else preceded by every history this run executed before it."""
    def holds(cand):
        r = run_fresh(cand)
        return r if r is not None and len(r) == len(cand) and r[-1]["what"] == what else None

    for cand in (list(ops), [o for h in before for o in h] + list(ops)):
        r = holds(cand)
        if r is None:
            continue
        j = 0
        while j < len(cand) - 1 and len(cand) <= 40:
            r2 = holds(cand[:j] + cand[j + 1:])
            if r2 is not None:
                cand, r = cand[:j] + cand[j + 1:], r2
            else:
                j += 1
        return cand, True, r
    return list(ops), False, None


# ---- the run ------------------------------------------------------------------------------------------------


_HISTORIES: dict = {}


def histories(ctx) -> list[list]:
    """The histories of this run (a function of seed and tier)."""
    key = (ctx.seed, ctx.tier)
    if key not in _HISTORIES:
        rng = lib.rng_for(ctx.seed, "c02-aliasing")
        extra_lines = []
        while len(extra_lines) < 60:
            line = gw.gen_line(rng, rng.choice(VERSIONS), nodes=[0, 1, 7, 254])
            if codec.ref_accepts(line) is not None and not lib.has_surrogate(line):
                extra_lines.append(line)
        hists = systematic_histories(rng) + [random_history(rng, extra_lines) for _ in range(350 if ctx.tier == "quick" else 6000)]
        # unique names per history, so that histories can be concatenated for a replay
        _HISTORIES[key] = [[[o[0], f"h{i}.{o[1]}"] + o[2:] for o in h] for i, h in enumerate(hists)]
    return _HISTORIES[key]


def model_keys(ctx) -> list[tuple[str, str]]:
    """(version, line) of every load of this run's histories: run_c02 asks the model about them together with its main stream."""
    return list(dict.fromkeys((o[3], o[4]) for h in histories(ctx) for o in h if o[0] == "load"))


def run(corr, ctx, model_of) -> None:
    hists = histories(ctx)
    pending = []
    failure = []

    async def main():
        r = Runner()
        for hi, ops in enumerate(hists):
            r.forget()
            corr.count("aliasing:history")
            sets = uses = 0
            for k, op in enumerate(ops):
                res = await r.do(op)
                corr.count(f"aliasing:op:{op[0]}")
                if op[0] == "set":
                    sets += 1
                    corr.count(f"aliasing:set:{op[2]}" + (":refused" if "refused" in res else ""))
                elif op[0] in ("send", "dump"):
                    uses += 1
                else:
                    _, name, path, version, line = op
                    corr.count(f"aliasing:load:{path}")
                    corr.count(f"aliasing:load-outcome:{res['got'][0]}")
                    if sets:
                        corr.count("aliasing:load-after-assignments")
                    corr.case(("aliasing", hi, k), sets > 0,
                              {"version": version, "line": line, "class": "returned-object-reuse", "via": VIA[path],
                               "got": repr(res["got"]), "assignments_before": sets, "history": hi} if sets and len(line) < 80 else None)
                    pending.append(((res["proto"], line), path, version, res["got"], hi))
                f = failure_of(op, res)
                if f is not None:
                    failure.append((hi, k, op, res, f))
                    return

    asyncio.run(main())
    corr.notes.append(
        "returned-object part (harness/props/codec_aliasing.py): histories in which the application assigns to, sends, dumps or "
        "just keeps the Message objects it got (every field, single and all at once; valid, boundary and out-of-range values) "
        "between decodes of equal, respelled and neighbouring well-formed lines, through a MessageSchema / Gateway created for "
        "the one line and ones used for the whole run, five versions, decoder and version changing inside a history.  Judged "
        "per load by the property's predicate, plus: every message still held has its returned values overlaid with the "
        "application's own assignments.  Assignments and uses are not operations of the Lean driver (decode is a pure "
        "function: C02.decode_history_free); every load is compared with `dec`.")
    if failure:
        hi, k, op, res, (what, details) = failure[0]
        ops = hists[hi][: k + 1]
        steps, fresh_ok, r = minimise(ops, what, hists[:hi])
        last = steps[-1]
        if last[0] == "load":
            line, path, version = last[4], last[2], last[3]
            want = codec.ref_accepts(line)
            case = {"version": version, "line": line, "via": VIA[path], "got": repr(res["got"]),
                    "want": repr(want) if want is not None else "rejection"}
            if res.get("how") is not None:
                case["observed"] = res["how"]
        else:
            case = {"assignment": last}
        if details is not None:
            case["changed_message"] = details
        note = ("re-executed in a fresh interpreter: these operations alone end in the violation" if fresh_ok else
                "executed in this process after the main stream of run_c02 and the earlier histories of this part; neither this "
                "history alone nor all histories of this part reproduced it in a fresh interpreter")
        corr.violate("after the application changed or used messages it had received: " + what,
                     {**case, "class": "returned-object-reuse",
                      "aliasing": {"ops": steps, "fresh_interpreter": fresh_ok, "history": hi, "note": note,
                                   "step_results": [x["res"] for x in r] if r else None}})
    if not ctx.model_ok:
        return
    extra = [k for k in dict.fromkeys(p[0] for p in pending) if k not in model_of]
    for key, o in zip(extra, lib.run_model([codec.model_dec(v, l) for v, l in extra])):
        model_of[key] = codec.parse_model_dec(o)
    seen = set()
    for key, path, version, got, hi in pending:
        md = model_of[key]
        same = md[0] == "ok" if got[0] == "accepted" else md == got
        if not same and (key, path) not in seen:
            seen.add((key, path))
            corr.disagree("decode after the application changed or used messages it had received",
                          {"version": version, "line": key[1], "class": "returned-object-reuse", "via": VIA[path],
                           "impl": repr(got), "model": repr(md), "history": hists[hi]})


# ---- replay -------------------------------------------------------------------------------------------------


def replay(case) -> None:
    al = case["aliasing"]
    ops = al["ops"]
    print(f"{len(ops)} operations, executed in this (new) process; names are the application's variables")
    res = asyncio.run(_execute(ops))
    for i, (op, r) in enumerate(zip(ops, res)):
        if op[0] == "load":
            want = codec.ref_accepts(op[4])
            text = (f"{op[1]} = decode {op[4]!r} under protocol {op[3]} via {VIA[op[2]]}\n   -> {r['res']['got']}"
                    f"   (the line spells {want!r})")
        elif op[0] == "set":
            text = f"{op[1]}.{op[2]} = {op[3]!r}" + (f"   -> refused ({r['res']['refused']})" if "refused" in r["res"] else "")
        else:
            text = f"{'Gateway.send' if op[0] == 'send' else 'MessageSchema.dump'}({op[1]}) under protocol {op[2]}   -> {r['res'].get('used', r['res'])}"
        print(f"step {i + 1}: {text}")
        if r["what"]:
            print(f"   <-- {r['what']}" + (f": {r['details']}" if r["details"] else ""))
    if not any(r["what"] for r in res):
        print("no step violated the property on this tree")


if __name__ == "__main__":
    _req = json.loads(sys.stdin.read())
    print(json.dumps(asyncio.run(_execute(_req["ops"])), default=str))
