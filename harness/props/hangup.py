"""C16, the far end ends the connection while the body of the context is reading.

"leaving the context - normally or through an exception ... - disconnects the transport, writes the final registry to
the file and leaves no background task running", for "all built-in transport kinds": here the connection is ended BY
THE FAR END while the context is open, at every point relative to the message boundaries -

  * after k complete messages (k = 0: before any), exactly between two messages or in the middle of one;
  * by a half-close (the far end stops sending, keeps listening: a rebooting ethernet gateway, a serial bridge that
    shuts its sending side), by going away altogether, by a reset (tcp); for the MQTT kinds: the broker connection
    breaks after k messages;
  * before the body's first read (everything, the end included, sits received in the transport) or while the body
    is waiting inside `gateway.listen()`;

- the body reads through `gateway.listen()` until it raises (and possibly tries again, as a retry loop does), or
stops before it reaches the end, and then the context is left: with the error `listen()` raised, normally (the body
swallowed it), with another exception, or by cancellation of the task (parked after the error, or still waiting
inside `listen()` on a connection that stays up).  The same Gateway and transport objects may then be entered
again (a reconnect loop).

Judged by the property's oracle (`lifecycle.oracle`: right exception, disconnect attempted, no task left, final save
done, file == registry as of exit, no hang) plus what "disconnected" means on the wire: a far end that is still there
sees the connection closed, and the process holds no socket the transport opened (`Wire.sockets_left_open`, the real
file descriptors).  Real sockets, real aiofiles: the group runs through `lifecycle.confirmed`.
"""

from __future__ import annotations

import asyncio
import os

from . import lifecycle as lc
from .lifecycle import (BodyBoom, Config, Corr, Gateway, Node, Persistence, Wire, canon, classify, file_canon, lib, oracle, presentation_line,
                        v0_nodes, _dumped, _until)

STREAM_KINDS = ("tcp", "serial")
FAR_END = {"tcp": ("half-close", "close", "reset"), "serial": ("half-close", "close"),
           "mqtt-client": ("connection-lost",), "mqtt-abstract": ("connection-lost",)}
EXITS = ("listen-error", "normal", "raise", "cancel")
WHEN = ("before-reading", "while-reading")


def words(sc: dict) -> str:
    k, kind = sc["complete"], sc["kind"]
    far = sc["far_end"]
    if far == "stays":
        end = "stays connected and silent"
    elif kind in lc.MQTT_KINDS:
        end = "the broker connection breaks"
    else:
        end = {"half-close": "closes its sending side (end of stream)", "close": "closes the connection", "reset": "resets the connection"}[far]
        end += " in the middle of a further message" if sc.get("mid_message") else (" exactly between two messages" if k else " before any message")
    read = sc.get("read")
    body = ("the body reads through gateway.listen() until it raises" if read is None else
            f"the body handles {read} message(s) through gateway.listen() and stops")
    if sc.get("retries"):
        body += f", then tries gateway.listen() {sc['retries']} more time(s)"
    how = {"listen-error": "the body ends with the error listen() raised", "normal": "the body ends normally",
           "raise": "the body raises", "cancel": "the task running the context is cancelled"}[sc["exit_how"]]
    if far == "stays":
        how = "the task running the context is cancelled while the body waits inside listen()"
    return (f"per context: the far end sends {k} complete message(s), then {end} "
            f"({'before the body starts reading' if sc['when'] == 'before-reading' else 'while the body is waiting in listen()'}); {body}; {how}")


async def run_hangup(path: str, sc: dict) -> list[dict]:
    """One scenario (see `words`); one observation per context on the same objects (the list ends with the first
    context that hung)."""
    kind, k, far, when = sc["kind"], sc["complete"], sc["far_end"], sc["when"]
    exit_how, read, retries = sc["exit_how"], sc.get("read"), sc.get("retries", 0)
    n_sessions = sc.get("sessions", 1)
    v0 = v0_nodes()
    await asyncio.wait_for(Persistence(v0, path).save(), lc.GUARD)
    wire = Wire(kind)
    out: list[dict] = []
    try:
        transport = await wire.open()
        called: list[str] = []
        orig_connect, orig_disconnect = transport.connect, transport.disconnect

        async def spy_connect():
            called.append("connect")
            return await orig_connect()

        async def spy_disconnect():
            called.append("disconnect")
            return await orig_disconnect()
        transport.connect, transport.disconnect = spy_connect, spy_disconnect  # type: ignore[method-assign]
        gateway = Gateway(transport, Config(persistence_file=path))
        for session in range(n_sessions):
            called.clear()
            file0 = file_canon(path)
            first_id = 50 + 20 * session
            obs: dict = {"entered": False, "loaded_ok": None, "stage": "entering", "session": session}
            body_parked = asyncio.Event()
            raised: list = []           # what listen() raised into the body, in order
            ended_with: list = []
            generators: list = []
            handled = [0]
            reg_at_exit = None
            before_tasks = asyncio.all_tasks()
            exc: BaseException | None = None

            async def far_end_acts(wait: bool) -> None:
                items = [("msg", first_id + i) for i in range(k)]
                if sc.get("mid_message"):
                    items.append(("partial",))
                if kind in STREAM_KINDS and not wait:
                    # the body is reading: what is sent is taken out of the transport as it arrives
                    data = b"".join(lc.PARTIAL_BYTES if it[0] == "partial" else (presentation_line(it[1]) + "\n").encode() for it in items)
                    if data and kind == "tcp":
                        w = wire.peer_writers[-1]
                        w.write(data)
                        await asyncio.wait_for(w.drain(), lc.GUARD)
                    elif data:
                        wire.peers[-1].sendall(data)
                else:
                    await wire.deliver(items)
                if far != "stays":
                    await wire.hang_up(far, wait=wait)

            async def far_end_later() -> None:
                for _ in range(3):
                    await asyncio.sleep(0)                  # the body is waiting inside listen() (it ran on to there)
                if kind == "tcp":
                    await asyncio.wait_for(_until(lambda: len(wire.peer_writers) > wire.peer_done, lc.GUARD), 2 * lc.GUARD)
                await far_end_acts(False)
                if far == "stays":
                    await _until(lambda: handled[0] >= k, lc.GUARD)
                    for _ in range(3):
                        await asyncio.sleep(0)
                    body_parked.set()                       # ... and is cancelled there

            async def body() -> None:
                helper = None
                if when == "before-reading":
                    await far_end_acts(True)
                else:
                    helper = asyncio.ensure_future(far_end_later())
                try:
                    for attempt in range(1 + retries):
                        listen = gateway.listen()
                        generators.append(listen)   # kept: a generator dropped by the body is finalised by the loop at some later time
                        try:
                            while read is None or handled[0] < read:
                                if attempt:
                                    # a further attempt after listen() has raised: it raises again or nothing comes any more
                                    await asyncio.wait_for(anext(listen), 0.05 * lc.SLACK)
                                else:
                                    await anext(listen)
                                handled[0] += 1
                        except TimeoutError as e:
                            if not attempt:
                                raised.append(e)
                            obs["a_further_attempt_got_nothing"] = bool(attempt)
                            break
                        except Exception as e:  # noqa: BLE001  what listen() raised
                            raised.append(e)
                        if not raised:
                            break
                finally:
                    if helper is not None:
                        if not helper.done():
                            helper.cancel()
                        await asyncio.wait([helper], timeout=lc.GUARD)

            async def context():
                nonlocal reg_at_exit
                try:
                    async with gateway:
                        obs["entered"] = True
                        now = _dumped(canon(gateway.nodes))
                        obs["loaded_ok"] = all(now.get(key) == v for key, v in _dumped(file0).items())
                        obs["stage"] = "body"
                        await asyncio.sleep(0.03 * lc.SLACK)       # the saver's first save is done, it sleeps
                        await body()
                        gateway.nodes[42 + session] = Node(42 + session, 17, "2.0", sketch_name=f"added in the body of session {session}")
                        reg_at_exit = canon(gateway.nodes)
                        obs["stage"] = "leaving"
                        if exit_how == "cancel":
                            body_parked.set()
                            await asyncio.Event().wait()     # the task running the context is cancelled here
                        if exit_how == "listen-error" and raised:
                            ended_with.append(raised[-1])
                            raise raised[-1]
                        if exit_how == "raise":
                            ended_with.append(BodyBoom("body"))
                            raise ended_with[0]
                finally:
                    if reg_at_exit is None:
                        reg_at_exit = canon(gateway.nodes)

            try:
                if exit_how == "cancel":
                    task = asyncio.ensure_future(context())
                    parked = asyncio.ensure_future(body_parked.wait())
                    await asyncio.wait([task, parked], timeout=lc.GUARD, return_when=asyncio.FIRST_COMPLETED)
                    parked.cancel()
                    obs["cancelled_inside_listen"] = obs["stage"] == "body"
                    if not task.done():
                        task.cancel()
                    await asyncio.wait([task], timeout=lc.GUARD)
                    if not task.done():
                        task.cancel()                  # abandoned: it is parked somewhere in the exit
                        await asyncio.wait([task], timeout=lc.GUARD)
                        raise TimeoutError
                    if task.cancelled():
                        raise asyncio.CancelledError
                    if task.exception() is not None:
                        raise task.exception()
                else:
                    await asyncio.wait_for(context(), lc.GUARD)
            except BaseException as e:  # noqa: BLE001
                exc = e
            def left_tasks():
                left = [t for t in asyncio.all_tasks() - before_tasks if t is not asyncio.current_task() and not t.done()]
                return [t for t in left if not any(own in getattr(t.get_coro(), "__qualname__", "?") for own in ("on_client", "StreamReaderProtocol"))]
            await _until(lambda: not left_tasks(), 0.02 * lc.SLACK)      # let executor callbacks and closed sockets settle
            outcome = "bodyErr" if exc is not None and ended_with and exc is ended_with[0] else classify(exc)
            closed = left_open = None
            if obs["entered"] and outcome != "hang":
                left_open = await wire.sockets_left_open()
                if far in ("half-close", "stays", "connection-lost") and not left_open:
                    closed = await wire.far_end_closed()          # (a far end that has gone away itself sees nothing)
            leftovers_real = left_tasks()       # (the far end's own connection handlers are not the library's)
            names = sorted({getattr(t.get_coro(), "__qualname__", "?") for t in leftovers_real})
            for t in leftovers_real:          # (the far end's own connection handlers end when the wire is closed)
                t.cancel()
            if leftovers_real:
                await asyncio.wait(leftovers_real, timeout=lc.GUARD)
            for g in generators:
                try:
                    await asyncio.wait_for(g.aclose(), lc.GUARD)
                except BaseException:  # noqa: BLE001
                    pass
            content = file_canon(path)
            obs.update({"outcome": outcome, "error": None if exc is None else f"{type(exc).__name__}: {exc}"[:200],
                        "leftover_tasks": len(leftovers_real), "leftover_names": names, "saver_alive": False,
                        "disconnect_called": "disconnect" in called, "connect_called": "connect" in called,
                        "far_end_saw_the_connection_closed": closed, "sockets_left_open": left_open,
                        "started": True, "final_save_done": content == reg_at_exit,
                        "file_is_registry_at_exit": content == reg_at_exit,
                        "file": "truncated" if content == "" else "holds:1" if content == reg_at_exit else "other",
                        "messages_handled_by_the_body": handled[0],
                        "listen_raised": [f"{type(e).__name__}: {e}"[:120] for e in raised],
                        "body_ended_with": None if not ended_with else type(ended_with[0]).__name__,
                        "nodes_in_registry_at_exit": lib.key_sorted(int(x) if x.lstrip("-").isdigit() else x for x in _dumped(reg_at_exit))})
            out.append(obs)
            if outcome == "hang":
                break
    finally:
        await wire.close()
    return out


def judge(corr: Corr, sc: dict, case: dict, sessions: list[dict]) -> bool:
    """The oracle over the contexts of one scenario.  Returns whether every judged context was fine."""
    kind, how = sc["kind"], sc["exit_how"]
    fine = True
    for obs in sessions:
        k = obs["session"]
        scase = {**case, "failing_context": k + 1} if sc.get("sessions", 1) > 1 else case
        corr.count("hangup:transport:" + kind)
        corr.count("hangup:far-end:" + sc["far_end"] + (":mid-message" if sc.get("mid_message") else ""))
        corr.count("hangup:exit:" + how)
        corr.count("hangup:outcome:" + obs["outcome"])
        corr.count("hangup:listen-raised:" + ("yes" if obs["listen_raised"] else "no"))
        corr.case(("hangup", kind, sc["far_end"], sc["complete"], bool(sc.get("mid_message")), sc["when"], sc.get("read"),
                   sc.get("retries", 0), how, k), True,
                  {"transport": kind, "scenario": {x: y for x, y in sc.items() if x != "origin"}, "context": k + 1,
                   "listen_raised": obs["listen_raised"][:1], "outcome": obs["outcome"]})
        if obs["outcome"] == "hang" and obs["stage"] == "body":
            # the harness's own body did not get through (listen() neither returned a message nor raised after the far
            # end had gone): not what this property is about; nothing is judged
            corr.count("hangup:not-judged(body did not get through)")
            corr.notes.append(f"hang-up scenario not judged, the body did not get through its reads: {case['what_happens']} ({kind})"[:300])
            continue
        faults = {"cancel": True} if how == "cancel" and obs["stage"] != "entering" else {"body": True} if obs["body_ended_with"] else {}
        what = f"the far end ended the connection while the context was open, transport {kind}" if sc["far_end"] != "stays" else \
            f"context left by cancellation while the body waits inside listen(), transport {kind}"
        what += f" (context {k + 1} on the same objects)" if k else ""
        ok = oracle(corr, what, scase, obs, faults)
        if ok and obs["far_end_saw_the_connection_closed"] is False:
            corr.violate(what + ": the context was left but the far end still sees the connection open (the transport was "
                         "not disconnected)", {**scase, "observed": obs})
            ok = False
        fine = fine and ok
    return fine


def case_of(sc: dict) -> dict:
    return {"transport": sc["kind"], "file_layer": "real aiofiles", "origin": sc.get("origin", "hangup"), "what_happens": words(sc),
            "hangup": {x: y for x, y in sc.items() if x != "origin"}, "contexts_on_the_same_objects": sc.get("sessions", 1)}


def scenarios(rng, tier: str) -> list[dict]:
    out: list[dict] = []
    shift = rng.randrange(1 << 16)
    n = 0
    for kind in lc.TRAFFIC_KINDS:
        stream = kind in STREAM_KINDS
        points = [(k, mid) for k in (0, 1, 2, 3) for mid in ((False, True) if stream else (False,))]
        if tier == "quick":
            points = [(k, mid) for k, mid in points if k < 2 or (k == 2 and not mid)]
        for far in FAR_END[kind]:
            for k, mid in points:
                if tier == "quick":
                    # every point of every way of ending, the other dimensions rotating (differently per seed)
                    n += 1
                    i = n + shift
                    combos = [(EXITS[i % 4], WHEN[(i // 4) % 2], 1 if i % 5 == 0 else 0)]
                else:
                    combos = [(how, when, r) for how in EXITS for when in WHEN for r in (0, 1)]
                for how, when, r in combos:
                    out.append(dict(kind=kind, complete=k, mid_message=mid, far_end=far, when=when, read=None, retries=r, exit_how=how,
                                    origin="hangup-grid"))
        # the end of the connection has been received, the body stops before it reaches it
        for j, how in enumerate(("normal", "raise", "cancel")):
            if tier == "quick" and (j + shift + lc.TRAFFIC_KINDS.index(kind)) % 3:
                continue
            out.append(dict(kind=kind, complete=2, mid_message=False, far_end=FAR_END[kind][0], when="before-reading", read=1 + (j + shift) % 2,
                            retries=0, exit_how=how, origin="hangup-grid"))
        # the connection stays up, the body waits inside listen() and the task is cancelled there
        for k in ((shift + lc.TRAFFIC_KINDS.index(kind)) % 3,) if tier == "quick" else (0, 1, 2):
            out.append(dict(kind=kind, complete=k, mid_message=stream and k == 1, far_end="stays", when="while-reading", read=None, retries=0,
                            exit_how="cancel", origin="hangup-grid"))
        # a reconnect loop: the same objects are entered again after the far end had ended the connection
        for j, how in enumerate(("listen-error", "normal")):
            idx = lc.TRAFFIC_KINDS.index(kind)
            if tier == "quick" and ((idx + shift) % 2 or j != (idx // 2 + shift // 2) % 2):
                continue        # quick: a stream kind and an MQTT kind per seed, each way of leaving once
            out.append(dict(kind=kind, complete=1, mid_message=False, far_end=FAR_END[kind][(j + shift) % len(FAR_END[kind])],
                            when=WHEN[(j + shift // 2) % 2], read=None, retries=0, exit_how=how, sessions=2, origin="hangup-grid"))
    for _ in range(3 if tier == "quick" else 150):
        kind = rng.choice(lc.TRAFFIC_KINDS)
        k = rng.randint(0, 5)
        to_the_end = rng.random() < 0.8
        out.append(dict(kind=kind, complete=k, mid_message=kind in STREAM_KINDS and rng.random() < 0.4, far_end=rng.choice(FAR_END[kind]),
                        when=rng.choice(WHEN) if to_the_end else "before-reading", read=None if to_the_end else rng.randint(0, k),
                        retries=rng.choice((0, 0, 1, 2)) if to_the_end else 0,
                        exit_how=rng.choice(EXITS if to_the_end else EXITS[1:]), sessions=2 if rng.random() < 0.2 else 1, origin="hangup-random"))
    return out


def group(ctx, rng, path: str):
    """The group as `lifecycle.confirmed` runs it."""
    scs = [dict(c["hangup"], origin="corpus:" + c["_file"]) for c in lib.load_corpus("C16") if "hangup" in c] + scenarios(rng, ctx.tier)

    async def hangups(corr: Corr) -> None:
        hangs = 0
        t0 = asyncio.get_running_loop().time()
        for sc in scs:
            if hangs >= 2:
                corr.count("hangup:skipped-after-repeated-hangs")
                continue
            case = case_of(sc)
            try:
                sessions = await run_hangup(path, sc)
            except BaseException as e:  # noqa: BLE001
                corr.violate(f"hang-up scenario crashed: {type(e).__name__}: {e}"[:300], case)
                continue
            hangs += any(o["outcome"] == "hang" for o in sessions)
            judge(corr, sc, case, sessions)
        corr.count("hangup:wall-ms", int(1000 * (asyncio.get_running_loop().time() - t0)))
    return hangups


def replay(case: dict) -> int:
    """Re-executes a hang-up case on the implementation and prints what the oracle says."""
    sc = dict(case["hangup"])
    path = os.path.join(lib.scratch(), "c16-hangup-replay.json")
    print("what happens:", words(sc))
    sessions = asyncio.run(run_hangup(path, sc))
    for obs in sessions:
        print(f" context {obs['session'] + 1}:")
        for k in ("outcome", "error", "entered", "stage", "messages_handled_by_the_body", "listen_raised", "disconnect_called",
                  "far_end_saw_the_connection_closed", "sockets_left_open", "leftover_names", "final_save_done", "file"):
            print(f"   {k}: {obs.get(k)!r}")
    corr = Corr("C16", "")
    ok = judge(corr, sc, case_of(sc), sessions)
    for v in corr.violations:
        print("VIOLATED:", v["what"])
    print("reproduced" if not ok else "not reproduced: the oracle holds on this tree")
    return 0
