"""C06 outside the handling of a received line: the transport's write log over whole controller sessions.

"The controller writes to the gateway ONLY as a specified reaction to a received message ... no other received message
produces any write."  The ordinary C06 histories look at the writes that follow each received line on a gateway that
is simply there.  A write that is nobody's reaction can also happen where no line is being handled at all: when the
gateway context is entered (the registry has just been restored from the persistence file, the transport has just
connected), while the listener waits for the next line, when the listener is cancelled, when the context is left, when
it is entered again (the same object: a reconnect; a new object on the same file: the controller started again), and
between two sessions.  This module runs real `async with Gateway(transport, Config(persistence_file=...))` statements
on a file written beforehand and keeps ONE write log per transport for the whole life:

* the file: absent, an empty registry, placeholder nodes only (what an id request leaves: type 17, version 1.4, nothing
  else), presented 1.4 / 1.5 nodes, 2.x nodes, sleeping nodes (2.x, `sleeping: true`, a heartbeat), any mixture, with
  children and stored values; in the aiomysensors layout or the pymysensors one;
* the configuration: metric / imperial; the application may have told the gateway object its version before entering
  (`gateway.protocol_version = "2.1"`) or not (unknown: the version-query rule is in force from the first line);
* each session: the enter, the time the save scheduled by the enter needs, then received lines - each preceded by a
  stretch in which the listener is already waiting in `transport.read()` and the loop runs with nothing arriving - and
  idle stretches of their own; the body ends normally, with the listener cancelled while it waits, or with an
  exception of the application; then the leave, a stretch between the sessions, and the next session (same object or
  a new one on the file the last session saved: nodes that presented themselves in one session are restored in the
  next, whatever version they stated).

Oracle: every phase that is not the handling of a received line must leave the write log empty; the writes of a
received line must be exactly the specified reactions (`gateway.specified_writes`, the table the ordinary C06 run uses,
evaluated on the real registry / version / buffers observed immediately before the line arrives).

Model: sessions, files and idle time are not operations of the gateway model (writes exist there only as the output
of a step applied to a received line or a send, so "nothing is written in between" holds by construction); this part
is judged by the oracle alone.  A violation is shrunk (sessions, steps, stored nodes dropped while the verdict stays).
A case: {"quiet_sessions": scenario cut after the offending phase, "phase": ..., "writes": [...]}.
"""

from __future__ import annotations

import asyncio
import heapq
import json
import os
from types import SimpleNamespace

from .. import gw, lib
from ..lib import Corr

V2X = ("2.0", "2.1", "2.2")


class WaitingTransport(gw.FaultTransport):
    """The in-memory transport, except that `read()` WAITS while nothing has arrived (a real connection does)."""

    def __init__(self) -> None:
        super().__init__()
        self.waiter: asyncio.Future | None = None

    async def read(self) -> str:
        while not self.lines:
            self.waiter = asyncio.get_running_loop().create_future()
            await self.waiter
        return self.lines.pop(0)

    def arrive(self, line: str) -> None:
        self.lines.append(line)
        if self.waiter is not None and not self.waiter.done():
            self.waiter.set_result(None)


class VirtualTimeLoop(asyncio.SelectorEventLoop):
    """An event loop on virtual time (as in lifecycle.py): whenever nothing is ready to run, time jumps to the next
    timer.  An idle stretch of an hour - the periodic save of the persistence runs many times in it - costs nothing.
    The library's file operations run inline (`gw._inline_files`), so no executor thread is involved."""

    def __init__(self) -> None:
        super().__init__()
        self._vnow = 0.0

    def time(self) -> float:
        return self._vnow

    def _run_once(self) -> None:
        if not self._ready:
            while self._scheduled and self._scheduled[0]._cancelled:     # noqa: SLF001
                handle = heapq.heappop(self._scheduled)
                handle._scheduled = False                                 # noqa: SLF001
                self._timer_cancelled_count = max(0, self._timer_cancelled_count - 1)
            if self._scheduled and self._scheduled[0]._when > self._vnow:  # noqa: SLF001
                self._vnow = self._scheduled[0]._when                     # noqa: SLF001
        super()._run_once()


class AppError(Exception):
    """An exception of the application's own code leaving `async with gateway:`."""


# ---- the file -------------------------------------------------------------------------------------
# a stored node: [id, type, stored version, sketch name, sleeping, heartbeat, {child id: [child type, {value type: value}]}]


def write_file(path: str, fmt: str, nodes) -> None:
    try:
        os.unlink(path)
    except OSError:
        pass
    if nodes is None:
        return
    data = {}
    for nid, ntype, pv, sketch, sleeping, hb, children in nodes:
        if fmt == "aiomysensors":
            data[str(nid)] = {"node_id": nid, "node_type": ntype, "protocol_version": pv, "sketch_name": sketch,
                              "sketch_version": "1.0" if sketch else "", "battery_level": 0, "heartbeat": hb, "sleeping": sleeping,
                              "children": {str(c): {"child_id": int(c), "child_type": ct, "description": "", "values": dict(vals)}
                                           for c, (ct, vals) in children.items()}}
        else:   # the pymysensors names, read through the schema's compatibility hook (no sleeping flag there)
            data[str(nid)] = {"sensor_id": nid, "type": ntype, "protocol_version": pv, "sketch_name": sketch or None,
                              "sketch_version": "1.0" if sketch else None, "battery_level": 0, "heartbeat": hb,
                              "children": {str(c): {"id": int(c), "type": ct, "description": "", "values": dict(vals)}
                                           for c, (ct, vals) in children.items()}}
    with open(path, "w", encoding="utf-8") as f:
        json.dump(data, f)


def stored_node(rng, nid: int, kind: str):
    if kind == "placeholder":
        return [nid, 17, "1.4", "", False, 0, {}]
    pv = {"v1": rng.choice(("1.4", "1.4", "1.5")), "v14": "1.4", "v2x": rng.choice(V2X), "sleeping": rng.choice(V2X)}[kind]
    children = {}
    for c in rng.sample((0, 1, 2), rng.randint(0, 3)):
        children[str(c)] = [rng.choice((6, 3, 0)), {str(t): rng.choice(("20.0", "1", "x;y")) for t in gw.VTYPES if rng.random() < 0.5}]
    return [nid, 17, pv, rng.choice(("Sk", "")), kind == "sleeping", rng.choice((0, 10)) if kind == "sleeping" else 0, children]


FILE_KINDS = ("absent", "empty", "placeholder", "v14", "v1", "v2x", "sleeping", "mixed")


def stored_registry(rng, kind: str):
    if kind == "absent":
        return None
    if kind == "empty":
        return []
    ids = sorted(rng.sample(gw.NODES + [7, 40], rng.randint(1, 3)))
    if kind == "mixed":
        return [stored_node(rng, n, rng.choice(("placeholder", "v14", "v1", "v2x", "sleeping"))) for n in ids]
    return [stored_node(rng, n, kind) for n in ids]


# ---- scenarios ------------------------------------------------------------------------------------
# a session: {"object": "new" | "same", "steps": [["recv", line, idle before it arrives, now] | ["idle", idle]],
#             "end": "normal" | "cancel" | "raise", "pause": idle after the leave}
# idle = [turns of the loop, then seconds of (virtual) time]: the listener is waiting, nothing arrives

IDLE_SECONDS = (0, 0, 0, 1, 9, 10, 11, 60, 3600)


def gen_session(rng, version: str, ids, first: bool, known: bool):
    steps = []
    n = rng.randint(2, 7)
    report_at = None if known and rng.random() < 0.7 else rng.randint(0, n)     # the gateway states its version here
    for k in range(n + 1):
        if k == report_at:
            steps.append(["recv", f"0;255;3;0;2;{version}", [rng.choice((0, 0, 1, 3)), 0], list(gw.DEFAULT_TIME)])
        if k == n:
            break
        if rng.random() < 0.15:
            steps.append(["idle", [rng.randint(1, 6), rng.choice(IDLE_SECONDS)]])
        steps.append(["recv", gw.gen_line(rng, version, ids), [rng.choice((0, 0, 1, 2, 5)), rng.choice(IDLE_SECONDS)],
                      list(rng.choice(gw.TIMES))])
    return {"object": "new" if first or rng.random() < 0.5 else "same", "steps": steps,
            "end": rng.choice(("normal", "normal", "cancel", "raise")), "pause": [rng.choice((0, 2, 5)), rng.choice(IDLE_SECONDS)]}


def gen_scenario(rng, version: str, kind: str, fmt: str, preset: bool, sessions: int):
    nodes = stored_registry(rng, kind)
    ids = sorted({n[0] for n in nodes or []} | set(rng.sample(gw.NODES, 2)))
    sc = {"version": version, "metric": rng.random() < 0.6, "format": fmt, "file_kind": kind, "file": nodes,
          "preset": version if preset else None, "sessions": []}
    known = preset
    for i in range(sessions):
        s = gen_session(rng, version, ids, i == 0, known and (i == 0 or sc["sessions"][-1]["object"] == "same"))
        known = s["object"] == "same" and known or any(st[0] == "recv" and st[1].startswith("0;255;3;0;2;") for st in s["steps"])
        sc["sessions"].append(s)
    return sc


def scenarios(ctx):
    rng = lib.rng_for(ctx.seed, "c06quiet")
    out = []
    quick = ctx.tier == "quick"
    # every kind of file x both layouts x version told beforehand or not (the version the gateway will report varies)
    for kind in FILE_KINDS:
        for fmt in ("aiomysensors", "pymysensors"):
            if kind in ("absent", "empty") and fmt == "pymysensors":
                continue
            for preset in (False, True):
                for _ in range(3 if quick else 12):
                    out.append(gen_scenario(rng, rng.choice(lib.VERSIONS), kind, fmt, preset, rng.randint(1, 3)))
    for _ in range(60 if quick else 1500):
        out.append(gen_scenario(rng, rng.choice(lib.VERSIONS), rng.choice(FILE_KINDS), rng.choice(("aiomysensors", "pymysensors")),
                                rng.random() < 0.3, rng.randint(1, 4)))
    return out


# ---- running one scenario on the real gateway -------------------------------------------------------


def _observe(g):
    _, sbuf = gw.observed_sbuf(g)
    return {"pv": g.protocol_version, "proto": g.protocol.VERSION, "nodes": gw.snapshot_nodes(g), "sbuf": sbuf,
            "ibuf": list(lib.sleep_buffer(g).internal_messages)}


async def _idle(idle) -> None:
    turns, seconds = idle
    for _ in range(turns):
        await asyncio.sleep(0)
    if seconds:
        await asyncio.sleep(seconds)


async def _run(sc: dict, path: str):
    """The phases of the life, in order: dicts {"at": (session, step or None), "phase": text, "writes": attempts} and, for
    a received line, {"line", "now", "out", "before", "after"} as well."""
    from aiomysensors.gateway import Config, Gateway
    gw._inline_files(asyncio.get_running_loop())
    write_file(path, sc["format"], sc["file"])
    phases: list = []
    g = tr = None

    def phase(si, ki, text, **more):
        phases.append({"at": [si, ki], "phase": text, "writes": list(tr.attempts), **more})
        tr.attempts = []

    for si, s in enumerate(sc["sessions"]):
        if g is None or s["object"] == "new":
            tr = WaitingTransport()
            g = Gateway(tr, Config(metric=sc["metric"], persistence_file=path))
            if sc["preset"] is not None:
                g.protocol_version = sc["preset"]       # the application knows its gateway
        tr.lines, tr.attempts = [], []
        left = "the context was left"
        try:
            async with g:
                phase(si, None, "entering the context (registry restored from the file, transport connected)",
                      registry={k: v["pv"] for k, v in gw.snapshot_nodes(g).items()}, version=g.protocol_version)
                await gw.settle(g, path)
                phase(si, None, "after the enter, nothing arriving (the save scheduled by the enter runs)")
                listener, pending = g.listen(), None
                for ki, st in enumerate(s["steps"]):
                    if pending is None:
                        # the application is in `async for message in gateway.listen()`: the listener waits in read()
                        pending = asyncio.ensure_future(anext(listener))
                    if st[0] == "idle":
                        await _idle(st[1])
                        phase(si, ki, "the listener waits, nothing arrives")
                        continue
                    _, line, idle, now = st
                    await _idle(idle)
                    phase(si, ki, "the listener waits for the next line")
                    gw.TIME_STUB.now = tuple(now)
                    before = _observe(g)
                    tr.arrive(line)
                    try:
                        out = gw.render_msg(await pending)
                    except BaseException as e:  # noqa: BLE001  (evidence about the code under test)
                        out = gw.render_exc(e)
                        listener = g.listen()        # a generator that raised is finished: the application listens again
                    pending = None
                    phase(si, ki, "received line", line=line, now=list(now), out=out, before=before, after=_observe(g))
                if pending is not None or s["end"] == "cancel":
                    if pending is None:
                        pending = asyncio.ensure_future(anext(listener))
                        await _idle([2, 0])
                    pending.cancel()
                    try:
                        await pending
                    except BaseException:  # noqa: BLE001
                        pass
                    phase(si, None, "the listener is cancelled while it waits")
                else:
                    await listener.aclose()
                if s["end"] == "raise":
                    raise AppError("the application's own error leaves the context")
        except AppError:
            left = "the context was left by an exception of the application"
        except BaseException as e:  # noqa: BLE001
            left = "the context statement raised " + gw.render_exc(e)
        phase(si, None, left)
        await _idle(s["pause"])
        phase(si, None, "between two sessions")
    return phases


def run_scenario(sc: dict, path: str):
    with asyncio.Runner(loop_factory=VirtualTimeLoop) as runner:
        return runner.run(_run(sc, path))


# ---- the oracle -----------------------------------------------------------------------------------


def judge(sc: dict, phases):
    """(index of the first offending phase, what, the specified writes or None) or None."""
    from . import gateway as gprops
    cfg = SimpleNamespace(metric=sc["metric"])
    for i, p in enumerate(phases):
        got = [w for w, _ in p["writes"]]
        if p["phase"] != "received line":
            if got:
                return i, ("a write to the gateway that is not a reaction to any received message: " + p["phase"]), []
            continue
        f = gprops.fields_of(p["line"])
        if f is None:
            if got:
                return i, "a rejected line produced writes (gateway with a persistence file)", []
            continue
        o = {"out": p["out"], "writes": p["writes"], "pv": p["after"]["pv"]}
        want, ok = gprops.specified_writes(p["before"], o, f, cfg, p["now"])
        if not ok:
            return i, "the writes are not exactly the specified reactions (gateway with a persistence file)", want
    return None


def cut(sc: dict, at) -> dict:
    """The scenario up to and including the phase `at` = [session, step or None]."""
    si, ki = at
    sessions = [dict(s) for s in sc["sessions"][: si + 1]]
    if ki is not None:
        sessions[-1] = {**sessions[-1], "steps": sessions[-1]["steps"][: ki + 1], "end": "normal"}
    return {**sc, "sessions": sessions}


def shrink(sc: dict, what: str, path: str) -> dict:
    """Drop whole sessions, then single steps, then stored nodes, as long as a run still ends in the same verdict."""
    def still(c):
        bad = judge(c, run_scenario(c, path))
        return bad is not None and bad[1] == what

    def candidates(c):
        ss = c["sessions"]
        for i in range(len(ss) - 1):
            rest = [dict(x) for x in ss[:i] + ss[i + 1:]]
            rest[0] = {**rest[0], "object": "new"}
            yield {**c, "sessions": rest}
        for i, x in enumerate(ss):
            for k in range(len(x["steps"])):
                yield {**c, "sessions": ss[:i] + [{**x, "steps": x["steps"][:k] + x["steps"][k + 1:]}] + ss[i + 1:]}
        for k in range(len(c["file"] or [])):
            yield {**c, "file": c["file"][:k] + c["file"][k + 1:], "file_kind": "part of: " + c["file_kind"].replace("part of: ", "")}

    progress, budget = True, 150
    while progress and budget > 0:
        progress = False
        for cand in candidates(sc):
            budget -= 1
            if budget <= 0:
                break
            bad = judge(cand, run_scenario(cand, path))
            if bad is not None and bad[1] == what:
                sc, progress = cut(cand, run_scenario(cand, path)[bad[0]]["at"]), True
                break
    return sc


def run(corr: Corr, ctx) -> None:
    path = os.path.join(lib.scratch(), "c06-quiet.json")
    for sc in scenarios(ctx):
        phases = run_scenario(sc, path)
        restored = any(p.get("registry") for p in phases)
        n_quiet = sum(1 for p in phases if p["phase"] != "received line")
        n_react = sum(1 for p in phases if p["phase"] == "received line" and p["writes"])
        corr.case(("quiet", json.dumps(sc, sort_keys=True)), restored or n_react > 0, None)
        corr.count("sessions with a persistence file: lives")
        corr.count("sessions with a persistence file: file " + sc["file_kind"])
        corr.count("sessions with a persistence file: phases without a received line (write log must stay empty)", n_quiet)
        corr.count("sessions with a persistence file: received lines followed by writes", n_react)
        corr.count("sessions with a persistence file: enters with a restored registry",
                   sum(1 for p in phases if p.get("registry")))
        bad = judge(sc, phases)
        if bad is not None:
            i, what, want = bad
            small = shrink(cut(sc, phases[i]["at"]), what, path)
            phases = run_scenario(small, path)
            i, what, want = judge(small, phases) or bad
            p = phases[i]
            case = {"quiet_sessions": small, "phase": p["phase"], "writes": [w for w, _ in p["writes"]], "want": want}
            if "line" in p:
                case.update(line=p["line"], outcome=p["out"])
            corr.violate(what, case)
            return


def replay(case: dict) -> None:
    sc = case["quiet_sessions"]
    print(f"persistence file ({sc['format']} layout, {sc['file_kind']}): "
          + ("absent" if sc["file"] is None else "[id, type, stored version, sketch, sleeping, heartbeat, children] = " + json.dumps(sc["file"])))
    print(f"metric={sc['metric']}  version set by the application before entering: {sc['preset']!r}")
    phases = run_scenario(sc, os.path.join(lib.scratch(), "c06-quiet-replay.json"))
    last = None
    for p in phases:
        si, ki = p["at"]
        if si != last:
            last = si
            print(f"session {si + 1}: {sc['sessions'][si]['object']} Gateway object, `async with gateway:`")
        if p["phase"] == "received line":
            print(f"   recv {p['line']!r} (version {p['before']['pv']!r}, protocol {p['before']['proto']}) -> {p['out']}"
                  f"\n        writes {[w for w, _ in p['writes']]}")
        else:
            extra = f"  registry {p['registry']} version {p['version']!r}" if "registry" in p else ""
            print(f"   {p['phase']}{extra}\n        writes {[w for w, _ in p['writes']]}")
    bad = judge(sc, phases)
    print("NOT reproduced" if bad is None else f"reproduced at phase {bad[0] + 1}: {bad[1]}" + (f"; specified: {bad[2]}" if bad[2] else ""))
