"""C01 at the gateway boundary, in gateway states where the handlers do more than return.

The property's observation points include "Gateway.listen yield value vs transport line; Gateway.send vs transport
write".  The codec part of run_c01 meets Gateway.listen only on a fresh gateway with a log line.  Here whole histories
are run on one real Gateway per history, for all five versions: nodes present themselves, report values of many payload
kinds, ask for stored values, fall asleep, the controller sends set commands that are held (several keys, several
payload kinds, overwrites), the nodes wake (held commands released), reboot-flagged nodes report, the version is unknown
for a while, unknown nodes talk under 2.x.  The oracle is the property restated at the boundary:

  * every message YIELDED by Gateway.listen for a well-formed transport line has exactly the six field values that line
    spells (plain ints and a str), and when the line's numerals are in plain decimal form, re-encoding the yielded message
    reproduces the line up to trailing whitespace;
  * every text that reaches Transport.write during Gateway.send(m), m well-formed, is 'n;c;cmd;ack;type;payload\\n' of m's
    field values, and send does not fail when the transport does not;
  * every text that reaches Transport.write while a received line is handled (replies, released held commands, version
    and presentation requests) is exactly one newline-terminated line that decodes to a well-formed message and
    re-encodes to itself.

What a handler does besides (which node it registers, which reply it writes, which error it raises) is not C01's and is
not judged here.  The same histories are expressed as operations of the Lean gateway model (`gnew`/`gnode`/`gchild`/`gval`/
`grecv`/`gsend` of Driver.lean) and compared on the codec view: yielded fields or "raised" per received line, written
texts per send call."""

from __future__ import annotations

import asyncio

from .. import gen, gw, lib
from ..gw import Hist
from .codec import Message, cross_ok, impl_dump, ref_accepts, schema_for

PROBE = "0;255;3;0;9;the line after"      # what the transport would deliver next; listen must not reach for it
T0 = gw.DEFAULT_TIME

# payload kinds of C01's domain (no line terminator, no trailing white space), the delimiter kinds first
PAYLOAD_KINDS = [(k, p) for k, p in gen.PAYLOADS if gen.is_c01_payload(p) and len(p) < 100]
VALUE_TYPES = [0, 2, 3, 24, 47, 49]       # V_TEMP, V_STATUS, V_PERCENTAGE, V_VAR1, V_TEXT, V_POSITION
CHILD_IDS = [0, 1, 2, 5, 254]
NODE_POOL = [1, 2, 3, 7, 100, 253, 254]


def R(line: str, now=T0):
    return ("recv", line, (), now)


def S(fields, buffer=True):
    return ("send", tuple(fields), buffer, ())


def wake_lines(rng, n, version):
    """The wake signals a node may send: the heartbeat response (a wake under 2.0 / 2.1, a plain report under 2.2) and the
    pre sleep notification (a wake under 2.2).  Mostly the one the node's library version would send, now and then the
    other one as well (a node built against another library version); 1.x knows neither."""
    hb = f"{n};255;3;0;22;{rng.choice(['500', '0', '7', '86400'])}"
    ps = f"{n};255;3;0;32;{rng.choice(['500', '100', ''])}"
    if version == "2.2":
        out = [ps] + ([hb] if rng.random() < 0.4 else [])
    elif version in ("2.0", "2.1"):
        out = [hb] + ([ps] if rng.random() < 0.15 else [])
    else:
        out = [rng.choice([hb, ps])] if rng.random() < 0.3 else []
    rng.shuffle(out)
    return out


def pay(rng) -> str:
    r = rng.random()
    if r < 0.35:
        return rng.choice(["55.72;12.43;20", "1", "0", "22.5", "on;off", ";", "", "a;b;c;d;e;f;g"])
    if r < 0.85:
        return rng.choice(PAYLOAD_KINDS)[1]
    _, p = gen.payload(rng)
    return p if gen.is_c01_payload(p) else "x"


def life_history(rng, version: str, k: int) -> Hist:
    """The life of two or three nodes on one gateway, phase by phase; every phase is randomised, every line well-formed."""
    known = k % 4 != 3
    h = Hist(version if known else None, rng.random() < 0.7)
    nodes = rng.sample(NODE_POOL, rng.choice([2, 3]))
    children = {n: rng.sample(CHILD_IDS, rng.choice([1, 2, 3])) for n in nodes}
    stored = {}          # (n, c, t) -> True when a value is (about to be) stored
    ops = []
    # some nodes are restored from persistence (possibly sleeping, possibly flagged for a reboot), the others present themselves
    preloaded = [n for n in nodes if rng.random() < 0.5]
    for n in preloaded:
        h.preload.append(("node", n, 17, rng.choice(["2.0", "1.4", "2.2"]), rng.choice(["", "Sk"]), rng.choice(["", "1.0"]),
                          rng.choice([0, 55]), rng.choice([0, 10]), rng.random() < 0.35, rng.random() < 0.5))
        for c in children[n]:
            h.preload.append(("child", n, c, c, rng.choice([6, 3, 38]), rng.choice(["", "child", "a;b"])))
            for t in rng.sample(VALUE_TYPES, rng.choice([0, 1, 2])):
                h.preload.append(("val", n, c, t, pay(rng) or "0"))
                stored[(n, c, t)] = True
    version_line = rng.choice([f"0;255;3;0;2;{version}", f"0;255;0;0;18;{version}", f"0;255;3;0;2;{version}.1"])
    if not known and rng.random() < 0.5:
        ops.append(R(version_line))
    # presentations
    for n in nodes:
        if n in preloaded and rng.random() < 0.7:
            continue
        ops.append(R(f"{n};255;0;0;{rng.choice([17, 18])};{rng.choice(['2.0', '2.2.0', '1.4', version])}"))
        for c in children[n]:
            ops.append(R(f"{n};{c};0;0;{rng.choice([6, 3, 38, 0])};{rng.choice(['', 'Relay', 'Position', 'a;b;c'])}"))
        ops.append(R(f"{n};255;3;0;11;{rng.choice(['Sketch', 'a;b', ''])}"))
        if rng.random() < 0.5:
            ops.append(R(f"{n};255;3;0;12;{rng.choice(['1.0', '2;0'])}"))
    if not known and not any(o[1] == version_line for o in ops):
        ops.insert(rng.randint(0, len(ops)), R(version_line))
    # reports, requests and the node's housekeeping messages
    def node_traffic(n, count):
        out = []
        for _ in range(count):
            c = rng.choice(children[n])
            t = rng.choice(VALUE_TYPES)
            r = rng.random()
            if r < 0.45:
                out.append(R(f"{n};{c};1;{rng.choice([0, 0, 1])};{t};{pay(rng)}"))
                stored[(n, c, t)] = True
            elif r < 0.65:
                keys = [key for key in stored if key[0] == n]
                if keys and rng.random() < 0.7:
                    _, c, t = rng.choice(keys)
                out.append(R(f"{n};{c};2;{rng.choice([0, 0, 1])};{t};"))
            elif r < 0.72:
                out.append(R(f"{n};255;3;0;0;{rng.choice(['57', '100', '0', '99.5'])}"))
            elif r < 0.79:
                out.append(R(f"{n};255;3;{rng.choice([0, 1])};6;{rng.choice(['', '0'])}"))
            elif r < 0.86:
                out.append(R(f"{n};255;3;0;1;", rng.choice(gw.TIMES)))
            elif r < 0.90:
                out.append(R(f"{n};255;3;0;21;{rng.choice(['0', '1'])}"))
            elif r < 0.94:
                out.append(R(f"{n};255;4;0;{rng.choice([0, 1, 2, 3])};{rng.choice(['0A0B', 'fw;1'])}"))
            else:
                out.append(R(f"{n};255;3;0;{rng.choice([4, 5, 7, 8, 10, 13, 15, 16, 17, 18, 19, 20, 23, 24, 25, 26, 27, 28])};{pay(rng)}"))
        return out
    for n in nodes:
        ops += node_traffic(n, rng.randint(1, 4))
    ops.append(R(rng.choice(["0;255;3;0;9;log;with;delimiters", "0;255;3;0;14;Gateway startup complete.", "255;255;3;0;3;",
                             "255;5;3;0;3;"])))
    # the nodes announce that they sleep
    sleepers = [n for n in nodes if rng.random() < 0.8] or [nodes[0]]
    for n in sleepers:
        for line in wake_lines(rng, n, version):
            ops.append(R(line))
    # the controller sends commands: for sleepers (held), for the others (written at once), of several kinds
    held_for = []
    for n in rng.sample(nodes, len(nodes)):
        for _ in range(rng.choice([0, 1, 2, 3, 5]) if n in sleepers else rng.choice([0, 1])):
            c, t = rng.choice(children[n]), rng.choice(VALUE_TYPES)
            ops.append(S((n, c, 1, rng.choice([0, 1]), t, pay(rng)), rng.random() < 0.9))
            held_for.append(n)
            if rng.random() < 0.25:
                ops.append(S((n, c, 1, rng.choice([0, 1]), t, pay(rng)), True))       # a newer value for the same key
        if rng.random() < 0.3:
            ops.append(S(rng.choice([(n, rng.choice(children[n]), 2, 0, rng.choice(VALUE_TYPES), ""), (n, 255, 3, 0, 13, ""),
                                     (n, 255, 3, 0, 19, ""), (n, 255, 3, 0, 18, ""), (n, 255, 4, 0, 1, "fw;0102")]),
                         rng.random() < 0.8))
    # traffic while commands are held: other nodes, the sleeper's own reports and requests (also for a held key), an unknown node
    for n in rng.sample(nodes, len(nodes)):
        ops += node_traffic(n, rng.randint(0, 2))
    stranger = rng.choice([9, 50, 200])
    if rng.random() < 0.6:
        ops.append(R(f"{stranger};{rng.choice([0, 1])};{rng.choice([1, 2])};0;2;{pay(rng)}"))
    # the wakes: whatever is held for the node goes out; the line that was read is what listen must yield
    for n in rng.sample(nodes, len(nodes)):
        for line in wake_lines(rng, n, version):
            ops.append(R(line))
            if rng.random() < 0.3:
                ops += node_traffic(n, 1)
    # afterwards: nothing is left for a second wake; the stranger presents itself and talks again; more commands and wakes
    n = rng.choice(sleepers)
    ops += [R(l) for l in wake_lines(rng, n, version)[:1]]
    if rng.random() < 0.6:
        ops.append(R(f"{stranger};255;0;0;17;2.0"))
        ops.append(R(f"{stranger};1;0;0;6;late"))
        ops.append(R(f"{stranger};1;1;0;2;{pay(rng)}"))
    if rng.random() < 0.5:
        c, t = rng.choice(children[n]), rng.choice(VALUE_TYPES)
        ops.append(S((n, c, 1, 1, t, pay(rng)), True))
        ops += node_traffic(n, 1)
        for line in wake_lines(rng, n, version):
            ops.append(R(line))
    # a little disorder: the phases above overlap in real life
    for _ in range(rng.choice([0, 0, 1, 2, 4])):
        i = rng.randrange(len(ops))
        ops.insert(rng.randrange(len(ops) + 1), ops.pop(i))
    h.ops = ops
    return h


def random_history(rng, version: str, length: int) -> Hist:
    """Random traffic (the gateway engines' generator: every internal kind, malformed lines now and then, sends of all
    commands) over three nodes with frequent sleepers, with C01's payload kinds in reports and commands."""
    h = gw.gen_history(rng, version, length, send_ratio=0.3, fault_ratio=0.0, preload_p=0.75)
    if rng.random() < 0.6:
        # a full registry (every node and child the generator talks about), so that most lines reach their handler's end
        h.preload = []
        for n in gw.NODES:
            h.preload.append(("node", n, 17, rng.choice(["2.0", "1.4", "2.2"]), "", "", rng.choice([0, 55]), 0,
                              rng.random() < 0.25, rng.random() < 0.5))
            for c in gw.CHILDREN:
                h.preload.append(("child", n, c, c, 6, f"child {c}"))
                for t in rng.sample(VALUE_TYPES, rng.choice([0, 1, 2])):
                    h.preload.append(("val", n, c, t, pay(rng)))
    wake_t = 32 if version == "2.2" else 22
    for i, op in enumerate(h.ops):
        r = rng.random()
        if op[0] == "send" and op[1] is not None and op[1][2] == 1 and r < 0.6:
            n, c, cmd, ack, t, _ = op[1]
            h.ops[i] = ("send", (n if n != 9 else rng.choice(gw.NODES), c, cmd, ack, rng.choice(VALUE_TYPES), pay(rng)), op[2], ())
        elif op[0] == "recv" and r < 0.12:
            h.ops[i] = R(f"{rng.choice(gw.NODES)};255;3;0;{wake_t};{rng.choice(['5', '500'])}")
        elif op[0] == "recv" and r < 0.2:
            h.ops[i] = R(f"{rng.choice(gw.NODES)};{rng.choice(gw.CHILDREN)};1;0;{rng.choice(VALUE_TYPES)};{pay(rng)}")
    return h


# ---- running a history on the real gateway -------------------------------------------------------------------------


def _fields(m):
    vals = (m.node_id, m.child_id, m.command, m.ack, m.message_type, m.payload)
    if not all(type(x) is int for x in vals[:5]) or type(vals[5]) is not str:
        return ("badtypes", repr(vals))
    return ("ok", vals)


async def trace(h: Hist, fresh_listener: bool, schemas):
    """Per step of the history: what Gateway.listen yielded (field values, and the yielded message re-encoded by
    MessageSchema.dump) or that it raised; what Gateway.send did; every text handed to Transport.write."""
    from aiomysensors import exceptions as exc
    g, tr = gw.build_gateway(h)
    listener = None
    out = []
    for op in h.ops:
        tr.attempts = []
        tr.faults = list(op[2] if op[0] == "recv" else op[3])
        proto = g.protocol.VERSION
        if op[0] == "recv":
            tr.lines = [op[1], PROBE]
            gw.TIME_STUB.now = tuple(op[3])
            if listener is None or fresh_listener:
                if listener is not None:
                    await listener.aclose()
                listener = g.listen()
            try:
                m = await anext(listener)
                obs = ("yield", _fields(m), impl_dump(schemas[g.protocol.VERSION], m))
            except Exception as e:  # noqa: BLE001
                listener = None      # an async generator that raised is finished
                kind = "invalid" if isinstance(e, exc.InvalidMessageError) else "raised"
                obs = (kind, type(e).__name__, isinstance(e, exc.AIOMySensorsError))
            out.append({"obs": obs, "writes": [w for w, _ in tr.attempts], "proto": proto, "overread": len(tr.lines) < 1})
        else:
            try:
                await g.send(Message(*op[1]) if op[1] is not None else "not a message", message_buffer=op[2])
                obs = ("ok",)
            except Exception as e:  # noqa: BLE001
                obs = ("raised", type(e).__name__)
            out.append({"obs": obs, "writes": [w for w, _ in tr.attempts], "proto": proto, "overread": False})
    if listener is not None:
        await listener.aclose()
    return out


# ---- the oracle: C01 restated at Gateway.listen / Gateway.send / Transport.write ------------------------------------


def canonical(line: str, want) -> bool:
    return ";".join(str(x) for x in want[:5]) == ";".join(line.rstrip().split(";")[:5])


def wf_message(f) -> bool:
    n, c, cmd, ack, t, p = f
    return (0 <= n <= 255 and 0 <= c <= 255 and 0 <= cmd <= 4 and ack in (0, 1) and cross_ok(c, cmd, t)
            and gen.is_c01_payload(p))


def one_line_encoding(text) -> bool:
    """`text` is exactly one newline-terminated line that spells a well-formed message and is that message's encoding."""
    if type(text) is not str or not text.endswith("\n") or text.count("\n") != 1:
        return False
    f = ref_accepts(text[:-1])
    return f is not None and text == "%d;%d;%d;%d;%d;%s\n" % f


def verdict(op, t):
    """What is wrong with one observed step with respect to C01, or None; second component: details for the replay."""
    obs, writes = t["obs"], t["writes"]
    if op[0] == "send":
        f = op[1]
        if f is None or not wf_message(f):
            return None, {}      # not a message of C01's domain (C12)
        expected = "%d;%d;%d;%d;%d;%s\n" % tuple(f)
        for w in writes:
            if w != expected:
                return ("Gateway.send handed the transport something other than the one-line encoding of the message's field values",
                        {"message": list(f), "want_write": expected, "writes": writes})
        if obs[0] != "ok" and not op[3]:
            return ("Gateway.send raised on a well-formed message although the transport did not fail",
                    {"message": list(f), "exc": obs[1]})
        return None, {}
    line = op[1]
    want = ref_accepts(line)
    for w in writes:
        if not one_line_encoding(w):
            return ("a text written to the transport while a received line was handled is not the one-line encoding of a "
                    "well-formed message", {"line": line, "writes": writes})
    if obs[0] != "yield" or want is None:
        return None, {}      # not handled successfully (C03, C04 ...), or not a well-formed line (C02)
    if obs[1] != ("ok", want):
        return ("Gateway.listen yielded a message whose field values are not the ones the transport line spells",
                {"line": line, "want": list(want), "yielded": repr(obs[1]), "overread": t["overread"]})
    if canonical(line, want) and obs[2] != ("ok", line.rstrip() + "\n"):
        return ("re-encoding the message Gateway.listen yielded does not reproduce the transport line",
                {"line": line, "reencoded": repr(obs[2])})
    return None, {}


def first_violation(h: Hist, tr):
    for i, (op, t) in enumerate(zip(h.ops, tr)):
        what, det = verdict(op, t)
        if what is not None:
            return i, what, det
    return None


def shrink(h: Hist, i: int, what: str, fresh: bool, schemas):
    """The shortest history found on which the same verdict shows at the last step: the prefix, then operations and
    preloaded items removed one at a time for as long as the verdict stays."""
    def fails(cand: Hist):
        tr = asyncio.run(trace(cand, fresh, schemas))
        v = verdict(cand.ops[-1], tr[-1])
        return v if v[0] == what and first_violation(cand, tr)[0] == len(cand.ops) - 1 else None
    cur = Hist(h.version, h.metric, list(h.preload), list(h.ops[: i + 1]))
    best = fails(cur)
    if best is None:
        return cur, None
    changed = True
    while changed:
        changed = False
        for j in range(len(cur.ops) - 2, -1, -1):
            cand = Hist(cur.version, cur.metric, list(cur.preload), cur.ops[:j] + cur.ops[j + 1:])
            v = fails(cand)
            if v is not None:
                cur, best, changed = cand, v, True
        for j in range(len(cur.preload) - 1, -1, -1):
            p = cur.preload[j]
            rest = cur.preload[:j] + cur.preload[j + 1:]
            if p[0] == "node":
                rest = [q for q in rest if q[1] != p[1]]
            elif p[0] == "child":
                rest = [q for q in rest if not (q[0] == "val" and q[1] == p[1] and q[2] == p[2])]
            try:
                v = fails(Hist(cur.version, cur.metric, rest, list(cur.ops)))
            except Exception:  # noqa: BLE001
                v = None
            if v is not None:
                cur, best, changed = Hist(cur.version, cur.metric, rest, list(cur.ops)), v, True
                break
    return cur, best


# ---- the Lean gateway model on the codec view -----------------------------------------------------------------------


def model_ops(h: Hist):
    return [l for l in gw.model_lines(h) if l != "gdump"]


def model_view(op, out: str):
    head, _, w = out.partition(" W")
    texts = [lib.dec(x.rsplit(":", 1)[0]) for x in w.split(" ") if x]
    tok = head.split(" ")
    if op[0] == "send":
        return ("send", "ok" if tok[0] == "ok" else "raised", texts)
    if tok[0] == "ok" and len(tok) == 7:
        return ("recv", ("ok", (int(tok[1]), int(tok[2]), int(tok[3]), int(tok[4]), int(tok[5]), lib.dec(tok[6]))))
    return ("recv", "invalid" if head == "err invalidMessage" else "raised")


def impl_view(op, t):
    if op[0] == "send":
        return ("send", "ok" if t["obs"][0] == "ok" else "raised", t["writes"])
    return ("recv", t["obs"][1] if t["obs"][0] == "yield" else t["obs"][0])


# ---- the run ---------------------------------------------------------------------------------------------------------


def corpus_histories():
    return [(c.get("_file", "corpus"), Hist.from_json(c["history"])) for c in lib.load_corpus("C01") if "history" in c]


def run(corr, ctx) -> None:
    rng = lib.rng_for(ctx.seed, "c01-states")
    quick = ctx.tier == "quick"
    hists = [(h, "corpus") for _, h in corpus_histories()]
    for k in range(150 if quick else 3000):
        hists.append((life_history(rng, lib.VERSIONS[k % 5], k // 5), "life"))
    for k in range(150 if quick else 3000):
        hists.append((random_history(rng, lib.VERSIONS[k % 5], rng.randint(8, 40 if quick or k % 10 else 200)), "random"))
    schemas = {v: schema_for(v) for v in lib.VERSIONS}

    def fresh(k):
        return k % 3 == 2       # two histories in three through ONE listen() generator, the third a fresh one per line

    async def run_all():
        return [await trace(h, fresh(k), schemas) for k, (h, _) in enumerate(hists)]

    traces = asyncio.run(run_all())
    for k, ((h, kind), tr) in enumerate(zip(hists, traces)):
        held = 0
        for i, (op, t) in enumerate(zip(h.ops, tr)):
            obs, writes = t["obs"], t["writes"]
            if op[0] == "send":
                is_held = obs[0] == "ok" and not writes
                held += is_held
                corr.count("states:send:" + ("held" if is_held else "written" if obs[0] == "ok" else "raised"))
                corr.case(("states-send", t["proto"], op[1], is_held), is_held,
                          {"version": t["proto"], "via": "Gateway.send", "message": list(op[1] or ()), "held": True} if is_held and k % 7 == 0 else None)
                continue
            want = ref_accepts(op[1])
            busy = obs[0] == "yield" and bool(writes)
            label = ("yielded+wrote" if busy else "yielded") if obs[0] == "yield" else \
                    ("rejected" if obs[0] == "invalid" and want is None else "handler-raised")
            corr.count("states:listen:" + label)
            corr.count(f"states:listen:active-protocol:{t['proto']}")
            if busy:
                f = want or (None,) * 6
                released = sum(1 for w in writes if w.split(";")[2:3] == ["1"]) if f[2] == 3 and f[4] in (22, 32) else 0
                if released:
                    corr.count("states:listen:yielded-at-a-wake-that-released-held-commands")
                    corr.count("states:held-commands-released", released)
                for w in writes:
                    g = ref_accepts(w[:-1]) or (None,) * 6
                    what = ("held command released" if released and g[2] == 1 else
                            "version request (version unknown)" if g[:5] == (0, 255, 3, 0, 2) and f[:5] != g[:5] else
                            "reboot request (node flagged)" if g[2] == 3 and g[4] == 13 else
                            "stored value (reply to a req)" if g[2] == 1 and f[2] == 2 else
                            "reply to an internal request" if g[2] == 3 and f[2] == 3 else "other")
                    corr.count("states:listen:yielded, handler wrote: " + what)
            corr.case(("states-listen", t["proto"], op[1], tuple(writes), h.version is None), busy,
                      {"version": t["proto"], "via": "Gateway.listen", "line": op[1], "writes": writes, "history-kind": kind}
                      if busy and len(writes) > 1 else None)
        corr.count(f"states:histories:{kind}")
        v = first_violation(h, tr)
        if v is not None and len(corr.violations) < 50:
            i, what, det = v
            small, best = shrink(h, i, what, fresh(k), schemas) if len(corr.violations) < 5 else (Hist(h.version, h.metric, h.preload, h.ops[: i + 1]), None)
            if best is not None:
                det = best[1]
            corr.violate(what, {"version": tr[i]["proto"], "via": "Gateway.listen" if h.ops[i][0] == "recv" else "Gateway.send",
                                "step": len(small.ops), **det, "history-kind": kind, "history": small.to_json()})
    if not ctx.model_ok:
        return
    lines, spans = [], []
    for h, _ in hists:
        ml = model_ops(h)
        spans.append((len(lines), len(ml)))
        lines.extend(ml)
    outs = lib.run_model(lines)
    for (h, kind), tr, (a, n) in zip(hists, traces, spans):
        o = outs[a:a + n]
        k0 = 1 + len(h.preload)
        if any(x != "ok" for x in o[:k0]):
            raise lib.ModelError(f"model rejected a setup operation: {o[:k0]}")
        for i, (op, t) in enumerate(zip(h.ops, tr)):
            iv, mv = impl_view(op, t), model_view(op, o[k0 + i])
            if iv != mv:
                corr.disagree("codec view of a gateway history (yielded fields per received line, written texts per send)",
                              {"history": Hist(h.version, h.metric, h.preload, h.ops[: i + 1]).to_json(), "step": i + 1,
                               "impl": repr(iv), "model": repr(mv), "history-kind": kind})
                break
