"""C16: the gateway context and the background saver.  The real `Gateway`/`Persistence` with a real
file, a transport whose connect/disconnect can fail, and control over the saver's progress, vs the Lean
small-step model (`Model/Lifecycle.lean`, driver `DriverLifecycle.lean`) vs the property's oracle.

Control of the saver (deterministic, no threads, no real waiting):
  * `aiomysensors.persistence.aiofiles` is replaced by a small async file layer (`FakeFiles`) that works
    on the real file but whose open/write/close are awaits the harness can hold: a plan says "block the
    saver in save #n at open|write|close, before or after the operation took effect"; the scenario then
    leaves the context exactly there;
  * `aiomysensors.persistence.asyncio` is replaced by a proxy whose `sleep` is a virtual-time sleep
    (`VirtualClock`) and whose `create_task` records the saver task; the harness advances virtual time.
A second group of scenarios runs with the *real* aiofiles (thread pool) and the built-in transport
kinds (TCP over loopback, serial with in-memory streams, MQTT client with an in-memory broker stub).

A third group are *histories*: two to four contexts of the SAME Gateway and transport objects, an earlier one ended
at each fault position (load / connect / body / disconnect / final save fails, cancelled) with the saver anywhere,
the file edited by another tool in between; every clause of the property is judged for every session
(`history_scenarios`, `run_gated(carry=…)`), and the built-in transport kinds are taken through a reconnect loop
(connect fails, the cause goes away, the same objects are entered again: `run_real(retry_after_failed_connect=True)`).

A fourth group leaves the context while the transport holds messages that were received and not read (`run_unread`:
every built-in transport kind with its far end driven by the harness - TCP server, serial peer, broker stub, `_receive`;
the body handles some of a burst, more arrive after its last read; left normally, by an exception of the body or of
`listen()`, by cancellation; the same objects entered again), and the same with an in-memory MQTTTransport subclass at
every saver position it can reach, compared with the model (`gated-mqtt-unread`).

A fifth group has the far end END the connection while the context is open (`harness/props/hangup.py`): half-close,
close, reset, a broken broker connection - after k complete messages, in the middle of one, before any - while the body
reads through `gateway.listen()`; the context is then left in every way.  Both groups ask the far end whether it saw the
connection closed and the process which sockets it still holds (`Wire.sockets_left_open`): the harness keeps a
reference to the streams asyncio hands to the transport, so that a connection is only ever closed by the transport.

Every await of the harness that could block is guarded by a real-time timeout; a hang is a violation.
"""

from __future__ import annotations

import asyncio
import re
import heapq
import json
import os
import socket
import weakref
import stat
import struct
from types import SimpleNamespace
from unittest import mock

from .. import lib
from ..lib import Corr

lib.use_repo()

import aiomysensors.persistence as pers_mod  # noqa: E402
import aiomysensors.transport.mqtt as mqtt_mod  # noqa: E402
from aiomysensors.exceptions import PersistenceReadError, PersistenceWriteError, TransportError  # noqa: E402
from aiomysensors.gateway import Config, Gateway  # noqa: E402
from aiomysensors.model.node import Node, NodeSchema  # noqa: E402
from aiomysensors.persistence import Persistence  # noqa: E402
from aiomysensors.transport import Transport  # noqa: E402
import aiomysensors.transport.serial as serial_mod  # noqa: E402
from aiomysensors.transport.serial import SerialTransport  # noqa: E402
from aiomysensors.transport.tcp import TCPTransport  # noqa: E402

DRIVER = "DriverLifecycle.lean"
GUARD = 3.0          # real seconds: every await of the harness that may block
SLACK = 1.0          # factor on the harness's real-time settle sleeps (raised in confirmation re-runs)
FIFTEEN_MINUTES = 900


class ConnectBoom(Exception):
    pass


class BodyBoom(Exception):
    pass


class DisconnectBoom(Exception):
    pass


def canon(nodes: dict) -> str:
    """The registry as canonical text (the library's own schema dump).  `nodes` is a registry of the REAL gateway: when
    it holds something the schema cannot dump (a string where a number belongs, an entry that is not a Node) the text
    is written attribute by attribute instead - it then equals no file's content, which is for the oracle to judge;
    the harness does not crash on it."""
    try:
        schema = NodeSchema()
        return json.dumps({str(k): schema.dump(v) for k, v in nodes.items()}, sort_keys=True)
    except Exception:  # noqa: BLE001
        def plain(o, depth=0):
            if type(o) is int:
                return lib.num(o)
            if o is None or type(o) in (bool, float, str):
                return o
            if isinstance(o, dict):
                return {lib.safe_repr(k): plain(v, depth + 1) for k, v in o.items()}
            if hasattr(o, "__dict__") and depth < 6:
                return {"<" + type(o).__name__ + ">": {k: plain(v, depth + 1) for k, v in vars(o).items()}}
            return lib.safe_repr(o)
        return json.dumps({"not dumpable by the schema": plain(dict(nodes))}, sort_keys=True, default=lib.safe_repr)


def file_canon(path: str):
    """The registry a file holds, canonical; '' for an empty file; None if unreadable/missing."""
    try:
        with open(path, encoding="utf-8") as f:
            text = f.read()
    except OSError:
        return None
    if text == "":
        return ""
    try:
        data = json.loads(text)
        schema = NodeSchema()
        return canon({n.node_id: n for n in (schema.load(v) for v in data.values())})
    except Exception:  # noqa: BLE001
        return None


def v0_nodes() -> dict:
    n = Node(1, 17, "2.0", sketch_name="Relay", sketch_version="1.0", battery_level=80)
    n.add_child(0, 3, "relay", {2: "1"})
    return {1: n, 7: Node(7, 17, "2.3.2")}


def classify(e: BaseException | None) -> str:
    if e is None:
        return "none"
    if isinstance(e, ConnectBoom):
        return "connectErr"
    if isinstance(e, BodyBoom):
        return "bodyErr"
    if isinstance(e, DisconnectBoom):
        return "disconnectErr"
    if isinstance(e, PersistenceWriteError):
        return "saveErr"
    if isinstance(e, PersistenceReadError):
        return "loadErr"
    if isinstance(e, asyncio.CancelledError):
        return "cancelled"
    if isinstance(e, TimeoutError):
        return "hang"
    if isinstance(e, TransportError):
        return "connectErr"
    return "other:" + type(e).__name__


def expected_outcome(f: dict) -> str:
    """The property's words: the failing step's error propagates (the last failing step wins, as the
    final save runs last and the disconnect after the body).  `cancel` = the body ends because the task
    running the context is cancelled: that CancelledError is then what leaves the context, unless a later
    step fails; it is an alternative to `body` and wins if both are set (the body is parked for the
    cancellation before it would raise), as in the model's `bodyExit`."""
    if f.get("load"):
        return "loadErr"
    if f.get("connect"):
        return "saveErr" if f.get("final") else "connectErr"
    if f.get("final"):
        return "saveErr"
    if f.get("disconnect"):
        return "disconnectErr"
    if f.get("cancel"):
        return "cancelled"
    if f.get("body"):
        return "bodyErr"
    return "none"


def fault_bits(f: dict) -> str:
    """The flags of the driver's `lnew` line: load, connect, body, disconnect, final save, body cancelled."""
    return "".join("1" if f.get(k) else "0" for k in ("load", "connect", "body", "disconnect", "final", "cancel"))


# ---- virtual time ----------------------------------------------------------------------------


class VirtualClock:
    def __init__(self) -> None:
        self.now = 0
        self._timers: list = []
        self._seq = 0

    async def sleep(self, delay, result=None):
        fut = asyncio.get_running_loop().create_future()
        self._seq += 1
        entry = (self.now + delay, self._seq, fut)
        heapq.heappush(self._timers, entry)
        try:
            await fut
        finally:
            if entry in self._timers:
                self._timers.remove(entry)
                heapq.heapify(self._timers)
        return result

    def sleepers(self) -> int:
        return sum(1 for e in self._timers if not e[2].done())

    async def advance_to(self, target, settle) -> None:
        while self._timers and self._timers[0][0] <= target:
            when, _, fut = heapq.heappop(self._timers)
            self.now = max(self.now, when)
            if not fut.done():
                fut.set_result(None)
            await settle()
        self.now = max(self.now, target)


class AsyncioProxy:
    """Stands in for the `asyncio` name inside aiomysensors.persistence."""

    def __init__(self, clock: VirtualClock) -> None:
        self._clock = clock
        self.created: list[asyncio.Task] = []

    def __getattr__(self, name):
        return getattr(asyncio, name)

    def sleep(self, delay, result=None):
        return self._clock.sleep(delay, result)

    def create_task(self, coro, **kw):
        t = asyncio.create_task(coro, **kw)
        self.created.append(t)
        return t


# ---- the gated file layer --------------------------------------------------------------------


class Controller:
    """plan = (save number, 'open'|'write'|'close', lands) or None; faults for the file operations."""

    def __init__(self, clock: VirtualClock, proxy: AsyncioProxy, plan=None, final_save_fails=False,
                 periodic_fails_at: int | None = None) -> None:
        self.clock, self.proxy, self.plan = clock, proxy, plan
        self.final_save_fails = final_save_fails
        self.periodic_fails_at = periodic_fails_at
        self.reached = asyncio.Event()
        self.blocked = False
        self.log: list[tuple] = []          # (who, kind, virtual time)
        self.saver_saves = 0
        self.main_saves_done = 0
        self.handles: list = []

    def who(self) -> str:
        return "saver" if asyncio.current_task() in self.proxy.created else "main"

    async def _block(self):
        self.blocked = True
        self.reached.set()
        try:
            await asyncio.Event().wait()      # until cancelled
        finally:
            self.blocked = False

    async def op(self, kind: str, mode: str, effect):
        who = self.who()
        if who == "saver" and kind == "open" and "w" in mode:
            self.saver_saves += 1
        self.log.append((who, kind + (":w" if "w" in mode else ":r"), self.clock.now))
        if who == "main" and kind == "open" and "w" in mode and self.final_save_fails:
            raise OSError(28, "injected: no space left on device")
        if who == "saver" and kind == "open" and "w" in mode and self.periodic_fails_at == self.saver_saves:
            raise OSError(28, "injected: periodic save fails")
        hit = who == "saver" and self.plan is not None and self.plan[0] == self.saver_saves and self.plan[1] == kind \
            and "w" in mode and not self.reached.is_set()
        if hit and not self.plan[2]:
            await self._block()
        result = effect()
        if hit and self.plan[2]:
            await self._block()
        else:
            await asyncio.sleep(0)            # one suspension point per file operation, like the executor await
        if who == "main" and kind == "close" and "w" in mode:
            self.main_saves_done += 1
        return result


class FakeFile:
    def __init__(self, ctl: Controller, f, mode: str) -> None:
        self._ctl, self._f, self._mode = ctl, f, mode

    async def write(self, data):
        return await self._ctl.op("write", self._mode, lambda: (self._f.write(data), self._f.flush())[0])

    async def read(self):
        return await self._ctl.op("read", self._mode, self._f.read)

    async def close(self):
        return await self._ctl.op("close", self._mode, self._f.close)


class FakeOpen:
    """What `aiofiles.open(...)` returns: awaitable and an async context manager."""

    def __init__(self, ctl: Controller, path, mode: str) -> None:
        self._ctl, self._path, self._mode = ctl, path, mode
        self._file: FakeFile | None = None

    async def _open(self) -> FakeFile:
        def effect():
            f = open(self._path, self._mode, encoding="utf-8")  # noqa: SIM115
            self._ctl.handles.append(f)
            return f
        return FakeFile(self._ctl, await self._ctl.op("open", self._mode, effect), self._mode)

    def __await__(self):
        return self._open().__await__()

    async def __aenter__(self) -> FakeFile:
        self._file = await self._open()
        return self._file

    async def __aexit__(self, *exc) -> None:
        assert self._file is not None
        await self._file.close()


class FakeFiles:
    def __init__(self, ctl: Controller) -> None:
        self._ctl = ctl

    def open(self, path, mode="r", *args, **kwargs):
        return FakeOpen(self._ctl, path, mode)


# ---- transports ------------------------------------------------------------------------------


class FlakyTransport(Transport):
    def __init__(self, *, connect_fails=False, disconnect_fails=False, connect_waits=None, connect_suspends=True,
                 disconnect_suspends=True) -> None:
        self.connect_fails, self.disconnect_fails = connect_fails, disconnect_fails
        self.connect_waits, self.connect_suspends = connect_waits, connect_suspends
        self.disconnect_suspends = disconnect_suspends
        self.calls: list[str] = []

    async def connect(self) -> None:
        self.calls.append("connect")
        if self.connect_suspends:
            await asyncio.sleep(0)
        if self.connect_waits is not None:
            await self.connect_waits()
        if self.connect_fails:
            raise ConnectBoom("connect")

    async def disconnect(self) -> None:
        self.calls.append("disconnect")
        if self.disconnect_suspends:
            await asyncio.sleep(0)
        if self.disconnect_fails:
            raise DisconnectBoom("disconnect")

    async def read(self) -> str:
        await asyncio.Event().wait()
        return ""

    async def write(self, decoded_message: str) -> None:
        pass


# ---- one gated scenario ----------------------------------------------------------------------

# position of the saver when the context is left / when connect fails
#   -> (gate plan, model steps that bring the saver there, virtual time to advance to first)
# The second-save positions use the code's own SAVE_INTERVAL, so that a changed interval is judged by
# the cadence oracle and not by a position that can no longer be reached.
def _interval() -> int:
    i = getattr(pers_mod, "SAVE_INTERVAL", FIFTEEN_MINUTES)
    return int(i) if isinstance(i, (int, float)) and 0 < i < 10**9 else FIFTEEN_MINUTES


def _positions(i: int) -> dict:
    return {
        "not-started": (None, [], None),
        "open-before": ((1, "open", False), ["saver0"], None),
        "open-after": ((1, "open", True), ["saver1"], None),
        "write-before": ((1, "write", False), ["saver0", "saver0"], None),
        "write-after": ((1, "write", True), ["saver1", "saver1"], None),
        "close-before": ((1, "close", False), ["saver0"] * 3, None),
        "close-after": ((1, "close", True), ["saver1"] * 3, None),
        "sleeping": (None, ["saver1"] * 4, 0),
        "sleeping+300": (None, ["saver1"] * 4 + ["tick:300"], 300),
        "save2-open-after": ((2, "open", True), ["saver1"] * 4 + [f"tick:{i}", "saver1"], i),
        "save2-write-before": ((2, "write", False), ["saver1"] * 4 + [f"tick:{i}", "saver0", "saver0"], i),
        "sleeping-after-2": (None, ["saver1"] * 4 + [f"tick:{i}"] + ["saver1"] * 4 + ["tick:450"], i + 450),
    }


POSITIONS = _positions(_interval())


def lands_of(pos: str) -> str:
    plan = POSITIONS[pos][0]
    return "saver1" if plan is None or plan[2] else "saver0"


def cancel_before_first_suspension(pos: str, faults: dict) -> bool:
    """Leaving by cancellation with the saver "not started": a CancelledError can only be delivered to a body
    that is suspended, and the saver task (queued by `create_task` before the body began) gets its first turn
    no later than that.  The earliest possible delivery is a `cancel()` requested before the body's first
    suspension; the saver has then just begun its first save (it is inside `open`) when `stop` cancels it."""
    return bool(faults.get("cancel")) and pos == "not-started" and not faults.get("load") and not faults.get("connect")


def model_schedule(pos: str, faults: dict) -> list[str]:
    if faults.get("load"):
        return ["main"]
    if cancel_before_first_suspension(pos, faults):
        # load, start, connect; the body changes the registry; the saver's first turn (snapshot, submits `open`);
        # the body is cancelled; disconnect; task.cancel(); the saver is cancelled inside `open` (it took effect)
        return ["main", "main", "main", "mutate", "saver1", "main", "main", "main", "saver1", "saver1"] + ["main"] * 5
    steps = ["main", "main"] + POSITIONS[pos][1]
    if faults.get("connect"):
        steps += ["main"]
    else:
        steps += ["main", "mutate", "main", "main"]
    b = lands_of(pos)
    return steps + ["main", b, b] + ["main"] * 5


async def settle(ctl: Controller, clock: VirtualClock, tasks_of) -> None:
    """Let the loop run until the saver is asleep in virtual time, held at a gate, or finished."""
    for _ in range(400):
        await asyncio.sleep(0)
        savers = tasks_of()
        if ctl.blocked or clock.sleepers() or (savers and all(t.done() for t in savers)):
            return


def _dumped(canonical) -> dict:
    """node id -> dumped node, of a canonical registry text ('' / None: nothing)."""
    return json.loads(canonical) if canonical else {}


async def edit_file_between_sessions(path: str, session: int, edit: str) -> None:
    """What happens to the persistence file between two contexts of a history, outside the library:
    'add' = another tool adds a node to what the file holds (an unreadable file is first restored from a backup of
    the initial registry, an empty file stays empty but for the new node); 'none' = the file is left as it is if it
    holds a registry (an empty or unreadable file is treated as under 'add')."""
    held = file_canon(path)
    if edit == "none" and held:
        return
    schema = NodeSchema()
    nodes = v0_nodes() if held is None else {int(k): schema.load(v) for k, v in _dumped(held).items()}
    nodes[200 + session] = Node(200 + session, 17, "2.1", sketch_name=f"added to the file before session {session}")
    await asyncio.wait_for(Persistence(nodes, path).save(), GUARD)


async def run_gated(path: str, pos: str, faults: dict, periodic_fails_at=None, extra_ticks=0, carry: dict | None = None,
                    session: int = 0, edit: str = "add", transport_class=None, traffic=None) -> dict:
    """Runs one scenario (one context statement) on the real Gateway; returns the observation.

    `transport_class`: a transport with FlakyTransport's knobs (default FlakyTransport).  `traffic`: an object whose
    `in_body(gateway, transport)` is awaited in the body once the saver is where the scenario wants it (messages arrive,
    some are read) and whose `cleanup()` is awaited after everything was observed.

    `carry` (histories): a dict that lives as long as the history; the Gateway and transport objects of the first
    session are kept in it and *the same objects* are entered again by every later session.  Each session has its own
    virtual clock, gate plan and fault flags; between sessions the file is edited as `edit` says."""
    v0 = v0_nodes()
    later = bool(carry) and "gateway" in carry
    if faults.get("load"):
        with open(path, "w", encoding="utf-8") as f:
            f.write('{"1": {"node_id": 1, "node_ty')
    elif later:
        await edit_file_between_sessions(path, session, edit)
    else:
        await asyncio.wait_for(Persistence(v0, path).save(), GUARD)
    file0 = file_canon(path) if later else canon(v0)     # what the file holds when the context is entered
    clock = VirtualClock()
    proxy = AsyncioProxy(clock)
    plan = POSITIONS[pos][0]
    ctl = Controller(clock, proxy, plan, final_save_fails=bool(faults.get("final")), periodic_fails_at=periodic_fails_at)
    sleeping_target = POSITIONS[pos][2]

    async def reach() -> None:
        """Wait until the saver is where the scenario wants it."""
        if pos == "not-started":
            return
        if plan is not None and plan[0] == 1:
            await asyncio.wait_for(ctl.reached.wait(), GUARD)
            return
        await asyncio.wait_for(settle(ctl, clock, lambda: proxy.created), GUARD)     # first save done, asleep
        if sleeping_target:
            await asyncio.wait_for(clock.advance_to(sleeping_target, lambda: settle(ctl, clock, lambda: proxy.created)), GUARD)
        if plan is not None:
            await asyncio.wait_for(ctl.reached.wait(), GUARD)

    behaviour = dict(connect_fails=bool(faults.get("connect")), disconnect_fails=bool(faults.get("disconnect")),
                     connect_waits=reach if faults.get("connect") else None,
                     connect_suspends=pos != "not-started", disconnect_suspends=pos != "not-started")
    if later:
        transport = carry["transport"]          # the same transport object; what it does this time is set anew
        for k, v in behaviour.items():
            setattr(transport, k, v)
        transport.calls = []
    else:
        transport = (transport_class or FlakyTransport)(**behaviour)
    obs: dict = {"entered": False, "loaded_ok": None}
    body_parked = asyncio.Event()
    self_cancel = cancel_before_first_suspension(pos, faults)
    before = asyncio.all_tasks()
    exc: BaseException | None = None
    gateway = None
    reg_at_exit = None
    with mock.patch.object(pers_mod, "aiofiles", FakeFiles(ctl)), mock.patch.object(pers_mod, "asyncio", proxy):
        gateway = carry["gateway"] if later else Gateway(transport, Config(persistence_file=path))
        if carry is not None:
            carry["gateway"], carry["transport"] = gateway, transport

        reg_at_entry: list = []

        def holds_the_file() -> bool:
            """Every node the file held at entry is in the registry as the file had it."""
            now = _dumped(canon(gateway.nodes))
            return all(now.get(k) == v for k, v in _dumped(file0).items())

        async def context():
            nonlocal reg_at_exit
            try:
                async with gateway:
                    obs["entered"] = True
                    obs["loaded_ok"] = holds_the_file() if later else canon(gateway.nodes) == canon(v0)
                    reg_at_entry.append(canon(gateway.nodes))
                    await reach()
                    if extra_ticks:
                        await clock.advance_to(clock.now + extra_ticks, lambda: settle(ctl, clock, lambda: proxy.created))
                    if traffic is not None:
                        await traffic.in_body(gateway, transport)
                    if session:
                        gateway.nodes[42 + session] = Node(42 + session, 17, "2.0", sketch_name=f"added in the body of session {session}")
                    else:
                        gateway.nodes[42] = Node(42, 17, "2.0", sketch_name="added in the body")
                    obs["mutated"] = True
                    reg_at_exit = canon(gateway.nodes)
                    if faults.get("cancel"):
                        body_parked.set()
                        if self_cancel:
                            asyncio.current_task().cancel()     # delivered at the body's first suspension, just below
                        await asyncio.Event().wait()     # the task running the context is cancelled here
                    if faults.get("body"):
                        raise BodyBoom("body")
            finally:
                if reg_at_exit is None:
                    reg_at_exit = canon(gateway.nodes)

        try:
            if faults.get("cancel"):
                # leaving the context through cancellation of the task that runs it (asyncio.timeout, Ctrl-C, ...)
                # (with a failing load/connect the body is never reached and the statement ends by itself)
                task = asyncio.ensure_future(context())
                parked = asyncio.ensure_future(body_parked.wait())
                await asyncio.wait_for(asyncio.shield(asyncio.wait([task, parked], return_when=asyncio.FIRST_COMPLETED)), GUARD)
                parked.cancel()
                if not body_parked.is_set() and not task.done():
                    raise TimeoutError
                if not task.done() and not self_cancel:
                    task.cancel()
                await asyncio.wait_for(asyncio.shield(asyncio.wait([task])), GUARD)
                if not task.done():
                    raise TimeoutError
                if task.cancelled():
                    raise asyncio.CancelledError
                if task.exception() is not None:
                    raise task.exception()
            else:
                await asyncio.wait_for(context(), GUARD)
        except BaseException as e:  # noqa: BLE001
            exc = e
        for _ in range(3):
            await asyncio.sleep(0)
        leftovers = [t for t in asyncio.all_tasks() - before if t is not asyncio.current_task() and not t.done()]
        obs["leftover_tasks"] = len(leftovers)
        obs["saver_alive"] = any(not t.done() for t in proxy.created)
        for t in leftovers:
            t.cancel()
        if leftovers:
            await asyncio.wait(leftovers, timeout=GUARD)
        if traffic is not None:
            await traffic.cleanup()
    for h in ctl.handles:
        try:
            h.close()
        except Exception:  # noqa: BLE001
            pass
    content = file_canon(path)
    if later:
        # the model numbers registry versions: 0 = as loaded at entry, 1 = after the body's change.  The registry of a
        # reused Gateway may hold more than the file did at entry (load adds to what an earlier context left in it), so
        # "holds the registry as of exit" is version 1 if the body changed it and version 0 if not; "holds the registry
        # as it was when the body began" and "holds what it held at entry" are version 0
        label = "truncated" if content == "" else "unreadable" if content is None \
            else ("holds:1" if obs.get("mutated") else "holds:0") if content == reg_at_exit \
            else "holds:0" if content == file0 or content in reg_at_entry else "other"
    else:
        label = "truncated" if content == "" else "holds:0" if content == canon(v0) else "holds:1" if content == reg_at_exit \
            else "unreadable" if content is None else "other"
    obs.update({
        "outcome": classify(exc), "error": None if exc is None else f"{type(exc).__name__}: {exc}"[:200],
        "disconnect_called": "disconnect" in transport.calls, "connect_called": "connect" in transport.calls,
        "started": bool(proxy.created), "saver_saves": ctl.saver_saves, "final_save_done": ctl.main_saves_done > 0,
        "file": label,
        "file_is_registry_at_exit": content == reg_at_exit,
        "starts": [t for who, kind, t in ctl.log if who == "saver" and kind == "open:w"],
        "vnow": clock.now,
        "calls": list(transport.calls),
        "registry_holds_file_as_of_entry": file0 is not None and holds_the_file(),
        "session": session,
    })
    return obs


def oracle(corr: Corr, what: str, case: dict, obs: dict, faults: dict, pos: str | None = None) -> bool:
    """C16 restated over one observed run (one context statement).  With `pos` (gated scenarios: the saver's
    position is known and the file layer counts the saves) the clauses about entry are judged as well."""
    bad = []
    if pos is not None and obs["entered"]:
        # "entering the gateway context loads the file, saves the registry once entered and then at least every 15
        # minutes; leaving the context ... disconnects the transport, writes the final registry to the file"
        if not obs["connect_called"]:
            bad.append("entered but the transport was never asked to connect")
        if pos != "not-started" and obs["outcome"] != "hang":
            need = obs["vnow"] // FIFTEEN_MINUTES + 1
            if len(obs["starts"]) < need:
                bad.append(f"{len(obs['starts'])} save(s) started in the {obs['vnow']} s after entry, at least {need} required")
        if not faults.get("final") and not obs["started"]:
            if not obs["file_is_registry_at_exit"]:
                bad.append(f"the file does not hold the registry as of exit (file: {obs['file']})")
            if not obs["final_save_done"]:
                bad.append("no final save was performed")
    if obs["outcome"] == "hang":
        bad.append("the context statement did not complete (timeout)")
    if obs["outcome"] == "cancelled" and not faults.get("cancel"):
        bad.append("CancelledError propagated out of the context")
    if obs["leftover_tasks"] or obs.get("saver_alive"):
        bad.append(f"{obs['leftover_tasks']} background task(s) left running")
    if obs["entered"] and not obs["disconnect_called"]:
        bad.append("entered but disconnect was never attempted")
    if obs["entered"] and obs.get("sockets_left_open"):
        bad.append("the context was left but the transport still holds its connection open (not disconnected): "
                   + ", ".join(obs["sockets_left_open"]))
    want = expected_outcome(faults)     # with `cancel`: the cancellation, unless a later step fails
    if obs["outcome"] != want and obs["outcome"] not in (("hang",) if faults.get("cancel") else ("hang", "cancelled")):
        bad.append(f"propagated {obs['outcome']} ({obs['error']}), expected {want}")
    if obs["started"] and not faults.get("final") and not obs["file_is_registry_at_exit"]:
        bad.append(f"the file does not hold the registry as of exit (file: {obs['file']})")
    if obs["started"] and not faults.get("final") and not obs["final_save_done"]:
        bad.append("no final save was performed")
    if obs["entered"] and obs["loaded_ok"] is False:
        bad.append("the registry was not loaded from the file on entry")
    if faults.get("load") and (obs["started"] or obs["connect_called"]):
        bad.append("load failed but the saver was started / the transport connected")
    if faults.get("connect") and obs["entered"]:
        bad.append("connect failed but the body ran")
    if bad:
        corr.violate(what + ": " + "; ".join(bad), {**case, "observed": obs})
    return not bad


def parse_model(line: str) -> dict:
    return dict(tok.split("=", 1) for tok in line.split(" ") if "=" in tok)


def compare_model(corr: Corr, case: dict, obs: dict, m: dict) -> None:
    diffs = []
    pairs = [("outcome", obs["outcome"], m.get("outcome")),
             ("saver alive", "1" if obs["saver_alive"] else "0", m.get("alive")),
             ("entered", "1" if obs["entered"] else "0", m.get("entered")),
             ("disconnect attempted", "1" if obs["disconnect_called"] else "0", m.get("disc")),
             ("final save done", "1" if obs["final_save_done"] else "0", m.get("final")),
             ("started", "1" if obs["started"] else "0", m.get("started")),
             ("file", obs["file"] if obs["outcome"] != "loadErr" else m.get("file"), m.get("file")),
             ("save starts", ",".join(str(t) for t in obs["starts"]), m.get("starts")),
             ("main finished", "finished", m.get("main"))]
    if "sessions" in case:
        # a session of a history: did the registry take in what the file held when the context was entered?
        pairs.append(("file loaded into the registry", "1" if obs["registry_holds_file_as_of_entry"] else "0", m.get("loaded")))
    for name, a, b in pairs:
        if a != b:
            diffs.append(f"{name}: implementation {a!r}, model {b!r}")
    if diffs:
        corr.disagree("lifecycle observation differs from the model: " + "; ".join(diffs), {**case, "observed": obs, "model": m})


# ---- histories: several contexts of the SAME Gateway object ------------------------------------

# how an earlier context of the history ended (every fault position of the property, alone and combined)
EARLIER_ENDINGS = [
    {"connect": True}, {"load": True}, {"body": True}, {"disconnect": True}, {"final": True}, {"cancel": True},
    {"connect": True, "final": True}, {"body": True, "disconnect": True, "final": True}, {"cancel": True, "disconnect": True},
    {},
]


def history_scenarios(rng, tier: str) -> list[tuple[list[tuple[str, dict, str]], str]]:
    """Histories = lists of sessions (saver position at exit, faults of that session, what happens to the file before
    the session).  Systematic part: every way an earlier context can end x where the saver was then, followed by a
    context that has to be in order again, the later context's exit placed at every saver position in turn; failure
    after failure; then random histories of 2-4 sessions."""
    positions = list(POSITIONS)
    out = []
    turn = 0
    for first_pos in ("sleeping", "not-started", "write-before"):
        for ending in EARLIER_ENDINGS:
            later_pos = positions[turn % len(positions)]
            turn += 1
            out.append(([(first_pos, dict(ending), "add"), (later_pos, {}, "add" if turn % 4 else "none")], "history-grid"))
    # the retry itself fails once more (in the same and in another way), and the third context must be in order
    for k, ending in enumerate(EARLIER_ENDINGS[:-1]):
        other = EARLIER_ENDINGS[(k + 3) % (len(EARLIER_ENDINGS) - 1)]
        second = ending if k % 2 == 0 else other
        out.append(([("sleeping+300", dict(ending), "add"), (positions[(k + 5) % len(positions)], dict(second), "add"),
                     (positions[(k + 7) % len(positions)], {"body": k % 3 == 0}, "add")], "history-grid"))
    # the later context ends with a fault of its own after an earlier failed entry
    for k, ending in enumerate(({"connect": True}, {"load": True})):
        for later in ({"body": True}, {"disconnect": True}, {"cancel": True}, {"final": True}, {"connect": True}):
            out.append(([("sleeping", dict(ending), "add"), (positions[(turn + k) % len(positions)], dict(later), "add")], "history-grid"))
            turn += 1
    for _ in range(12 if tier == "quick" else 150):
        sessions = []
        for _k in range(rng.randint(2, 4)):
            r = rng.random()
            if r < 0.2:
                f = {"connect": True, "final": rng.random() < 0.3}
            elif r < 0.3:
                f = {"load": True}
            else:
                f = {k: rng.random() < 0.3 for k in ("body", "disconnect", "final", "cancel")}
            sessions.append((rng.choice(positions), {k: v for k, v in f.items() if v}, "none" if rng.random() < 0.25 else "add"))
        out.append((sessions, "history-random"))
    return out


def session_view(pos: str, faults: dict, edit: str, obs: dict | None) -> dict:
    d = {"position": pos, "faults": faults, "file_before": edit}
    if obs is not None:
        d["outcome"] = obs["outcome"]
    return d


# ---- cadence ---------------------------------------------------------------------------------


async def run_cadence(path: str, stretches: list[int]) -> dict:
    v0 = v0_nodes()
    await asyncio.wait_for(Persistence(v0, path).save(), GUARD)
    clock = VirtualClock()
    proxy = AsyncioProxy(clock)
    ctl = Controller(clock, proxy)
    transport = FlakyTransport()
    rows = []
    exc = None
    before = asyncio.all_tasks()
    with mock.patch.object(pers_mod, "aiofiles", FakeFiles(ctl)), mock.patch.object(pers_mod, "asyncio", proxy):
        gateway = Gateway(transport, Config(persistence_file=path))

        async def quiet():
            await settle(ctl, clock, lambda: proxy.created)

        async def context():
            async with gateway:
                await quiet()
                for i, T in enumerate(stretches):
                    await clock.advance_to(T, quiet)
                    starts = [t for who, kind, t in ctl.log if who == "saver" and kind == "open:w"]
                    # what the last periodic save must have written: every change made strictly before it began
                    expect = {k: n for k, n in gateway.nodes.items()
                              if k < 100 or stretches[k - 100] < starts[-1]} if starts else None
                    fresh = expect is not None and file_canon(path) == canon(expect)
                    rows.append({"T": T, "starts_within": sum(1 for t in starts if t <= T), "starts": list(starts),
                                 "file_current": fresh, "sleepers": clock.sleepers()})
                    gateway.nodes[100 + i] = Node(100 + i, 17, "2.0")     # changed after the check: next save must pick it up
        try:
            await asyncio.wait_for(context(), 4 * GUARD)
        except BaseException as e:  # noqa: BLE001
            exc = e
        for _ in range(3):
            await asyncio.sleep(0)
        leftovers = [t for t in asyncio.all_tasks() - before if t is not asyncio.current_task() and not t.done()]
        for t in leftovers:
            t.cancel()
        if leftovers:
            await asyncio.wait(leftovers, timeout=GUARD)
    for h in ctl.handles:
        try:
            h.close()
        except Exception:  # noqa: BLE001
            pass
    return {"rows": rows, "outcome": classify(exc), "error": None if exc is None else repr(exc)[:200],
            "leftover_tasks": len(leftovers), "final_file_ok": file_canon(path) == canon(gateway.nodes)}


def cadence_schedule(stretches: list[int], interval: int) -> list[list[str]]:
    """Model choices that mirror `advance_to(T)` for each T: wake the saver at every due time on the way."""
    out = []
    now, wake = 0, interval
    for T in stretches:
        steps = []
        while wake <= T:
            steps += [f"tick:{wake - now}"] + ["saver1"] * 4
            now, wake = wake, wake + interval
        if T > now:
            steps.append(f"tick:{T - now}")
            now = T
        out.append(steps or ["tick:0"])
    return out


# ---- real aiofiles, built-in transports ------------------------------------------------------


class LoopbackSerial(SerialTransport):
    """SerialTransport with the serial port replaced by an in-memory socket pair.  The replacement happens at the seam
    the library's own tests use — the module-level `open_serial_connection` of transport/serial.py — and not in a
    private hook of the class: every instance has its own port name, and `_loopback_open` (installed below in place of
    `serial_mod.open_serial_connection`) opens the socket pair of the instance the port name belongs to."""

    instances = weakref.WeakValueDictionary()     # port name -> live instance
    created = 0

    def __init__(self, fail: bool, on_open=None) -> None:
        port = f"/dev/null-verif{LoopbackSerial.created or ''}"
        LoopbackSerial.created += 1
        super().__init__(port)
        LoopbackSerial.instances[port] = self
        self._fail = fail
        self._on_open = on_open
        self.peer = None

    async def _loopback(self):
        if self._fail:
            raise OSError(2, "could not open port /dev/null-verif")
        a, b = socket.socketpair()
        self.peer = b
        if self._on_open is not None:
            self._on_open(b)
        return await asyncio.open_connection(sock=a)


_real_open_serial_connection = serial_mod.open_serial_connection


async def _loopback_open(*args, **kwargs):
    url = kwargs.get("url", args[0] if args else None)
    inst = LoopbackSerial.instances.get(url)
    if inst is None:
        return await _real_open_serial_connection(*args, **kwargs)
    return await inst._loopback()  # noqa: SLF001


serial_mod.open_serial_connection = _loopback_open     # the harness process only


class FakeMqttMessages:
    """`client.messages`: an async iterator over what the broker delivers.  The harness puts messages (objects with
    `.topic.value` and `.payload`), or an exception the iteration is to raise, into `inbox`; while there is nothing the
    iteration waits, as a quiet broker does."""

    def __init__(self) -> None:
        self.inbox: asyncio.Queue = asyncio.Queue()

    def __aiter__(self):
        return self

    async def __anext__(self):
        item = await self.inbox.get()
        if isinstance(item, BaseException):
            raise item
        return item


class FakeMqttClient:
    """Stands in for aiomqtt.Client inside aiomysensors.transport.mqtt."""

    fail_connect = False
    fail_subscribe_at = None
    instances: list = []

    def __init__(self, *a, **k) -> None:
        self.messages = FakeMqttMessages()
        self.subscribed: list[str] = []
        self.entered = self.exited = False
        FakeMqttClient.instances.append(self)

    async def __aenter__(self):
        await asyncio.sleep(0)
        if FakeMqttClient.fail_connect:
            raise mqtt_mod.MqttError("injected: connection refused")
        self.entered = True
        return self

    async def __aexit__(self, *exc):
        await asyncio.sleep(0)
        self.exited = True

    async def subscribe(self, topic, qos=0, timeout=10):
        await asyncio.sleep(0)
        if FakeMqttClient.fail_subscribe_at is not None and len(self.subscribed) == FakeMqttClient.fail_subscribe_at:
            raise mqtt_mod.MqttError("injected: subscribe failed")
        self.subscribed.append(topic)

    async def publish(self, topic, **kw):
        await asyncio.sleep(0)


class MemoryMqtt(mqtt_mod.MQTTTransport):
    """The abstract MQTT transport with in-memory hooks."""

    def __init__(self, fail: bool) -> None:
        super().__init__()
        self.fail = fail
        self.events: list[str] = []

    async def _connect(self) -> None:
        await asyncio.sleep(0)
        if self.fail:
            raise TransportError("injected")
        self.events.append("connect")

    async def _disconnect(self) -> None:
        await asyncio.sleep(0)
        self.events.append("disconnect")

    async def _publish(self, topic, payload, qos) -> None:
        pass

    async def _subscribe(self, topic, qos) -> None:
        await asyncio.sleep(0)
        self.events.append("subscribe")


async def run_real(path: str, kind: str, fail_connect: bool, wait_first_save: bool, body_raises: bool = False,
                   subscribe_fails: bool = False, sessions: int = 1, retry_after_failed_connect: bool = False) -> dict:
    """The lifecycle with the real aiofiles thread pool and a built-in transport kind (offline).

    `retry_after_failed_connect`: a reconnect loop.  The first context fails to connect (`fail_connect`), what it left
    behind is recorded under `failed_entry`; the cause is removed (server up again, port present, broker reachable),
    another tool adds a node to the file, and `sessions` further contexts are entered on the SAME Gateway and transport
    objects; the returned observation is that of the last one."""
    v0 = v0_nodes()
    await asyncio.wait_for(Persistence(v0, path).save(), GUARD)
    server = None
    disconnected = {"v": None}
    FakeMqttClient.fail_connect = fail_connect and kind == "mqtt-client"
    FakeMqttClient.fail_subscribe_at = 2 if subscribe_fails else None
    FakeMqttClient.instances = []
    patches = []
    if kind == "tcp":
        async def on_client(reader, writer):
            try:
                await reader.read()
            finally:
                writer.close()
        server = await asyncio.start_server(on_client, "127.0.0.1", 0)
        port = server.sockets[0].getsockname()[1]
        if fail_connect:
            server.close()
            await server.wait_closed()
            server = None
        transport = TCPTransport("127.0.0.1", port)
    elif kind == "serial":
        transport = LoopbackSerial(fail_connect)
    elif kind == "mqtt-client":
        patches.append(mock.patch.object(mqtt_mod, "AsyncioClient", FakeMqttClient))
        transport = mqtt_mod.MQTTClient("broker.invalid")
    elif kind == "mqtt-abstract":
        transport = MemoryMqtt(fail_connect)
    else:
        transport = FlakyTransport(connect_fails=fail_connect)
    orig_disconnect = transport.disconnect

    async def spy_disconnect():
        disconnected["v"] = "called"
        return await orig_disconnect()
    transport.disconnect = spy_disconnect  # type: ignore[method-assign]
    orig_connect = transport.connect
    connect_raised: list = []

    async def spy_connect():
        try:
            result = await orig_connect()
        except BaseException as e:
            connect_raised.append(e)
            raise
        connect_raised.append(None)
        return result
    transport.connect = spy_connect  # type: ignore[method-assign]
    for p in patches:
        p.start()
    before = asyncio.all_tasks()
    exc = None
    obs: dict = {"entered": False}
    gateway = Gateway(transport, Config(persistence_file=path))
    reg_at_exit = None
    file_before_retry = None
    try:
        async def context(session: int):
            nonlocal reg_at_exit
            reg_at_exit = None
            try:
                async with gateway:
                    obs["entered"] = True
                    if session == 0 and file_before_retry is None:
                        obs["loaded_ok"] = canon(gateway.nodes) == canon(v0)
                    elif session == 0:
                        now = _dumped(canon(gateway.nodes))
                        obs["loaded_ok"] = all(now.get(k) == v for k, v in _dumped(file_before_retry).items())
                    if wait_first_save:
                        await asyncio.sleep(0.03 * SLACK)
                    gateway.nodes[42 + session] = Node(42 + session, 17, "2.0")
                    reg_at_exit = canon(gateway.nodes)
                    if body_raises and session == sessions - 1:
                        raise BodyBoom("body")
            finally:
                if reg_at_exit is None:
                    reg_at_exit = canon(gateway.nodes)
        if retry_after_failed_connect:
            first = None
            try:
                await asyncio.wait_for(context(-1), GUARD)
            except BaseException as e:  # noqa: BLE001
                first = e
            await asyncio.sleep(0.02 * SLACK)
            left = [t for t in asyncio.all_tasks() - before if t is not asyncio.current_task() and not t.done()]
            left_names = sorted({getattr(t.get_coro(), "__qualname__", "?") for t in left})
            obs["failed_entry"] = {"outcome": classify(first), "entered": obs["entered"],
                                   "leftover_names": [n for n in left_names if "on_client" not in n and "StreamReaderProtocol" not in n],
                                   "file_is_registry": file_canon(path) == canon(gateway.nodes)}
            # the cause of the failure goes away
            if kind == "tcp":
                server = await asyncio.start_server(on_client, "127.0.0.1", port)
            elif kind == "serial":
                transport._fail = False                # noqa: SLF001
            elif kind == "mqtt-client":
                FakeMqttClient.fail_connect = False
            elif kind == "mqtt-abstract":
                transport.fail = False
            else:
                transport.connect_fails = False
            await edit_file_between_sessions(path, 1, "add")
            file_before_retry = file_canon(path)
            disconnected["v"] = None
        try:
            # the same Gateway / transport objects entered again after they were left (a reconnect)
            for session in range(sessions):
                obs["sessions_entered"] = session + 1
                await asyncio.wait_for(context(session), GUARD)
        except BaseException as e:  # noqa: BLE001
            exc = e
        await asyncio.sleep(0.02 * SLACK)      # let executor callbacks and closed sockets settle
        leftovers = [t for t in asyncio.all_tasks() - before if t is not asyncio.current_task() and not t.done()]
        names = sorted({getattr(t.get_coro(), "__qualname__", "?") for t in leftovers})
        names = [n for n in names if "on_client" not in n and "StreamReaderProtocol" not in n]
        leftovers_real = [t for t in leftovers if getattr(t.get_coro(), "__qualname__", "?") in names]
        for t in leftovers:
            t.cancel()
        if leftovers:
            await asyncio.wait(leftovers, timeout=GUARD)
    finally:
        for p in patches:
            p.stop()
        if server is not None:
            server.close()
            await server.wait_closed()
        if isinstance(transport, LoopbackSerial) and transport.peer is not None:
            transport.peer.close()
    content = file_canon(path)
    obs.update({"outcome": classify(exc), "error": None if exc is None else f"{type(exc).__name__}: {exc}"[:200],
                "leftover_tasks": len(leftovers_real), "leftover_names": names, "saver_alive": False,
                "raised_by_transport_connect": exc is not None and bool(connect_raised) and connect_raised[-1] is exc,
                "disconnect_called": disconnected["v"] == "called", "connect_called": True,
                "started": True, "final_save_done": content == reg_at_exit,
                "file_is_registry_at_exit": content == reg_at_exit,
                "file": "truncated" if content == "" else "holds:1" if content == reg_at_exit else "other"})
    obs.setdefault("loaded_ok", None)
    return obs


# ---- traffic: messages that were received but not read when the context is left ---------------------
#
# "leaving the context - normally or through an exception ... - disconnects the transport, writes the final registry
# to the file and leaves no background task running", for "all built-in transport kinds": whatever the transport
# has received and nobody has read (the body of the context is the only reader, and it is gone when the context is
# left) must not keep the exit from completing.


def presentation_line(node_id: int) -> str:
    return f"{node_id};255;0;0;17;2.0"


INVALID_LINE = "x;y;z;q;w;p"           # six fields, none of them a number: listen() raises InvalidMessageError
PARTIAL_BYTES = b"77;255;0;0"          # the beginning of a line whose end has not arrived (stream kinds)
TRAFFIC_KINDS = ("tcp", "serial", "mqtt-client", "mqtt-abstract")
MQTT_KINDS = ("mqtt-client", "mqtt-abstract")


async def _until(cond, limit: float = 1.0) -> bool:
    loop = asyncio.get_running_loop()
    end = loop.time() + limit
    while not cond():
        if loop.time() > end:
            return False
        await asyncio.sleep(0.002)
    return True


def socket_inodes() -> dict[int, int] | None:
    """inode -> file descriptor of every socket this process holds open (None where /proc is not available)."""
    try:
        names = os.listdir("/proc/self/fd")
    except OSError:
        return None
    out: dict[int, int] = {}
    for name in names:
        try:
            st = os.fstat(int(name))
        except (OSError, ValueError):
            continue
        if stat.S_ISSOCK(st.st_mode):
            out[st.st_ino] = int(name)
    return out


def describe_socket(fd: int) -> str:
    """A socket of this process in words (for a report): family, both addresses."""
    try:
        s = socket.socket(fileno=os.dup(fd))
    except OSError as e:
        return f"fd {fd} ({e})"
    try:
        def addr(get):
            try:
                a = get()
            except OSError:
                return "-"
            return ":".join(str(x) for x in a[:2]) if isinstance(a, tuple) else (a.decode(errors="replace") if isinstance(a, bytes) else str(a)) or "unnamed"
        return f"open {s.family.name} socket {addr(s.getsockname)} -> {addr(s.getpeername)}"
    finally:
        s.close()


class Wire:
    """One built-in transport kind, offline, with the far end (the MySensors gateway on the wire / the broker) in the
    harness's hands: it delivers messages to the transport and tells whether the transport was really disconnected.

    Items delivered: ("msg", node id) a node presentation; ("invalid",) a line the decoder refuses; ("partial",) the
    beginning of a line (stream kinds; nothing for MQTT); ("recv-error",) receiving fails (MQTT kinds: the broker
    connection breaks / the documented `_receive_error`)."""

    def __init__(self, kind: str) -> None:
        self.kind = kind
        self.transport = None
        self.server = None
        self.peer_writers: list = []
        self.peer_done = 0                # tcp: connections the far end saw closed (EOF or reset)
        self.peers: list = []             # serial: far ends of the socket pairs
        self.patch = None
        self.baseline: dict | None = None  # the sockets this process held before the transport existed
        self.reported: set = set()
        self.streams: list = []           # stream kinds: every (reader, writer) pair the transport was given by asyncio
        self.patches: list = []

    async def open(self):
        kind = self.kind
        self.baseline = socket_inodes()
        if kind in ("tcp", "serial"):
            # The harness keeps a reference to the streams asyncio hands to the transport, as an application may
            # (`transport.writer` is a public attribute): whether a connection is closed is then the transport's doing
            # alone - a stream nobody refers to any more is closed by the interpreter's finaliser (ResourceWarning
            # "unclosed StreamWriter"), which is not "the context disconnects the transport".
            real_open = asyncio.open_connection
            wire_ = self

            async def recording_open_connection(*a, **k):
                pair = await real_open(*a, **k)
                wire_.streams.append(pair)
                return pair
            self.patches.append(mock.patch.object(asyncio, "open_connection", recording_open_connection))
            self.patches[-1].start()
        if kind == "tcp":
            self.server = await asyncio.start_server(self._on_client, "127.0.0.1", 0)
            self.transport = TCPTransport("127.0.0.1", self.server.sockets[0].getsockname()[1])
        elif kind == "serial":
            wire = self

            self.transport = LoopbackSerial(False, on_open=wire.peers.append)
        elif kind == "mqtt-client":
            FakeMqttClient.fail_connect = False
            FakeMqttClient.fail_subscribe_at = None
            FakeMqttClient.instances = []
            self.patch = mock.patch.object(mqtt_mod, "AsyncioClient", FakeMqttClient)
            self.patch.start()
            self.transport = mqtt_mod.MQTTClient("broker.invalid")
        elif kind == "mqtt-abstract":
            self.transport = MemoryMqtt(False)
        else:
            raise ValueError(kind)
        return self.transport

    async def _on_client(self, reader, writer) -> None:
        self.peer_writers.append(writer)
        try:
            await reader.read()           # until the client closes (a close with unread data arrives as a reset)
        except OSError:
            pass
        finally:
            self.peer_done += 1
            writer.close()

    def _buffered(self) -> int | None:
        buf = getattr(getattr(self.transport, "reader", None), "_buffer", None)
        return len(buf) if buf is not None else None

    def unread(self) -> int | None:
        """What the transport holds received and unread, as far as the harness can see it (messages for the MQTT kinds,
        bytes for the stream kinds); informational."""
        if self.kind in ("tcp", "serial"):
            return self._buffered()
        q = getattr(self.transport, "_incoming_messages", None)
        return q.qsize() if hasattr(q, "qsize") else None

    async def deliver(self, items: list[tuple], transport=None) -> None:
        """The far end sends; returns when the transport has received it (it sits in the transport, unread)."""
        if not items:
            return
        t = self.transport
        if self.kind in ("tcp", "serial"):
            data = b"".join(PARTIAL_BYTES if it[0] == "partial" else
                            ((presentation_line(it[1]) if it[0] == "msg" else INVALID_LINE) + "\n").encode() for it in items)
            had = self._buffered()
            if self.kind == "tcp":
                await asyncio.wait_for(_until(lambda: len(self.peer_writers) > self.peer_done, GUARD), 2 * GUARD)
                w = self.peer_writers[-1]
                w.write(data)
                await asyncio.wait_for(w.drain(), GUARD)
            else:
                self.peers[-1].sendall(data)
            if had is None or not await _until(lambda: (self._buffered() or 0) >= had + len(data)):
                await asyncio.sleep(0.03 * SLACK)
            return
        for it in items:
            if it[0] == "partial":
                continue
            topic, payload = (f"{t.in_prefix}/{it[1]}/255/0/0/17", "2.0") if it[0] == "msg" else (f"{t.in_prefix}/x/y/z/q/w", "p")
            if self.kind == "mqtt-abstract":
                if it[0] == "recv-error":
                    t._receive_error(mqtt_mod.TransportFailedError("injected: receiving failed"))     # noqa: SLF001
                else:
                    t._receive(topic, payload)                                                       # noqa: SLF001
            else:
                inbox = FakeMqttClient.instances[-1].messages.inbox
                if it[0] == "recv-error":
                    inbox.put_nowait(mqtt_mod.MqttError("injected: connection lost"))
                else:
                    inbox.put_nowait(SimpleNamespace(topic=SimpleNamespace(value=topic), payload=payload.encode()))
        for _ in range(10):               # the client's receive task takes them in
            await asyncio.sleep(0)

    async def far_end_closed(self) -> bool | None:
        """Did the far end see every connection this transport opened go away?"""
        if self.kind == "tcp":
            return await _until(lambda: self.peer_done >= len(self.peer_writers))
        if self.kind == "serial":
            def all_closed() -> bool:
                for peer in self.peers:
                    if peer.fileno() < 0:
                        continue          # this far end has gone away itself: nothing it could see
                    peer.setblocking(False)
                    try:
                        while peer.recv(65536):
                            pass
                    except BlockingIOError:
                        return False
                    except OSError:
                        pass              # reset: closed with unread data
                return True
            return await _until(all_closed)
        if self.kind == "mqtt-client":
            return all(c.exited for c in FakeMqttClient.instances if c.entered)
        return self.transport.events.count("disconnect") >= self.transport.events.count("connect")

    def _stream_ended(self) -> bool | None:
        r = getattr(self.transport, "reader", None)
        if r is None:
            return None
        return bool(getattr(r, "_eof", False)) or getattr(r, "_exception", None) is not None

    async def hang_up(self, how: str, wait: bool = True) -> None:
        """The far end ends the connection.  Stream kinds: `half-close` it stops sending and keeps listening (FIN / end of
        stream: a gateway that reboots, a bridge that shuts its sending side), `close` it goes away altogether, `reset`
        (tcp) it aborts the connection (RST).  MQTT kinds: the broker connection breaks (`connection-lost`).
        With `wait`, returns when the transport has received it (nobody has read it yet)."""
        if self.kind in MQTT_KINDS:
            await self.deliver([("recv-error",)])
            return
        if self.kind == "tcp":
            await asyncio.wait_for(_until(lambda: len(self.peer_writers) > self.peer_done, GUARD), 2 * GUARD)
            w = self.peer_writers[-1]
            if how == "half-close":
                w.write_eof()
            elif how == "close":
                w.close()
            elif how == "reset":
                w.get_extra_info("socket").setsockopt(socket.SOL_SOCKET, socket.SO_LINGER, struct.pack("ii", 1, 0))
                w.transport.abort()
            else:
                raise ValueError(how)
        else:
            peer = self.peers[-1]
            if how == "half-close":
                peer.shutdown(socket.SHUT_WR)
            elif how == "close":
                peer.close()
            else:
                raise ValueError(how)
        if wait and (self._stream_ended() is None or not await _until(lambda: self._stream_ended())):
            await asyncio.sleep(0.03 * SLACK)

    def _own_sockets(self) -> set:
        socks = list(self.server.sockets) if self.server is not None else []
        socks += [w.get_extra_info("socket") for w in self.peer_writers] + list(self.peers)
        inodes = set()
        for s in socks:
            try:
                if s is not None and s.fileno() >= 0:
                    inodes.add(os.fstat(s.fileno()).st_ino)
            except (OSError, ValueError):
                pass
        return inodes

    async def sockets_left_open(self) -> list[str] | None:
        """The sockets this process holds now that it did not hold before the transport existed and that are not the far
        end's (the harness's) own: what the transport has opened and not closed.  Asked after the context was left.
        A socket found open is reported once (a later context on the same objects answers for its own)."""
        if self.baseline is None:
            return None

        def left() -> dict:
            now = socket_inodes() or {}
            own = self._own_sockets()
            return {i: fd for i, fd in now.items() if i not in self.baseline and i not in own and i not in self.reported}
        await _until(lambda: not left(), 0.1 * SLACK)
        found = left()
        self.reported |= set(found)
        out = [describe_socket(fd) for fd in found.values()]
        for _, w in self.streams:
            if id(w) not in self.reported and not w.transport.is_closing():
                self.reported.add(id(w))
                if not found:
                    out.append("a stream the transport opened is not closed")
        return out

    async def close(self) -> None:
        if self.patch is not None:
            self.patch.stop()
        for p in self.patches:
            p.stop()
        for _, w in self.streams:
            if not w.transport.is_closing():
                w.close()             # observed and reported; not left to the finaliser
        self.streams.clear()
        for w in self.peer_writers:
            w.close()
        if self.server is not None:
            self.server.close()
            await self.server.wait_closed()
        for peer in self.peers:
            peer.close()


def traffic_items(first_id: int, before: int, read: int, late: int, exit_how: str, poison: str | None, partial: bool,
                  late_error: bool = False):
    """(what arrives before the body reads, what arrives after its last read).  With `listen-raises` the item the body
    cannot read sits behind the `read` messages it handles, in front of the others; `late_error`: after the last
    message receiving fails (MQTT kinds), which stays unread as well."""
    first = [("msg", first_id + i) for i in range(before)]
    if exit_how == "listen-raises":
        first.insert(read, (poison or "invalid",))
    second = [("msg", first_id + before + i) for i in range(late)]
    if partial:
        second.append(("partial",))
    if late_error:
        second.append(("recv-error",))
    return first, second


class BodyTraffic:
    """What the body of the context does with the transport's traffic: `before` messages arrive, the body handles
    `read` of them through `gateway.listen()` (or reads until listen() raises), `late` more arrive after its last read."""

    def __init__(self, deliver, before: int, read: int, late: int, exit_how: str = "normal", poison: str | None = None,
                 partial: bool = False, first_id: int = 50, late_error: bool = False) -> None:
        self.deliver = deliver           # deliver(items, transport)
        self.first, self.second = traffic_items(first_id, before, read, late, exit_how, poison, partial, late_error)
        self.read, self.exit_how = read, exit_how
        self.handled = 0
        self.raised: BaseException | None = None       # what listen() raised into the body
        self.generators: list = []

    async def in_body(self, gateway, transport=None) -> None:
        await self.deliver(self.first, transport)
        listen = gateway.listen()
        self.generators.append(listen)      # kept: a generator dropped by the body is finalised by the loop at some later time
        try:
            while self.exit_how == "listen-raises" or self.handled < self.read:
                await anext(listen)
                self.handled += 1
        except Exception as e:  # noqa: BLE001  the body ends with what listen() raised
            self.raised = e
        await self.deliver(self.second, transport)

    async def cleanup(self) -> None:
        for g in self.generators:
            try:
                await asyncio.wait_for(g.aclose(), GUARD)
            except BaseException:  # noqa: BLE001
                pass


class FlakyMqtt(mqtt_mod.MQTTTransport):
    """The MQTT base transport in memory, with FlakyTransport's knobs (for the gated scenarios)."""

    def __init__(self, *, connect_fails=False, disconnect_fails=False, connect_waits=None, connect_suspends=True,
                 disconnect_suspends=True) -> None:
        super().__init__()
        self.connect_fails, self.disconnect_fails = connect_fails, disconnect_fails
        self.connect_waits, self.connect_suspends = connect_waits, connect_suspends
        self.disconnect_suspends = disconnect_suspends
        self.calls: list[str] = []

    async def _connect(self) -> None:
        self.calls.append("connect")
        if self.connect_suspends:
            await asyncio.sleep(0)
        if self.connect_waits is not None:
            await self.connect_waits()
        if self.connect_fails:
            raise ConnectBoom("connect")

    async def _disconnect(self) -> None:
        self.calls.append("disconnect")
        if self.disconnect_suspends:
            await asyncio.sleep(0)
        if self.disconnect_fails:
            raise DisconnectBoom("disconnect")

    async def _publish(self, topic, payload, qos) -> None:
        pass

    async def _subscribe(self, topic, qos) -> None:
        pass


async def memory_delivery(items: list[tuple], t) -> None:
    """Delivery for FlakyMqtt: the documented way, `_receive(topic, payload)` / `_receive_error(error)`."""
    for it in items:
        if it[0] == "msg":
            t._receive(f"{t.in_prefix}/{it[1]}/255/0/0/17", "2.0")                              # noqa: SLF001
        elif it[0] == "invalid":
            t._receive(f"{t.in_prefix}/x/y/z/q/w", "p")                                          # noqa: SLF001
        elif it[0] == "recv-error":
            t._receive_error(mqtt_mod.TransportFailedError("injected: receiving failed"))        # noqa: SLF001


async def run_unread(path: str, kind: str, before: int, read: int, late: int, exit_how: str, poison: str | None = None,
                     partial: bool = False, sessions: int = 1, late_error: bool = False) -> list[dict]:
    """The lifecycle with the real aiofiles thread pool and a built-in transport kind whose far end sends messages:
    `before` arrive, the body handles `read` of them, `late` more arrive after its last read, then the context is left
    as `exit_how` says (normal | raise | cancel | listen-raises) - with `before - read + late` messages received and
    unread.  `sessions` > 1: the same Gateway and transport objects are entered again, with the same traffic.
    One observation per session (the list ends with the first session that hung)."""
    v0 = v0_nodes()
    await asyncio.wait_for(Persistence(v0, path).save(), GUARD)
    wire = Wire(kind)
    out: list[dict] = []
    try:
        transport = await wire.open()
        called: list[str] = []
        orig_connect, orig_disconnect = transport.connect, transport.disconnect

        async def spy_connect():
            called.append("connect")
            return await orig_connect()

        async def spy_disconnect():
            called.append("disconnect")
            return await orig_disconnect()
        transport.connect, transport.disconnect = spy_connect, spy_disconnect  # type: ignore[method-assign]
        gateway = Gateway(transport, Config(persistence_file=path))
        for session in range(sessions):
            called.clear()
            file0 = file_canon(path)
            traffic = BodyTraffic(wire.deliver, before, read, late, exit_how, poison, partial, first_id=50 + 20 * session,
                                  late_error=late_error)
            obs: dict = {"entered": False, "loaded_ok": None, "stage": "entering", "session": session}
            body_parked = asyncio.Event()
            ended_with: list = []
            reg_at_exit = None
            before_tasks = asyncio.all_tasks()
            exc: BaseException | None = None

            async def context():
                nonlocal reg_at_exit
                try:
                    async with gateway:
                        obs["entered"] = True
                        now = _dumped(canon(gateway.nodes))
                        obs["loaded_ok"] = all(now.get(k) == v for k, v in _dumped(file0).items())
                        obs["stage"] = "body"
                        await asyncio.sleep(0.03 * SLACK)          # the saver's first save is done, it sleeps
                        await traffic.in_body(gateway)
                        gateway.nodes[42 + session] = Node(42 + session, 17, "2.0", sketch_name=f"added in the body of session {session}")
                        reg_at_exit = canon(gateway.nodes)
                        obs["received_and_unread_when_left"] = wire.unread()
                        obs["stage"] = "leaving"
                        if exit_how == "cancel":
                            body_parked.set()
                            await asyncio.Event().wait()     # the task running the context is cancelled here
                        if traffic.raised is not None:
                            ended_with.append(traffic.raised)
                            raise traffic.raised
                        if exit_how == "raise":
                            ended_with.append(BodyBoom("body"))
                            raise ended_with[0]
                finally:
                    if reg_at_exit is None:
                        reg_at_exit = canon(gateway.nodes)

            try:
                if exit_how == "cancel":
                    # leaving the context through cancellation of the task that runs it, the body parked
                    task = asyncio.ensure_future(context())
                    parked = asyncio.ensure_future(body_parked.wait())
                    await asyncio.wait([task, parked], timeout=GUARD, return_when=asyncio.FIRST_COMPLETED)
                    parked.cancel()
                    if not task.done():
                        task.cancel()
                    await asyncio.wait([task], timeout=GUARD)
                    if not task.done():
                        task.cancel()                  # abandoned: it is parked somewhere in the exit
                        await asyncio.wait([task], timeout=GUARD)
                        raise TimeoutError
                    if task.cancelled():
                        raise asyncio.CancelledError
                    if task.exception() is not None:
                        raise task.exception()
                else:
                    await asyncio.wait_for(context(), GUARD)
            except BaseException as e:  # noqa: BLE001
                exc = e
            await asyncio.sleep(0.02 * SLACK)      # let executor callbacks and closed sockets settle
            outcome = "bodyErr" if exc is not None and ended_with and exc is ended_with[0] else classify(exc)
            closed = left_open = None
            if obs["entered"] and outcome != "hang":
                closed = await wire.far_end_closed()
                left_open = await wire.sockets_left_open()
            leftovers = [t for t in asyncio.all_tasks() - before_tasks if t is not asyncio.current_task() and not t.done()]
            names = sorted({getattr(t.get_coro(), "__qualname__", "?") for t in leftovers})
            names = [n for n in names if "on_client" not in n and "StreamReaderProtocol" not in n]
            leftovers_real = [t for t in leftovers if getattr(t.get_coro(), "__qualname__", "?") in names]
            for t in leftovers:
                t.cancel()
            if leftovers:
                await asyncio.wait(leftovers, timeout=GUARD)
            await traffic.cleanup()
            content = file_canon(path)
            obs.update({"outcome": outcome, "error": None if exc is None else f"{type(exc).__name__}: {exc}"[:200],
                        "leftover_tasks": len(leftovers_real), "leftover_names": names, "saver_alive": False,
                        "disconnect_called": "disconnect" in called, "connect_called": "connect" in called,
                        "far_end_saw_the_connection_closed": closed, "sockets_left_open": left_open,
                        "started": True, "final_save_done": content == reg_at_exit,
                        "file_is_registry_at_exit": content == reg_at_exit,
                        "file": "truncated" if content == "" else "holds:1" if content == reg_at_exit else "other",
                        "messages_handled_by_the_body": traffic.handled,
                        "body_ended_with": None if not ended_with else type(ended_with[0]).__name__,
                        "nodes_in_registry_at_exit": lib.key_sorted(int(k) if k.lstrip("-").isdigit() else k for k in _dumped(reg_at_exit))})
            out.append(obs)
            if outcome == "hang":
                break
    finally:
        await wire.close()
    return out


def unread_scenarios(rng, tier: str) -> list[dict]:
    """(before, read, late) = messages that arrive before the body reads, that it handles, that arrive after its last
    read; unread at exit = before - read + late."""
    patterns = [(1, 0, 0), (3, 1, 0), (2, 2, 1), (0, 0, 2), (5, 2, 3), (2, 2, 0)]
    out = []
    for kind in TRAFFIC_KINDS:
        stream = kind in ("tcp", "serial")
        for i, (b, r, l) in enumerate(patterns):
            for j, how in enumerate(("normal", "raise", "cancel")):
                if tier == "quick" and i >= 2 and (i + TRAFFIC_KINDS.index(kind)) % 3 != j:
                    continue        # quick: every way of leaving for the first two patterns, one (rotating) for the others
                out.append(dict(kind=kind, before=b, read=r, late=l, exit_how=how, partial=stream and (i + len(how)) % 2 == 0,
                                origin="unread-grid"))
        # the body ends with what listen() raised on one message of a burst, later messages already queued
        out.append(dict(kind=kind, before=3, read=1, late=0, exit_how="listen-raises", poison="invalid", origin="unread-grid"))
        out.append(dict(kind=kind, before=1, read=1, late=1, exit_how="listen-raises", poison="invalid", origin="unread-grid"))
        if not stream:
            out.append(dict(kind=kind, before=2, read=0, late=1, exit_how="listen-raises", poison="recv-error", origin="unread-grid"))
            out.append(dict(kind=kind, before=0, read=0, late=0, exit_how="normal", poison="recv-error", late_error=True, origin="unread-grid"))
        # only the beginning of a line has arrived (stream kinds), nothing at all (control)
        out.append(dict(kind=kind, before=0, read=0, late=0, exit_how="normal", partial=stream, origin="unread-grid"))
        # the same objects entered again after a context that was left with unread messages
        out.append(dict(kind=kind, before=2, read=1, late=1, exit_how="normal", sessions=2, origin="unread-grid"))
        out.append(dict(kind=kind, before=1, read=0, late=0, exit_how="raise", sessions=2, origin="unread-grid"))
    for _ in range(8 if tier == "quick" else 120):
        kind = rng.choice(TRAFFIC_KINDS)
        b = rng.randint(0, 6)
        r = rng.randint(0, b)
        how = rng.choice(("normal", "raise", "cancel", "listen-raises"))
        out.append(dict(kind=kind, before=b, read=r, late=rng.randint(0, 3), exit_how=how,
                        poison=rng.choice(("invalid", "recv-error") if kind in MQTT_KINDS else ("invalid",)) if how == "listen-raises" else None,
                        partial=kind in ("tcp", "serial") and rng.random() < 0.4,
                        sessions=2 if rng.random() < 0.2 else 1, origin="unread-random"))
    return out


# ---- stretches of virtual time anywhere (a whole event loop on virtual time) ---------------------


class VirtualTimeLoop(asyncio.SelectorEventLoop):
    """An event loop whose clock is virtual: whenever nothing is ready to run, time jumps to the next timer.
    Every timer of the code under test (sleeps, asyncio.timeout, wait_for, call_later) then runs in virtual time,
    wherever it is written.  Only usable without executor threads (the fake file layer is used)."""

    def __init__(self) -> None:
        super().__init__()
        self._vnow = 0.0

    def time(self) -> float:
        return self._vnow

    def _run_once(self) -> None:
        if not self._ready:
            while self._scheduled and self._scheduled[0]._cancelled:     # noqa: SLF001
                handle = heapq.heappop(self._scheduled)
                handle._scheduled = False                                 # noqa: SLF001
                self._timer_cancelled_count = max(0, self._timer_cancelled_count - 1)
            if self._scheduled and self._scheduled[0]._when > self._vnow:  # noqa: SLF001
                self._vnow = self._scheduled[0]._when                     # noqa: SLF001
        super()._run_once()


def run_slow_connect(path: str, connect_takes: int, connect_fails: bool, body_takes: int = 0) -> dict:
    """A connect attempt that neither succeeds nor fails for `connect_takes` virtual seconds (a host that drops
    packets: the OS gives up after about two minutes), then fails or succeeds; `body_takes` seconds in the body."""

    async def main() -> dict:
        v0 = v0_nodes()
        with open(path, "w", encoding="utf-8") as f:
            schema = NodeSchema()
            f.write(json.dumps({str(k): schema.dump(n) for k, n in v0.items()}, sort_keys=True, indent=2))
        clock = VirtualClock()

        class LoopProxy(AsyncioProxy):          # records the saver task, sleeps on the (virtual-time) loop
            def sleep(self, delay, result=None):
                return asyncio.sleep(delay, result)

        proxy = LoopProxy(clock)
        ctl = Controller(clock, proxy)
        loop = asyncio.get_running_loop()

        async def waits():
            await asyncio.sleep(connect_takes)

        transport = FlakyTransport(connect_fails=connect_fails, connect_waits=waits)
        obs: dict = {"entered": False, "loaded_ok": None}
        before = asyncio.all_tasks()
        exc = None
        reg_at_exit = None
        t_end = None
        with mock.patch.object(pers_mod, "aiofiles", FakeFiles(ctl)), mock.patch.object(pers_mod, "asyncio", proxy):
            gateway = Gateway(transport, Config(persistence_file=path))
            try:
                async with gateway:
                    obs["entered"] = True
                    obs["loaded_ok"] = canon(gateway.nodes) == canon(v0)
                    if body_takes:
                        await asyncio.sleep(body_takes)
                    gateway.nodes[42] = Node(42, 17, "2.0")
                    reg_at_exit = canon(gateway.nodes)
            except BaseException as e:  # noqa: BLE001
                exc = e
            t_end = loop.time()
            if reg_at_exit is None:
                reg_at_exit = canon(gateway.nodes)
            for _ in range(5):
                await asyncio.sleep(0)
            leftovers = [t for t in asyncio.all_tasks() - before if t is not asyncio.current_task() and not t.done()]
            names = sorted({getattr(t.get_coro(), "__qualname__", "?") for t in leftovers})
            content_at_end = file_canon(path)
            # an hour later: nothing may have touched the file behind the application's back
            if leftovers:
                await asyncio.sleep(3600)
            content_later = file_canon(path)
            for t in leftovers:
                t.cancel()
            if leftovers:
                await asyncio.wait(leftovers, timeout=GUARD)
        obs.update({"outcome": classify(exc), "error": None if exc is None else f"{type(exc).__name__}: {exc}"[:200],
                    "ended_at": t_end, "leftover_tasks": len(leftovers), "leftover_names": names, "saver_alive": bool(leftovers),
                    "disconnect_called": "disconnect" in transport.calls, "connect_called": "connect" in transport.calls,
                    "started": True, "final_save_done": content_at_end == reg_at_exit,
                    "file_is_registry_at_exit": content_at_end == reg_at_exit,
                    "file_changed_afterwards": content_later != content_at_end,
                    "saver_saves": [t for who, kind, t in ctl.log if who == "saver" and kind == "open:w"],
                    "file": "truncated" if content_at_end == "" else "holds:1" if content_at_end == reg_at_exit else "other"})
        return obs

    return asyncio.run(main(), loop_factory=VirtualTimeLoop)


# ---- the run ---------------------------------------------------------------------------------



def confirmed(corr: Corr, name: str, group) -> None:
    """Run a wall-clock-dependent group (real thread pool, real sockets, real-time hang guards).  Such a run can be
    disturbed by the machine (a starved executor thread makes a 30 ms settle too short or a 3 s guard expire), so a
    violation it reports is kept only if it shows again when the whole group is run once more with relaxed timing
    (guards x2, settle sleeps x5).  A defect of the library reproduces; a disturbance does not (counted in the evidence)."""
    global GUARD, SLACK
    n0 = len(corr.violations)
    asyncio.run(group(corr))
    new = corr.violations[n0:]
    if not new:
        return
    key = lambda v: re.sub(r"\d+", "#", v["what"])  # noqa: E731
    scratch = Corr(corr.prop, corr.rule)
    old = (GUARD, SLACK)
    GUARD, SLACK = GUARD * 2, SLACK * 5
    try:
        asyncio.run(group(scratch))
    finally:
        GUARD, SLACK = old
    seen = {key(v) for v in scratch.violations}
    keep = [v for v in new if key(v) in seen]
    del corr.violations[n0:]
    corr.violations.extend(keep)
    if len(keep) < len(new):
        corr.count("unconfirmed-wall-clock-observations:" + name, len(new) - len(keep))
        corr.notes.append(f"{name}: {len(new) - len(keep)} observation(s) of a wall-clock-dependent run did not show again when the "
                          "group was re-run with relaxed timing; not reported (first: " + new[0]["what"][:160] + ")")


def run_c16(ctx) -> Corr:
    corr = Corr("C16", "scenarios = position of the saver when the context is left or connect fails (not started; held before/"
                "after the effect of open, write, close of the first save; sleeping; inside the second save; after two saves) "
                "x fault combinations (connect fails, body raises or the task running the body is cancelled, disconnect fails, "
                "final save fails; load fails) on the real "
                "Gateway with gated file operations and virtual time, each compared with the Lean model's run of the matching "
                "schedule and with the property's oracle (no task left, disconnect attempted, file == registry as of exit, "
                "right exception, never CancelledError unless the body was cancelled and no later step failed, no hang); "
                "histories of 2-4 such contexts on ONE Gateway object (an earlier context ended by each fault position, the "
                "file edited by another tool in between), every session judged by the whole oracle (+ connect attempted, file "
                "loaded, saves started >= elapsed//900+1) and compared with the model's run for that session; "
                "cadence: saves started within [0,T] >= T//900+1 for a list of "
                "stretches T in virtual time; plus real-aiofiles runs with every built-in transport kind offline; plus contexts left "
                "(normally, by an exception of the body or of listen(), by cancellation; once and twice on the same objects) while "
                "the transport holds messages received and not read, with every built-in transport kind (oracle + the far end must "
                "see the connection closed + the process holds no socket the transport opened); plus the far end ending the connection "
                "(half-close, close, reset; the broker connection breaks) after k complete messages / in the middle of one / before any, "
                "before the body reads or while it waits inside gateway.listen(), the body reading until listen() raises (and trying again) "
                "or stopping before the end, then leaving with that error, normally, with another exception or by cancellation, once and "
                "twice on the same objects (same oracle); and with an in-memory MQTT transport at every reachable saver position (oracle + model); "
                "plus registries of 0..254 nodes that a concurrent task changes (add / remove / replace / update a node, a presentation "
                "or id request handled by listen()) k loop iterations after the statement began, after the saver woke for a periodic "
                "save, after the body ended - one k, or every k of the phase - on a stepping virtual-time loop, judged by the oracle "
                "(saves started >= elapsed//900+1, clean exit, file == a registry state as of exit, file current after the last periodic save). "
                "non-trivial = the saver exists and is not asleep-and-idle at exit, or a fault is injected")
    rng = lib.rng_for(ctx.seed, "c16")
    interval = int(getattr(pers_mod, "SAVE_INTERVAL", 0))
    corr.count(f"SAVE_INTERVAL={interval}")
    scratch = lib.scratch()
    path = os.path.join(scratch, "c16-persistence.json")

    scenarios: list[tuple[str, dict, str]] = []
    corpus_histories = []
    for c in lib.load_corpus("C16"):
        if "churn" in c:        # a registry changed by a concurrent task: run by churn.churn_group
            continue
        if "hangup" in c:       # the far end ends the connection while the body reads: run by hangup.group
            continue
        if "sessions" in c:     # a history: [{"position":…, "faults":{…}, "file_before": "add"|"none"}, …]
            corpus_histories.append(([(x["position"], dict(x.get("faults", {})), x.get("file_before", "add")) for x in c["sessions"]],
                                     "corpus:" + c["_file"]))
            continue
        scenarios.append((c["position"], dict(c.get("faults", {})), "corpus:" + c["_file"]))
    positions = list(POSITIONS)
    for pos in positions:
        for body in (False, True):
            for disc in (False, True):
                for final in (False, True):
                    scenarios.append((pos, {"body": body, "disconnect": disc, "final": final}, "grid"))
        for final in (False, True):
            scenarios.append((pos, {"connect": True, "final": final}, "grid"))
    scenarios.append(("not-started", {"load": True}, "grid"))
    for pos in positions:
        for disc in (False, True):
            for final in (False, True):
                for body in (False, True):      # `body` with `cancel`: the cancellation comes first and wins
                    scenarios.append((pos, {"cancel": True, "disconnect": disc, "final": final, "body": body}, "grid-cancel"))
    if ctx.tier == "thorough":
        for _ in range(200):
            pos = rng.choice(positions)
            f = {k: rng.random() < 0.4 for k in ("body", "disconnect", "final")}
            if rng.random() < 0.25:
                f = {"connect": True, "final": rng.random() < 0.5}
            scenarios.append((pos, f, "random"))

    model_lines: list[str] = []
    pending: list[tuple[dict, dict]] = []

    async def gated():
        hangs = 0
        for pos, faults, origin in scenarios:
            faults = {k: v for k, v in faults.items() if v}
            case = {"position": pos, "faults": faults, "origin": origin}
            if hangs >= 4:
                corr.count("skipped-after-repeated-hangs")
                continue
            try:
                obs = await run_gated(path, pos, faults)
            except BaseException as e:  # noqa: BLE001  the harness could not drive this tree to the position
                corr.violate(f"scenario could not be driven to its position: {type(e).__name__}: {e}"[:300], case)
                continue
            ok = oracle(corr, f"exit with the saver at {pos}", case, obs, faults, pos)
            hangs += obs["outcome"] == "hang"
            corr.count("position:" + pos)
            corr.count("faults:" + (",".join(sorted(faults)) or "none"))
            corr.count("outcome:" + obs["outcome"])
            corr.case((pos, tuple(sorted(faults))), pos not in ("sleeping",) or bool(faults),
                      {"position": pos, "faults": faults, "outcome": obs["outcome"], "file": obs["file"], "ok": ok})
            if ctx.model_ok:
                model_lines.append(f"lnew {fault_bits(faults)} 0 0")
                model_lines.append("lrun " + ",".join(model_schedule(pos, faults)))
                pending.append((case, obs))

    asyncio.run(gated())

    # histories: the same Gateway / transport objects are entered again after a context that ended in each possible
    # way; every clause of the property is judged for every session, and every session is compared with the model
    histories = corpus_histories + history_scenarios(rng, ctx.tier)

    async def run_histories():
        hangs = 0
        for sessions, origin in histories:
            if hangs >= 3:
                corr.count("skipped-after-repeated-hangs")
                continue
            carry: dict = {}
            done: list[dict] = []
            previous = "first"
            corr.count(f"history:length:{len(sessions)}")
            for k, (pos, faults, edit) in enumerate(sessions):
                faults = {f: v for f, v in faults.items() if v}
                shown = done + [session_view(pos, faults, edit, None)]
                case = {"sessions": shown, "failing_session": k, "same_gateway_object": True, "origin": origin}
                try:
                    obs = await run_gated(path, pos, faults, carry=carry, session=k, edit=edit)
                except BaseException as e:  # noqa: BLE001
                    corr.violate(f"session {k + 1} of a history could not be driven to its position: {type(e).__name__}: {e}"[:300], case)
                    break
                done.append(session_view(pos, faults, edit, obs))
                case = {"sessions": list(done), "failing_session": k, "same_gateway_object": True, "origin": origin}
                after = "" if k == 0 else f" (entered again after a context that ended with {previous})"
                ok = oracle(corr, f"session {k + 1} of a history on one Gateway object{after}: exit with the saver at {pos}",
                            case, obs, faults, pos)
                corr.count("history:session")
                corr.count(f"history:session-{k + 1}-after:{previous}")
                corr.count("history:position:" + pos)
                if k:
                    corr.count("history:file-before:" + edit)
                corr.case(("history", tuple((d["position"], tuple(sorted(d["faults"])), d["file_before"]) for d in done)), True,
                          {"sessions": list(done), "ok": ok} if k == len(sessions) - 1 else None)
                if ctx.model_ok:
                    model_lines.append(f"lnew {fault_bits(faults)} 0 0")
                    model_lines.append("lrun " + ",".join(model_schedule(pos, faults)))
                    pending.append((case, obs))
                previous = obs["outcome"]
                if obs["outcome"] == "hang":
                    hangs += 1
                    break       # what state the objects are in after an abandoned context is not defined

    asyncio.run(run_histories())
    corr.notes.append("histories (several contexts of one Gateway object, the file edited by another tool in between): the Lean "
                      "lifecycle model has no operation that carries anything from one context to the next, so every session "
                      "is compared with the model's run from `init` for that session's faults and saver position (file version 0 "
                      "= what the file held when the session began) and judged by the oracle; that the state carried by the "
                      "reused objects does not matter is exactly what is checked")

    # cadence
    stretches = sorted({0, 1, 899, 900, 901, 1799, 1800, 2700, 4500, 9000 + 5, 20 * 900, 20 * 900 + 450}
                       | {rng.randint(0, 40 * 900) for _ in range(6 if ctx.tier == "quick" else 40)})
    cad = asyncio.run(run_cadence(path, stretches))
    ccase = {"scenario": "cadence", "stretches": stretches}
    if cad["outcome"] != "none" or cad["leftover_tasks"] or not cad["final_file_ok"]:
        corr.violate(f"cadence run did not end cleanly: outcome {cad['outcome']} ({cad['error']}), "
                     f"{cad['leftover_tasks']} task(s) left, final file ok: {cad['final_file_ok']}", ccase)
    if len(cad["rows"]) != len(stretches):
        corr.violate("cadence run observed fewer stretches than requested (the saver did not keep up in virtual time)", {**ccase, "rows": cad["rows"][-3:]})
    for row in cad["rows"]:
        need = row["T"] // FIFTEEN_MINUTES + 1
        good = row["starts_within"] >= need and row["file_current"]
        corr.count("cadence:stretch")
        corr.case(("cadence", row["T"]), row["T"] >= FIFTEEN_MINUTES, {"T": row["T"], "starts_within": row["starts_within"], "needed": need})
        if row["starts_within"] < need:
            corr.violate(f"only {row['starts_within']} save(s) started within {row['T']} s of virtual time; at least {need} required "
                         "(once entered and then every 15 minutes)", {**ccase, "row": row})
        elif not row["file_current"]:
            corr.violate("after the periodic save the file does not hold the current registry", {**ccase, "row": row})
        gaps = [b - a for a, b in zip(row["starts"], row["starts"][1:])]
        if good and any(g > FIFTEEN_MINUTES for g in gaps):
            corr.violate(f"two consecutive periodic saves are more than 15 minutes apart: gaps {gaps[:5]}", {**ccase, "row": row})
    if ctx.model_ok and interval > 0:
        model_lines.append("lnew 000000 0 0")
        model_lines.append("lrun main,main,main,saver1,saver1,saver1,saver1")
        pending.append(({"scenario": "cadence-enter"}, {"cadence_starts": [0], "T": 0}))
        for T, steps, row in zip(stretches, cadence_schedule(stretches, interval), cad["rows"]):
            model_lines.append("lrun " + ",".join(steps))
            pending.append(({"scenario": "cadence", "T": T}, {"cadence_starts": row["starts"], "T": T}))

    # real aiofiles + built-in transport kinds
    async def real(corr):
        for kind in ("flaky", "tcp", "serial", "mqtt-client", "mqtt-abstract"):
            for fail_connect, wait_first, body_raises in ((False, True, False), (False, False, False), (True, False, False), (False, True, True)):
                case = {"transport": kind, "connect_fails": fail_connect, "waited_for_first_save": wait_first,
                        "body_raises": body_raises, "file_layer": "real aiofiles"}
                faults = {"connect": fail_connect, "body": body_raises}
                try:
                    obs = await run_real(path, kind, fail_connect, wait_first, body_raises)
                except BaseException as e:  # noqa: BLE001
                    corr.violate(f"real-transport scenario crashed: {type(e).__name__}: {e}"[:300], case)
                    continue
                oracle(corr, f"lifecycle with transport {kind}", case, obs, {k: v for k, v in faults.items() if v})
                corr.count("transport:" + kind)
                if not fail_connect and not wait_first:
                    # ... and once more with the context left and entered again on the same objects
                    case2 = {**case, "sessions": 2}
                    try:
                        obs2 = await run_real(path, kind, False, wait_first, body_raises, sessions=2)
                    except Exception as err:  # noqa: BLE001
                        corr.notes.append(f"two-session run {case2} not executable here: {type(err).__name__}: {err}"[:300])
                        continue
                    oracle(corr, f"second session with transport {kind}", case2, obs2, {k: v for k, v in faults.items() if v})
                    corr.count("transport-two-sessions:" + kind)
                    corr.case(("real2", kind, body_raises), True, None)
                corr.case(("real", kind, fail_connect, wait_first, body_raises), True,
                          {"transport": kind, "outcome": obs["outcome"], "leftover": obs["leftover_names"]})
        # a reconnect loop with every transport kind: the first context fails to connect, the cause goes away, another
        # tool adds a node to the file, the same objects are entered again (once, and twice in a row)
        for kind in ("flaky", "tcp", "serial", "mqtt-client", "mqtt-abstract"):
            for again in (1, 2):
                case = {"transport": kind, "scenario": "connect fails, then the same Gateway object is entered again",
                        "contexts_after_the_failed_one": again, "file_layer": "real aiofiles"}
                try:
                    obs = await run_real(path, kind, True, again == 1, sessions=again, retry_after_failed_connect=True)
                except BaseException as e:  # noqa: BLE001
                    corr.violate(f"reconnect scenario crashed: {type(e).__name__}: {e}"[:300], case)
                    continue
                fe = obs["failed_entry"]
                if fe["outcome"] != "connectErr" or fe["entered"] or fe["leftover_names"]:
                    corr.violate(f"connect failed with transport {kind}: propagated {fe['outcome']}, body ran: {fe['entered']}, "
                                 f"tasks left: {fe['leftover_names']}", {**case, "observed": obs})
                if obs["raised_by_transport_connect"] and not obs["entered"]:
                    # the transport object's own connect() raised again although the cause of the first failure is gone.
                    # Whether a transport object can be connected after a failed attempt is the transport's business; what
                    # the property says about the gateway context is "if connecting fails the error propagates and no
                    # background task is left behind" - that is judged, the refusal itself is reported as an observation
                    if obs["leftover_names"] or not obs["file_is_registry_at_exit"]:
                        corr.violate(f"connect failed again with transport {kind} and the context left something behind: tasks "
                                     f"{obs['leftover_names']}, file: {obs['file']}", {**case, "observed": obs})
                    note = (f"observation (not judged): after a failed connect the {kind} transport object refuses to connect "
                            f"again although the cause is gone: {obs['error']}")
                    if note not in corr.notes:
                        corr.notes.append(note)
                    corr.count("transport-retry-refused-by-transport:" + kind)
                else:
                    oracle(corr, f"context entered again after a failed connect, transport {kind}", case, obs, {})
                    if not obs["entered"]:
                        corr.violate(f"the context could not be entered again after a failed connect, transport {kind}", {**case, "observed": obs})
                corr.count("transport-retry-after-failed-connect:" + kind)
                corr.case(("real-retry", kind, again), True, {"transport": kind, "failed_entry": fe["outcome"], "then": obs["outcome"]})
        # a failing subscription is a failing connect for the MQTT kind: "no background task is left behind"
        # (repaired in /repo by 'fix: don't leave the MQTT receive task running when subscribing fails')
        obs = await run_real(path, "mqtt-client", False, False, subscribe_fails=True)
        closed = [c.exited for c in FakeMqttClient.instances]
        corr.case(("real", "mqtt-client", "subscribe-fails"), True, {"transport": "mqtt-client", "subscribe_fails": True,
                                                                       "leftover": obs["leftover_names"]})
        if obs["leftover_names"] or not all(closed):
            corr.violate("connecting failed (an MQTT subscription was refused) but a background task or the broker "
                         "client was left behind",
                         {"transport": "mqtt-client", "subscribe_fails": True, "leftover": obs["leftover_names"],
                          "client_closed": closed, "outcome": obs["outcome"]})
        # observation outside the property's fault positions (reported, not judged)
        obs2 = await run_gated(path, "sleeping-after-2", {}, periodic_fails_at=2)
        corr.notes.append("observation (the second periodic save fails with OSError, then normal exit): outcome "
                          f"{obs2['outcome']} ({obs2['error']}), final save done: {obs2['final_save_done']}, "
                          f"file is registry at exit: {obs2['file_is_registry_at_exit']}, saver saves: {obs2['saver_saves']}")

    confirmed(corr, "real-transports", real)

    # messages that were received but not read when the context is left, every built-in transport kind
    async def unread(corr):
        hangs = 0
        for sc in unread_scenarios(rng, ctx.tier):
            if hangs >= 2:
                corr.count("unread:skipped-after-repeated-hangs")
                continue
            kind, how = sc["kind"], sc["exit_how"]
            n_sessions = sc.get("sessions", 1)
            case = {"transport": kind, "file_layer": "real aiofiles", "origin": sc["origin"],
                    "what_happens": "per context: " + (f"{sc['before']} message(s) arrive; " if sc["before"] or how == "listen-raises" else "")
                    + (f"the body reads through gateway.listen() until it raises ({sc.get('poison')} item behind message {sc['read']}); "
                       if how == "listen-raises" else f"the body handles {sc['read']} of them through gateway.listen(); " if sc["before"] else "")
                    + (f"{sc['late']} more arrive after its last read; " if sc["late"] else "")
                    + ("the beginning of a further line arrives; " if sc.get("partial") else "")
                    + ("then receiving fails (the error is queued for the reader); " if sc.get("late_error") else "")
                    + {"normal": "the body ends normally", "raise": "the body raises", "cancel": "the task running the context is cancelled",
                       "listen-raises": "the body ends with what listen() raised"}[how],
                    "traffic": {**{k: sc[k] for k in ("before", "read", "late", "exit_how")},
                                **{k: sc[k] for k in ("poison", "partial", "late_error") if sc.get(k)}},
                    "contexts_on_the_same_objects": n_sessions}
            try:
                sessions = await run_unread(path, kind, sc["before"], sc["read"], sc["late"], how, poison=sc.get("poison"),
                                            partial=bool(sc.get("partial")), sessions=n_sessions, late_error=bool(sc.get("late_error")))
            except BaseException as e:  # noqa: BLE001
                corr.violate(f"scenario with unread messages crashed: {type(e).__name__}: {e}"[:300], case)
                continue
            for obs in sessions:
                k = obs["session"]
                scase = {**case, "failing_context": k + 1} if n_sessions > 1 else case
                corr.count("unread:transport:" + kind)
                corr.count("unread:exit:" + how)
                corr.count("unread:outcome:" + obs["outcome"])
                left_unread = obs.get("received_and_unread_when_left")
                corr.count("unread:left-with-unread-" + ("none" if not left_unread else "messages" if kind in MQTT_KINDS else "bytes"))
                corr.case(("unread", kind, sc["before"], sc["read"], sc["late"], how, sc.get("poison"), bool(sc.get("partial")),
                           bool(sc.get("late_error")), k), bool(left_unread),
                          {"transport": kind, "traffic": scase["traffic"], "context": k + 1, "unread_when_left": left_unread,
                           "outcome": obs["outcome"]})
                if obs["outcome"] == "hang" and obs["stage"] == "body":
                    # the harness's own body did not get through (a delivered message never reached listen()): that is
                    # not what this property is about; nothing is judged
                    corr.count("unread:not-judged(body did not get through)")
                    corr.notes.append(f"unread-messages scenario not judged, the body did not get through its reads: {scase["what_happens"]} ({kind})"[:300])
                    hangs += 1
                    continue
                hangs += obs["outcome"] == "hang"
                faults = {"cancel": True} if how == "cancel" and obs["stage"] != "entering" else \
                    {"body": True} if obs["body_ended_with"] else {}
                what = f"context left with messages received and not read, transport {kind}" + (f" (context {k + 1} on the same objects)" if k else "")
                ok = oracle(corr, what, scase, obs, faults)
                if ok and obs["far_end_saw_the_connection_closed"] is False:
                    corr.violate(what + ": the context was left but the far end still sees the connection open (the transport was "
                                 "not disconnected)", {**scase, "observed": obs})

    confirmed(corr, "unread-messages", unread)
    corr.notes.append("messages received but not read at exit (real transports, real aiofiles): the Lean lifecycle model has no "
                      "transport traffic and these runs do not control the saver's position, so they are judged by the oracle alone; "
                      "the gated variant (in-memory MQTTTransport subclass, `gated-mqtt-unread`) places the saver and is compared "
                      "with the model's run for the same position and faults - unread messages must make no difference")

    # the far end ends the connection (half-close, close, reset; the broker connection breaks) at every point relative
    # to the message boundaries while the body reads through gateway.listen(); then the context is left (harness/props/hangup.py)
    from . import hangup
    confirmed(corr, "far-end-hangs-up", hangup.group(ctx, lib.rng_for(ctx.seed, "c16-hangup"), os.path.join(scratch, "c16-hangup.json")))

    # ... and the same with the saver placed: an MQTT kind of transport (subclass of the base class, messages through
    # `_receive`) with unread messages at exit, at every saver position that transport can reach
    gated_unread: list[tuple[str, dict, tuple]] = []
    fault_sets = [{}, {"body": True}, {"cancel": True}, {"disconnect": True}, {"final": True},
                  {"body": True, "disconnect": True, "final": True}, {"cancel": True, "disconnect": True}]
    patterns = [(1, 0, 0), (3, 1, 0), (2, 2, 1), (0, 0, 2)]
    reachable = [p for p in positions if p != "not-started"]       # MQTTTransport.connect always suspends (it gathers the subscriptions)
    if ctx.tier == "quick":
        for i, pos in enumerate(reachable):
            for j in range(3):
                gated_unread.append((pos, fault_sets[(3 * i + j) % len(fault_sets)], patterns[(i + j) % len(patterns)]))
    else:
        gated_unread = [(pos, f, pt) for pos in reachable for f in fault_sets for pt in patterns]

    async def gated_with_unread():
        hangs = 0
        for pos, faults, (b, r, l) in gated_unread:
            if hangs >= 2:
                corr.count("gated-mqtt-unread:skipped-after-repeated-hangs")
                continue
            faults = dict(faults)
            case = {"position": pos, "faults": faults, "origin": "gated-mqtt-unread", "transport": "MQTTTransport subclass in memory",
                    "what_happens": f"in the body, with the saver at {pos}: {b} message(s) arrive through _receive, the body handles {r} through "
                               f"gateway.listen(), {l} more arrive; the context is left with {b - r + l} unread"}
            traffic = BodyTraffic(memory_delivery, b, r, l)
            try:
                obs = await run_gated(path, pos, faults, transport_class=FlakyMqtt, traffic=traffic)
            except BaseException as e:  # noqa: BLE001
                corr.violate(f"scenario could not be driven to its position: {type(e).__name__}: {e}"[:300], case)
                continue
            obs["messages_handled_by_the_body"] = traffic.handled
            ok = oracle(corr, f"exit with the saver at {pos}, unread messages in an MQTT kind of transport", case, obs, faults, pos)
            hangs += obs["outcome"] == "hang"
            corr.count("gated-mqtt-unread:position:" + pos)
            corr.count("gated-mqtt-unread:faults:" + (",".join(sorted(faults)) or "none"))
            corr.case(("gated-mqtt-unread", pos, tuple(sorted(faults)), b, r, l), True,
                      {"position": pos, "faults": faults, "unread": b - r + l, "outcome": obs["outcome"], "file": obs["file"], "ok": ok})
            if ctx.model_ok:
                model_lines.append(f"lnew {fault_bits(faults)} 0 0")
                model_lines.append("lrun " + ",".join(model_schedule(pos, faults)))
                pending.append((case, obs))

    asyncio.run(gated_with_unread())

    # registries of realistic size (0 .. 254 nodes) that another task changes at every suspension point of entering,
    # of a periodic save and of leaving (harness/props/churn.py), on a stepping virtual-time loop
    from . import churn
    churn.churn_group(corr, ctx, lib.rng_for(ctx.seed, "c16-churn"), os.path.join(scratch, "c16-churn.json"))
    # a step of __aenter__ fails, or the task is cancelled while entering, with a non-empty persistence file (harness/props/enterfail.py)
    from . import enterfail
    enterfail.enterfail_group(corr, ctx, lib.rng_for(ctx.seed, "c16-enterfail"), os.path.join(scratch, "c16-enterfail.json"))

    # a connect attempt that stays pending for a long stretch of (virtual) time before it fails or succeeds, and a
    # long-lived body: the whole event loop runs on virtual time, so every timer in the code under test is covered
    for takes, fails, body in ((127, True, 0), (127, False, 0), (5, True, 0), (45, False, 2000), (1000, True, 0), (31, False, 901)):
        case = {"scenario": "slow connect", "connect_takes_s": takes, "connect_fails": fails, "body_takes_s": body}
        try:
            obs = run_slow_connect(path, takes, fails, body)
        except BaseException as e:  # noqa: BLE001
            corr.violate(f"slow-connect scenario crashed: {type(e).__name__}: {e}"[:300], case)
            continue
        ok = oracle(corr, "context entered through a slow connect", case, obs, {"connect": True} if fails else {})
        if ok and obs.get("file_changed_afterwards"):
            corr.violate("the persistence file was rewritten after the context had been left", {**case, "observed": obs})
        if ok and fails and obs["ended_at"] is not None and abs(obs["ended_at"] - takes) > 1:
            corr.notes.append(f"slow connect: the failure surfaced at t={obs['ended_at']} s, the connect attempt ended at t={takes} s")
        corr.count("slow-connect")
        corr.case(("slow-connect", takes, fails, body), True, {"case": case, "outcome": obs["outcome"], "saver_saves": obs["saver_saves"][:6]})

    if ctx.model_ok and model_lines:
        outs = lib.run_model(model_lines, driver=DRIVER)
        for (case, obs), out in zip(pending, _second_lines(model_lines, outs)):
            m = parse_model(out)
            if "cadence_starts" in obs:
                if m.get("starts") != ",".join(str(t) for t in obs["cadence_starts"]) or m.get("now") != str(obs["T"]):
                    corr.disagree("cadence: save start times differ from the model",
                                  {**case, "implementation": obs["cadence_starts"][-6:], "model": m.get("starts", "")[-60:], "model_now": m.get("now")})
            else:
                compare_model(corr, case, obs, m)
        corr.count("model:runs", len(pending))
    return corr


def _second_lines(lines: list[str], outs: list[str]) -> list[str]:
    """The observations that belong to the `lrun` lines."""
    return [o for line, o in zip(lines, outs) if line.startswith("lrun")]
