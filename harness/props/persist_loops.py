"""C14: loading in a process that has a past.

The property is about `Persistence.load` / `Gateway.__aenter__` "whatever the file contains"; it does not say "in a
fresh process, with nobody else using the file".  Everything the persistence layer keeps OUTSIDE the Persistence
object - module-level tables, caches, locks, per-path registries, anything tied to the event loop that happened to be
running when it was first used - survives from one load to the next, from one Persistence object to the next and from
one event loop to the next (an application that restarts its loop, a second `asyncio.run`, a test runner).  The
histories below exercise exactly that:

* one directory, one or two persistence paths, used by SEVERAL Persistence / Gateway objects (some created once for
  the whole process, some anew under every event loop);
* a history is a list of EPISODES, each run under a NEW event loop of the same process; an episode is a list of
  ROUNDS; in a round one operation (a save, a load, entering or leaving a gateway context) may be HELD at one of its
  file operations (before it starts / after it took effect, via the gated thread pool of the C13 overlap sessions)
  while other operations on the same path are started - so loads overlap saves, saves overlap loads, loads overlap
  loads, the second one really having to wait if the layer serialises them;
* every order: contended and uncontended rounds, first and later loops, paths that were only ever used quietly and
  paths that were fought over.

Oracle (C14, nothing more): every load - Persistence.load or Gateway.__aenter__, holder or contender, whatever
happened in earlier rounds, loops or objects - ends, once every held file operation is let through, in success or in
PersistenceReadError.  Saves and exits are recorded, not judged.  A load that runs with nothing else in flight is also
compared with the Lean model (the outcome of loading the bytes the file held at that moment).
"""

from __future__ import annotations

import asyncio
import json
import os
import shutil
import subprocess
import sys
import time

from .. import lib
from . import persist as P
from .persist import Config, Gateway, Node, Persistence

LOAD_OPS = ("load", "enter")
GUARD = P.SESSION_GUARD
OTHER_NAME = "second.json"


# ---- the pieces a history is made of --------------------------------------------------------------


def registry(i: int) -> dict:
    if i == 1:
        return P.sample_registry()
    if i == 2:
        return {2: Node(2, 17, "2.0")}
    return {}


def initial_texts(good: str) -> dict:
    """label -> text of the file before the first episode (None: no file)."""
    return {"missing": None, "valid": good, "empty": "", "truncated": good[:len(good) // 2], "wrong shape": '{"1": 5}', "not JSON": "bad content"}


class Actor:
    """One user of a persistence path: a Persistence object of its own, or a Gateway configured with the path."""

    def __init__(self, name: str, spec: dict, paths: list[str]) -> None:
        self.name, self.spec = name, spec
        self.path = paths[spec["path"]]
        self.entered = False
        if spec["kind"] == "gateway":
            self.gw = Gateway(P.IdleTransport(), Config(persistence_file=self.path))
            self.gw.nodes.update(registry(spec["registry"]))
            self.nodes = self.gw.nodes
            self.pers = self.gw.persistence
        else:
            self.gw = None
            self.nodes = registry(spec["registry"])
            self.pers = Persistence(self.nodes, self.path)

    def effective(self, op: str) -> str:
        """What the operation means for this actor in its present state."""
        if self.gw is None:
            return {"enter": "load", "exit": "save"}.get(op, op)
        if op == "enter" and self.entered:
            return "load"          # a load in the middle of a session
        if op == "exit" and not self.entered:
            return "save"
        return op


def describe_actor(name: str, s: dict) -> str:
    return (f"{name}: a {'Gateway' if s['kind'] == 'gateway' else 'Persistence object'} on path {s['path']}, "
            f"{'created once for the whole process' if s['scope'] == 'process' else 'created anew under every event loop'}, "
            f"registry of {len(registry(s['registry']))} node(s)")


async def perform(a: Actor, op: str) -> str:
    try:
        if op == "load":
            await a.pers.load()
            return "ok " + P.render_nodes(a.nodes)
        if op == "save":
            await a.pers.save()
            return "ok"
        if op == "enter":
            await a.gw.__aenter__()
            a.entered = True
            return "ok " + P.render_nodes(a.nodes)
        if op == "exit":
            a.entered = False
            await a.gw.__aexit__(None, None, None)
            return "ok"
        raise AssertionError(op)
    except asyncio.CancelledError:
        return "did not return"
    except BaseException as e:  # noqa: BLE001
        return P.outcome_of(e) + (f" ({str(e)[:120]})" if P.outcome_of(e).startswith("foreign") else "")


async def _tagged(n: int, a: Actor, op: str) -> str:
    P._SAVE_CTX.set((n, True))       # this task and the tasks it creates: their file operations may be held
    return await perform(a, op)


class LoopsLoop(P.GateLoop):
    """GateLoop that also knows which thread-pool operations have not been reported back INTO the loop yet (the asyncio
    side of each submission): once none is pending for a few turns, every task that could move has moved - no clock."""

    def __init__(self) -> None:
        super().__init__()
        self.aio_ops: list = []

    def submit_now(self, executor, func, args):
        fut = super().submit_now(executor, func, args)
        self.aio_ops = [f for f in self.aio_ops if not f.done()]
        self.aio_ops.append(fut)
        return fut


async def _calm(loop, turns: int = 12, stop=None) -> None:
    """Until no file operation has been pending for `turns` turns of the loop: whoever can make progress has made it;
    whoever is still pending waits for something else than the file system."""
    t0, quiet = time.monotonic(), 0
    while quiet < turns:
        await asyncio.sleep(0)
        if stop is not None and stop():
            return
        pend = [f for f in loop.aio_ops if not f.done()]
        if pend:
            quiet = 0
            await asyncio.wait(pend, timeout=GUARD)
            if time.monotonic() - t0 > GUARD:
                return
        else:
            quiet += 1


def op_text(a: Actor, op: str) -> str:
    return {"load": f"{a.name}.load()", "save": f"{a.name}.save()", "enter": f"enter the context of gateway {a.name} (load, start, connect)",
            "exit": f"leave the context of gateway {a.name} (disconnect, stop, final save)"}[op]


async def run_episode(h: dict, ei: int, ep: dict, paths: list[str], process_actors: dict, trace: list, loads: list, notes: list) -> None:
    loop = asyncio.get_running_loop()
    actors = dict(process_actors)
    for name, spec in h["actors"].items():
        if spec["scope"] != "process":
            actors[name] = Actor(name, spec, paths)
    counter = [0]

    def say(s: str) -> None:
        trace.append(f"loop {ei + 1}: {s}")

    for ri, rnd in enumerate(ep["rounds"]):
        gate = loop.gate = P.FileGate()
        running: list[tuple[asyncio.Task, Actor, str, str]] = []     # task, actor, effective op, role
        holder = rnd.get("holder")
        if holder is not None:
            a = actors[holder["actor"]]
            if holder["op"] == "exit" and a.gw is not None and not a.entered:
                out = await perform(a, "enter")
                await _calm(loop)       # the scheduled save of the new session is over
                say(f"{op_text(a, 'enter')} -> {out[:100]}")
                loads.append({"episode": ei, "round": ri, "actor": a.name, "op": "enter", "role": "preparation", "out": out, "quiet": None})
            op = a.effective(holder["op"])
            k, after = holder["hold"]
            gate.arm(k, after)
            counter[0] += 1
            t = asyncio.ensure_future(_tagged(1000 * (ei + 1) + 10 * ri + counter[0], a, op))
            running.append((t, a, op, "holder"))
            await _calm(loop, stop=lambda: gate.reached and not gate.effect_pending())
            if gate.reached:
                hd = gate.held
                say(f"{op_text(a, op)} is started; its file operation {k} ({hd['name']}) "
                    + ("took effect, its result is not delivered yet" if after else "is queued, not started yet"))
            else:
                say(f"{op_text(a, op)} is started; it has no file operation {k} to be held at (operations: {gate.ops.get(gate.target, [])})")
        quiet = None
        conts = rnd.get("contenders", [])
        for c in conts:
            a = actors[c["actor"]]
            op = a.effective(c["op"])
            if holder is None and len(conts) == 1 and op in LOAD_OPS:
                quiet = {"bytes": P.snapshot(a.path) if not os.path.isdir(a.path) else None, "pre_ops": P.reg_ops(a.nodes), "before": P.render_nodes(a.nodes),
                         "missing": not os.path.exists(a.path)}
            t = asyncio.ensure_future(perform(a, op))
            running.append((t, a, op, "contender"))
            say(f"{op_text(a, op)} is started" + (" while that operation is in flight" if holder is not None and gate.reached else ""))
            await _calm(loop)       # one after the other (each goes as far as it can): the threads of two contenders do not race
        for t, a, op, role in running:
            if role == "contender" and holder is not None:
                say(f"  {op_text(a, op)}: " + (f"-> {t.result()[:100]}" if t.done() else "waits"))
        if holder is not None:
            fate = gate.release()
            if gate.reached:
                say(f"the held file operation is let through ({fate})")
        done, pending = await asyncio.wait([t for t, *_ in running], timeout=GUARD) if running else (set(), set())
        for t in pending:
            t.cancel()
        if pending:
            await asyncio.wait(pending, timeout=GUARD)
        await _calm(loop)
        gate.plan = None
        for t, a, op, role in running:
            out = t.result() if t.done() and not t.cancelled() else "did not return"
            say(f"{op_text(a, op)} -> {out[:160]}")
            if op in LOAD_OPS:
                rec = {"episode": ei, "round": ri, "actor": a.name, "op": op, "role": role, "out": out,
                       "quiet": quiet if role == "contender" else None}
                if rec["quiet"] is not None:
                    rec["quiet"]["exists_after"] = os.path.exists(a.path)
                loads.append(rec)
            elif not out.startswith("ok"):
                notes.append(f"{op} of {a.name} in loop {ei + 1} ended in {out[:100]} (recorded, not judged by C14)")
    # the loop ends in good order: every context that is still open is left
    loop.gate = None
    for a in actors.values():
        if a.gw is not None and a.entered:
            try:
                async with asyncio.timeout(GUARD):
                    out = await perform(a, "exit")
            except TimeoutError:
                out = "did not return"
            say(f"{op_text(a, 'exit')} -> {out[:100]}")
            if out != "ok":
                notes.append(f"leaving the context of {a.name} at the end of loop {ei + 1} ended in {out[:100]} (recorded, not judged by C14)")
    await _calm(loop)


def run_history(h: dict) -> dict:
    """Run one history: every episode under a new event loop (asyncio.run), all in this process, on one directory."""
    d = P.fresh_path(".loops")
    os.mkdir(d)
    paths = [os.path.join(d, P.MAIN_NAME), os.path.join(d, OTHER_NAME)]
    trace: list[str] = []
    loads: list[dict] = []
    notes: list[str] = []
    try:
        for p, init in zip(paths, h["initial"]):
            if init["text"] is not None:
                with open(p, "w", encoding="utf-8") as f:
                    f.write(init["text"])
        trace.append("a directory; " + "; ".join(f"path {i} ({os.path.basename(p)}): {init['label']}" for i, (p, init) in enumerate(zip(paths, h["initial"]))))
        process_actors = {name: Actor(name, spec, paths) for name, spec in h["actors"].items() if spec["scope"] == "process"}
        for name, spec in h["actors"].items():
            trace.append(describe_actor(name, spec))
        for ei, ep in enumerate(h["episodes"]):
            trace.append(f"loop {ei + 1}: a new event loop is started (asyncio.run)")
            asyncio.run(run_episode(h, ei, ep, paths, process_actors, trace, loads, notes), loop_factory=LoopsLoop)
    finally:
        shutil.rmtree(d, ignore_errors=True)
    return {"trace": trace, "loads": loads, "notes": notes}


def load_failure(rec: dict) -> str | None:
    """C14 for one load of a history."""
    out = rec["out"]
    where = f"{'Gateway.__aenter__' if rec['op'] == 'enter' else 'Persistence.load'} of {rec['actor']} in event loop {rec['episode'] + 1} of the process"
    if out == "did not return":
        return f"{where} neither succeeded nor raised: it did not return although every file operation was let through"
    if not (out.startswith("ok ") or out.startswith("err persistenceRead")):
        return f"{where} raised something other than PersistenceReadError: {out}"
    q = rec.get("quiet")
    if q is not None:
        if q["missing"] and not out.startswith("ok "):
            return f"{where}: a missing persistence file is an error: {out}"
        if q["missing"] and not q.get("exists_after"):
            return f"{where}: a missing persistence file was not created"
        if q["bytes"] == b"" and out != "ok " + q["before"]:
            return f"{where}: an empty file did not load as an empty registry: {out}"
    return None


def history_failures(res: dict) -> list[str]:
    return [w for w in (load_failure(r) for r in res["loads"]) if w]


# ---- generator -------------------------------------------------------------------------------------------

ACTORS_2 = {
    "A": {"kind": "persistence", "path": 0, "registry": 1, "scope": "loop"},
    "B": {"kind": "persistence", "path": 0, "registry": 0, "scope": "loop"},
    "G": {"kind": "gateway", "path": 0, "registry": 2, "scope": "loop"},
    "H": {"kind": "gateway", "path": 0, "registry": 0, "scope": "loop"},
}


def hold_positions(n_save: int, n_load: int) -> list[tuple[str, int, bool]]:
    """(holder op, k, after): every file operation of a save, of a load, of entering (its load, then the scheduled
    save) and of leaving (the final save), before it starts / after it took effect."""
    out = []
    for op, n in (("save", n_save), ("load", n_load), ("enter", n_load + n_save), ("exit", n_save)):
        for k in range(1, n + 1):
            for after in (False, True):
                out.append((op, k, after))
    return out


def contended(holder_actor: str, op: str, k: int, after: bool, contenders: list[tuple[str, str]]) -> dict:
    return {"rounds": [{"holder": {"actor": holder_actor, "op": op, "hold": [k, after]}, "contenders": [{"actor": a, "op": o} for a, o in contenders]}]}


def plain(ops: list[tuple[str, str]]) -> dict:
    return {"rounds": [{"contenders": [{"actor": a, "op": o}]} for a, o in ops]}


def histories(seed: int, tier: str, rng, good: str, n_save: int, n_load: int) -> list[dict]:
    texts = initial_texts(good)
    labels = list(texts)
    out = []

    def init(label: str) -> dict:
        return {"label": label, "text": texts[label]}

    positions = hold_positions(n_save, n_load)
    i = seed
    # (a) systematic: every hold position x what is started meanwhile on the same path, the same contention under two
    #     successive event loops - directly, with a quiet loop in between, after a quiet loop; quick tier rotates the
    #     shape, the scope of the objects and the initial file, thorough takes all shapes
    for op, k, after in positions:
        hactor = "A" if op in ("save", "load") else "G"
        for cop, cactor in (("load", "B"), ("enter", "H"), ("save", "B")):
            shapes = (0, 1, 2) if tier == "thorough" else (i % 3,)
            for shape in shapes:
                i += 1
                x = contended(hactor, op, k, after, [(cactor, cop)])
                op2, k2, after2 = positions[(i * 7) % len(positions)]
                y = contended("A" if op2 in ("save", "load") else "G", op2, k2, after2, [("B", "load")])
                eps = [[x, x], [x, plain([("B", "load"), ("A", "save"), ("H", "enter")]), y], [plain([("A", "load"), ("G", "enter")]), x, x]][shape]
                actors = {n: dict(s) for n, s in ACTORS_2.items()}
                if i % 4 == 0:
                    for n in actors:
                        actors[n]["scope"] = "process"
                lab = "valid" if i % 3 else labels[(i // 3) % len(labels)]
                out.append({"label": f"loops: {op} held at file operation {k} ({'after' if after else 'before'}) while {cop} is started; "
                                     f"{len(eps)} event loops (shape {shape}); file {lab}; objects per {'process' if i % 4 == 0 else 'loop'}",
                            "actors": actors, "initial": [init(lab), init("missing")], "episodes": eps})
    # (b) random: two to four loops, one to three rounds each, one or two paths, objects of either scope
    for j in range(40 if tier == "quick" else 600):
        actors = {}
        for n in "ABGH":
            actors[n] = {"kind": "persistence" if n in "AB" else "gateway", "path": 0 if rng.random() < 0.8 else 1, "registry": rng.randint(0, 2),
                         "scope": rng.choice(["loop", "process"])}
        eps = []
        for _ in range(rng.randint(2, 4)):
            rounds = []
            for _ in range(rng.randint(1, 3)):
                names = rng.sample("ABGH", rng.randint(2, 3))
                rnd: dict = {"contenders": []}
                if rng.random() < 0.7:
                    ha = names.pop()
                    hop, k, after = rng.choice([p for p in positions if (p[0] in ("save", "load")) == (ha in "AB")])
                    rnd["holder"] = {"actor": ha, "op": hop, "hold": [k, after]}
                else:
                    names = names[:1]
                for n in names:
                    rnd["contenders"].append({"actor": n, "op": rng.choice(["load", "load", "save"] if n in "AB" else ["enter", "enter", "load", "save", "exit"])})
                rounds.append(rnd)
            eps.append({"rounds": rounds})
        out.append({"label": f"loops: random history {j}", "actors": actors,
                    "initial": [init(rng.choice(labels)), init(rng.choice(labels))], "episodes": eps})
    return out


async def probe_ops() -> tuple[int, int]:
    """How many file operations one save / one load of an existing file submit (3 and 3 in the code as it stands)."""
    loop = asyncio.get_running_loop()
    gate = loop.gate = P.FileGate()
    path = P.fresh_path()
    try:
        a = Actor("probe", {"kind": "persistence", "path": 0, "registry": 1, "scope": "loop"}, [path])
        await asyncio.ensure_future(_tagged(1, a, "save"))
        await asyncio.ensure_future(_tagged(2, a, "load"))
    finally:
        loop.gate = None
        if os.path.exists(path):
            os.unlink(path)
    return len(gate.ops.get(1, [])), len(gate.ops.get(2, []))


# ---- the part of C14's run ------------------------------------------------------------------------------


def confirm_alone(h: dict) -> bool | None:
    """Does the history fail in a process of its own (nothing run before it)?  None: could not be decided."""
    try:
        proc = subprocess.run([sys.executable, "-m", "harness.props.persist_loops"], input=json.dumps([h]).encode(), cwd=lib.VERIF,
                              capture_output=True, timeout=300, check=False)
        return bool(json.loads(proc.stdout.decode())[0])
    except Exception:  # noqa: BLE001
        return None


def loop_checks(ctx, corr, batch, good: bytes) -> list:
    """Runs the histories, judges every load, queues the model's questions about the loads that ran alone."""
    rng = lib.rng_for(ctx.seed, "c14-loops")
    n_save, n_load = asyncio.run(probe_ops(), loop_factory=LoopsLoop)
    corr.count(f"loops: file operations per save = {n_save}, per load = {n_load}")
    hs = histories(ctx.seed, ctx.tier, rng, good.decode("utf-8"), max(1, min(n_save, 6)), max(1, min(n_load, 6)))
    pending = []
    confirmed = False
    t0 = time.monotonic()
    for hi, h in enumerate(hs):
        res = run_history(h)
        corr.count("loops: histories (several event loops in one process, shared paths)")
        corr.count("loops: event loops", len(h["episodes"]))
        for n in res["notes"]:
            corr.count("loops: a save / exit that failed (recorded, not judged)")
            if len(corr.notes) < 40:
                corr.notes.append("loops: " + n)
        overlapped = 0
        for rec in res["loads"]:
            corr.count(f"loops: {'Gateway.__aenter__' if rec['op'] == 'enter' else 'Persistence.load'} as {rec['role']}")
            corr.count("loops outcome:" + (" ".join(rec["out"].split(" ")[:3]) if not rec["out"].startswith("ok") else "ok"))
            overlapped += rec["role"] != "preparation" and rec["quiet"] is None
        fails = history_failures(res)
        if fails:
            case = {"scenario": h["label"], "steps": res["trace"], "loops": [h]}
            if not confirmed and hi > 0:
                confirmed = True
                alone = confirm_alone(h)
                if alone is False:
                    # it needs what earlier histories of this run left in the process: the replay runs them all
                    case["loops"] = hs[:hi + 1]
                    case["needs_the_histories_before_it"] = True
                case["fails_in_a_process_of_its_own"] = alone
            corr.violate(fails[0], case)
        corr.case(("loops", h["label"], json.dumps(h["episodes"], sort_keys=True)), overlapped > 0, {"label": h["label"], "steps": res["trace"][-6:]})
        if ctx.model_ok:
            for rec in res["loads"]:
                q = rec["quiet"]
                if q is None or rec["out"] == "did not return":
                    continue
                if q["missing"]:
                    state, val = "missing", None
                elif q["bytes"] is None:
                    continue
                else:
                    state, val = P.classify(q["bytes"])
                if state == "value" and (P.json_has_surrogate(val) or P.json_depth(val) > 700):
                    continue
                for op in q["pre_ops"]:
                    batch.ask(op)
                hnd = batch.ask("loadinto " + P.json_tokens(val)) if state == "value" else batch.ask("file " + state)
                pending.append((h, res, rec, hnd))
    corr.notes.append(f"loops: {len(hs)} histories of a process (several event loops, shared persistence paths) ran in {time.monotonic() - t0:.1f}s")
    return pending


def loop_compare(corr, batch, pending: list) -> None:
    for h, res, rec, hnd in pending:
        mo = batch[hnd].partition(" created=")[0]
        corr.count("loops: loads with nothing else in flight compared with the model")
        if mo != rec["out"]:
            corr.disagree("load outcome in a process with a past (model: the outcome of loading the bytes the file held)",
                          {"scenario": h["label"], "steps": res["trace"], "loops": [h], "load": {k: rec[k] for k in ("episode", "round", "actor", "op")},
                           "bytes": (rec["quiet"]["bytes"] or b"")[:600].decode("utf-8", "replace"), "into": rec["quiet"]["before"],
                           "impl": rec["out"][:800], "model": mo[:800]})


# ---- replay ------------------------------------------------------------------------------------------------


def replay(case: dict) -> None:
    hs = case["loops"]
    print(f"{len(hs)} history(ies), run one after the other in this process; each episode under a new event loop")
    bad = 0
    for h in hs:
        res = run_history(h)
        print("history:", h["label"])
        for s in res["trace"]:
            print("   ", s)
        for w in history_failures(res):
            bad += 1
            print("oracle: VIOLATED -", w)
    print("oracle:", "violated" if bad else "holds on this tree (every load succeeded or raised PersistenceReadError)")


if __name__ == "__main__":
    # a list of histories on stdin -> per history, the list of oracle failures (used to confirm a finding in a process of its own)
    print(json.dumps([history_failures(run_history(h)) for h in json.load(sys.stdin)]))
