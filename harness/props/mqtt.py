"""C18: the MQTT transport.  Implementation vs Lean model vs an independent restatement.

Two ways of running the real code:
* ``MemTransport``: an ``MQTTTransport`` subclass implementing the four documented hooks in memory; the
  harness plays the broker through ``_receive`` / ``_receive_error``;
* ``MQTTClient`` with ``aiomysensors.transport.mqtt.AsyncioClient`` replaced by ``FakeClient`` (an
  aiomqtt-like client: async context manager, ``publish``, ``subscribe``, a ``messages`` iterator fed
  from a queue the harness controls, able to raise ``MqttError`` and to stay pending at disconnect,
  delivering binary payloads).

Part E runs ONE ``MQTTClient`` through several connect / disconnect cycles (``Broker``: a stand-in for the aiomqtt
client class that makes a new ``FakeClient`` connection per call) and compares every step with the object model
(``Model/MqttObject.lean``, driver commands ``onew`` / ``oconnect`` / ``odisconnect`` / ``oev`` / ``oread`` / ``owrite`` /
``osub``).

Part F makes the four documented hooks of an ``MQTTTransport`` (``FaultyMem``) fail with exceptions of ANY class (library
errors, MqttError, builtin and custom Exception subclasses, CancelledError, a BaseException subclass) at every position -
every subscribe call, before / together with / after the other calls, the clean-up itself - and part E does the same to
the aiomqtt calls of ``MQTTClient``.  In every part the harness's broker forwards a message only to a connection that
has a matching subscription in place, so a ``connect()`` that reports success without all five subscriptions shows as
a command that is never read (delivery probes), and a ``connect()`` that raises must have closed what it opened.

Nothing here can block for ever: every call into the implementation that may suspend runs as a task that
is polled (``guarded``) or waited for with a time-out.
"""

from __future__ import annotations

import asyncio
import itertools
import json
from types import SimpleNamespace

from .. import gen, lib
from ..lib import Corr, enc
from . import codec

lib.use_repo()

from aiomqtt import MqttError  # noqa: E402

import aiomysensors.transport.mqtt as mqtt_mod  # noqa: E402
from aiomysensors.exceptions import TransportError, TransportFailedError  # noqa: E402
from aiomysensors.model.message import Message  # noqa: E402

DRIVER = "DriverMqtt.lean"
# ---- the prefix alphabet ------------------------------------------------------------------------
#
# A topic prefix is a CONFIGURATION value (constructor argument); the gateway device publishes under exactly the
# configured in-prefix and listens under exactly the configured out-prefix, so every part below builds its topics, its
# oracle and the model's input from the prefix AS CONFIGURED, never from what the transport object stores.
# MQTT 3.1.1 section 4.7: a topic name is any UTF-8 text of >= 1 character without U+0000 and without the wildcards
# "+" and "#"; "/" separates levels and a leading, trailing or doubled "/" makes a real (zero-length) level
# ("/a", "a", "a/" and "a//b" vs "a/b" are all different topics); names are case-sensitive, spaces count, no
# normalisation of any kind is applied.  "<prefix>/n/c/cmd/ack/type" is a legal topic for the empty prefix as well.

# 1-6 levels, and characters that are ordinary in a topic name but special elsewhere (regular expressions, format
# strings, shells)
PLAIN_PREFIXES = ["a", "a/b", "a/b/c", "mygateway1-out", "mygateway1-in", "gw/1/2/3/4/5", "x-y_z/7",
                  "home (upstairs)/gw", "sensors[1]/out", "what?/out", "a.b*c/{0}", "x^y|z$/%s", "back\\slash/é"]
# (class, prefix): each class is something a "tidying" of the configured value (strip / rstrip / lstrip of dividers or
# blanks, collapsing dividers, dropping empty levels, case folding, unicode normalisation, truncation, splitting and
# re-joining) would change, and with it the topics the transport listens on / publishes to
EDGE_PREFIXES = [
    ("leading-divider", "/gw"), ("leading-divider", "/site/floor1/gw-out"),
    ("trailing-divider", "gw/"), ("trailing-divider", "site/floor1/gw-in/"),
    ("both-dividers", "/gw/"), ("both-dividers", "/site/gw/"),
    ("doubled-divider", "site//gw"), ("doubled-divider", "//gw"), ("doubled-divider", "gw//"),
    ("doubled-divider", "a///b//c"),
    ("only-dividers", "/"), ("only-dividers", "//"), ("only-dividers", "////"),
    ("empty", ""),
    ("blank", " "), ("blank", " gw"), ("blank", "gw "), ("blank", " site / gw "), ("blank", "my gateway/out put"),
    ("blank", "gw\t"), ("blank", "\tgw"), ("blank", "gw\n"), ("blank", "\u00a0gw\u00a0"), ("blank", "\u3000gw/x\u2003"),
    ("blank-and-divider", " /gw"), ("blank-and-divider", "gw/ "), ("blank-and-divider", "/ /"),
    ("case", "GW/Out"), ("case", "gw/OUT"), ("case", "Straße/İ"),
    ("unicode", "température/é"), ("unicode", "e\u0301/\u00e9"), ("unicode", "ＧＷ/①"), ("unicode", "שלום/بوابة"),
    ("unicode", "\U0001f321/\U0001f3e0\U0001f3e0"), ("unicode", "网关/出"), ("unicode", "\u200bgw\ufeff"),
    ("looks-like-levels", "1/2/3/4/5"), ("looks-like-levels", "0"), ("looks-like-levels", "gw/255/255/3/0/11"),
    ("delimiter", "a;b/c"), ("delimiter", ";"), ("dollar", "$SYS/gw"), ("quotes", "it's/\"gw\""), ("percent", "gw%2Fout"),
    ("dots", "./../gw"), ("dots", "."),
    ("many-levels", "/".join(f"l{i}" for i in range(40))), ("long", "p" * 300), ("long", "/".join(["seg" * 10] * 12)),
]
# used by the configured-prefix part only (every operation on them carries the whole text to the model)
HUGE_PREFIXES = [("very-long", "x" * 2000), ("very-long", "/".join(["lvl"] * 500)), ("very-long", "/" * 400 + "gw/")]
# thorough tier: up to the limit of the protocol (a topic is at most 65535 bytes of UTF-8)
HUGE_PREFIXES_THOROUGH = [("very-long", "é\U0001f321" * 5000), ("very-long", "/".join(["l"] * 16000)), ("very-long", "x" * 65000)]
PREFIXES = PLAIN_PREFIXES + [p for _, p in EDGE_PREFIXES]
LEVEL_ALPHABET = ["", "", "a", "gw", "mys-out", "mys-in", "home", "1", "255", " ", "x y", "é", "Ω", "\U0001f321", "GW", "$SYS",
                  "a;b", "seg" * 20, "-", "_", ".", "0"]


def prefix_class(p: str) -> str:
    """The classes a prefix falls in (distribution report)."""
    out = []
    if p == "":
        return "empty"
    if p.startswith("/"):
        out.append("leading-divider")
    if p.endswith("/"):
        out.append("trailing-divider")
    if "//" in p:
        out.append("doubled-divider")
    if p != p.strip() or " " in p:
        out.append("blank")
    if not p.isascii():
        out.append("non-ascii")
    if len(p) > 100:
        out.append("long")
    return "+".join(out) or f"plain-{min(p.count('/') + 1, 6)}-levels"


def random_prefix(rng) -> str:
    """1-9 levels drawn from the level alphabet (zero-length levels included, so leading / trailing / doubled dividers
    come up by themselves), now and then random characters of the whole legal range."""
    levels = []
    for _ in range(rng.choice([1, 1, 2, 2, 3, 3, 4, 5, 6, 9])):
        if rng.random() < 0.25:
            levels.append("".join(chr(rng.choice([rng.randint(0x20, 0x7e), rng.randint(0xa0, 0x2ff), rng.randint(0x4e00, 0x4e80),
                                                  rng.randint(0x1f300, 0x1f340)])) for _ in range(rng.randint(1, 6)))
                          .replace("+", "p").replace("#", "h").replace("/", "s"))
        else:
            levels.append(rng.choice(LEVEL_ALPHABET))
    return "/".join(levels)


def prefix_pool(seed) -> list:
    """The prefixes of one run: the fixed classes, then random ones of the run's seed.  The first three stay the
    plain ones (written scenarios use them)."""
    rng = lib.rng_for(seed, "c18-prefixes")
    pool = list(PREFIXES)
    while len(pool) < len(PREFIXES) + 16:
        p = random_prefix(rng)
        if p not in pool:
            pool.append(p)
    return pool


# the prefixes the generators draw from; `run_c18` replaces it by `prefix_pool(seed)`
POOL = list(PREFIXES)


def pick(k: int) -> str:
    """The k-th prefix of the pool, round after round; a long one (every operation on it carries its whole text to the
    model) takes its turn in one round out of eight and gives it to a short one otherwise."""
    p = POOL[k % len(POOL)]
    if len(p) > 100 and (k // len(POOL)) % 8 != 0:
        short = [q for q in POOL if len(q) <= 100]
        p = short[k % len(short)]
    return p
PAYLOAD_CLASSES = [
    ("empty", ""), ("semicolon", "55.7;13.0;18"), ("slash", "a/b/c"), ("nonascii", "température °C"),
    ("hash", "#"), ("plus", "+"), ("wild", "a/+/#"), ("only-delim", ";"), ("astral", "\U0001f321 ok"),
    ("plain", "on"),
]
GOOD_BYTES = [b"on", "55.7;13.0;18".encode(), "température".encode(), b"", b"a/b", b"+/#"]
BAD_BYTES = [b"\xff\xfe", b"\xc3", b"\xed\xa0\x80", b"ok\x80"]
SESSION_FIELDS = [(1, 2, 1, 0, 2), (0, 255, 3, 0, 2), (254, 0, 0, 1, 6), (7, 255, 4, 0, 0), (1, 3, 2, 0, 49)]


# ---- what a hook / an aiomqtt call may raise --------------------------------------------------
#
# The four hooks of MQTTTransport are an extension point and aiomqtt sits on sockets and time-outs: what they raise
# is not limited to the library's own errors.  Faults are injected by class NAME (so that a case is plain JSON).


class IntegrationError(Exception):
    """An error type of the code that implements the hooks (not known to the library)."""


class BrokerGone(ConnectionError):
    """A custom subclass of a builtin error."""


class HarnessAbort(BaseException):
    """A BaseException that is not an Exception and that asyncio lets a task end with (KeyboardInterrupt and
    SystemExit are re-raised through the event loop by Task.__step: they end the whole loop, not the call)."""


FAULTS: dict = {
    "TransportError": TransportError, "TransportFailedError": TransportFailedError, "MqttError": MqttError,
    "TimeoutError": TimeoutError, "OSError": OSError, "ConnectionResetError": ConnectionResetError,
    "RuntimeError": RuntimeError, "ValueError": ValueError, "KeyError": KeyError, "TypeError": TypeError,
    "AttributeError": AttributeError, "IndexError": IndexError, "UnicodeDecodeError": UnicodeDecodeError,
    "Exception": Exception, "IntegrationError": IntegrationError, "BrokerGone": BrokerGone,
    "CancelledError": asyncio.CancelledError, "HarnessAbort": HarnessAbort,
}
FAULT_NAMES = list(FAULTS)
LIBRARY_FAULTS = ("TransportError", "TransportFailedError")
# what an aiomqtt call is made to raise: anything but the library's own errors (aiomqtt cannot know them)
CLIENT_FAULT_NAMES = [n for n in FAULT_NAMES if n not in LIBRARY_FAULTS]
# the classes of the Lean vocabulary (Model/Vocab.lean: PyExn); a class outside it is represented in the model by its
# nearest ancestor inside it (the model looks at a class only through `except` / `suppress` clauses over the
# vocabulary, and those cannot tell a class from such an ancestor); a class without one is judged by the oracle only
MODEL_CLASSES = {"KeyError", "ValueError", "TypeError", "AttributeError", "OverflowError", "RecursionError",
                 "UnicodeDecodeError", "JSONDecodeError", "OSError", "FileNotFoundError", "ValidationError",
                 "LimitOverrunError", "IncompleteReadError", "CancelledError", "MqttError", "RuntimeError", "IndexError",
                 "Exception"}


# what `_receive_error(error: Exception)` may be handed
HOOK_ERROR_NAMES = [n for n, c in FAULTS.items() if issubclass(c, Exception)]


def make_exc(name: str) -> BaseException:
    cls = FAULTS[name]
    if cls is UnicodeDecodeError:
        return UnicodeDecodeError("utf-8", b"\xff", 0, 1, "injected")
    return cls(f"injected {name}")


def model_class(name):
    """The name under which the model knows an outcome ('ok' or a class name); None: not representable."""
    if name in (None, "ok"):
        return "ok"
    for base in FAULTS[name].__mro__:
        if base.__name__ in MODEL_CLASSES:
            return base.__name__
    return None


def model_res(res: str) -> str:
    """An observed result with the class of a foreign exception replaced by its model representative."""
    head, sep, cls = res.partition(":")
    if head == "foreign" and cls in FAULTS and model_class(cls):
        return head + sep + model_class(cls)
    return res


def encb(b: bytes) -> str:
    return "-" if not b else ",".join(format(x, "x") for x in b)


def topic_of(prefix: str, fields) -> str:
    return prefix + "/" + "/".join(str(x) for x in fields)


DEAF = ("connect() returned normally but a broker message on '<in-prefix>/node/child/command/ack/type' with command 0-4 "
        "is never received: no matching subscription is in place (silently deaf)")


def mqtt_match(flt: str, topic: str) -> bool:
    """MQTT topic-filter matching ('+' one level, '#' the rest), written for the oracle."""
    fl, tl = flt.split("/"), topic.split("/")
    for i, f in enumerate(fl):
        if f == "#":
            return i == len(fl) - 1
        if i >= len(tl):
            return False
        if f != "+" and f != tl[i]:
            return False
    return len(fl) == len(tl)


# ---- running the implementation --------------------------------------------------------------


async def settle(n: int = 8) -> None:
    for _ in range(n):
        await asyncio.sleep(0)


def outcome_of(task: asyncio.Task):
    """('ok', value) | ('transport', class) | ('foreign', class) for a finished task."""
    if task.cancelled():
        return ("foreign", "CancelledError")
    exc = task.exception()
    if exc is None:
        return ("ok", task.result())
    if isinstance(exc, TransportError):
        return ("transport", type(exc).__name__)
    return ("foreign", type(exc).__name__)


_hangs = 0


async def guarded(coro, timeout: float = 1.0):
    """Run a call into the implementation as its own task; never raises, never hangs.
    Everything is in memory, so a call that is not finished after the loop has settled is stuck; after a
    few such calls the grace period shrinks so that a broken tree cannot make the run slow."""
    global _hangs
    task = asyncio.ensure_future(coro)
    await settle(4)
    if not task.done():
        await asyncio.wait([task], timeout=timeout if _hangs < 3 else 0.02)
    if not task.done():
        _hangs += 1
        task.cancel()
        await asyncio.wait([task], timeout=timeout)
        return ("hang", None)
    return outcome_of(task)


class MemTransport(mqtt_mod.MQTTTransport):
    """The documented extension point: four hooks, everything kept in memory."""

    def __init__(self, in_prefix: str, out_prefix: str) -> None:
        super().__init__(in_prefix=in_prefix, out_prefix=out_prefix)
        self.published: list = []
        self.subscribed: list = []          # log of the subscribe calls that returned
        self.active: list = []              # the broker's view: filters in place on the open connection
        self.connected = False

    async def _connect(self) -> None:
        self.connected = True

    async def _disconnect(self) -> None:
        self.connected = False
        self.active.clear()

    async def _publish(self, topic: str, payload: str, qos: int) -> None:
        self.published.append((topic, payload, qos))

    async def _subscribe(self, topic: str, qos: int) -> None:
        self.subscribed.append((topic, qos))
        self.active.append(topic)

    def broker_message(self, topic: str, payload: str) -> bool:
        """What a broker does with a message published on `topic`: it forwards it to this client only over an open
        connection with a matching subscription in place.  Returns whether it was forwarded."""
        if not self.connected or not any(mqtt_match(f, topic) for f in self.active):
            return False
        self._receive(topic, payload)  # noqa: SLF001  documented hook
        return True


class FakeMessages:
    def __init__(self, queue: asyncio.Queue) -> None:
        self._queue = queue

    def __aiter__(self):
        return self

    async def __anext__(self):
        item = await self._queue.get()       # stays pending until the harness feeds something
        if isinstance(item, BaseException):
            raise item
        return item


class FakeClient:
    """Stands in for aiomqtt.Client."""

    def __init__(self, script: dict) -> None:
        self.script = script
        self.ctor = None
        self.queue: asyncio.Queue = asyncio.Queue()
        self.published: list = []
        self.subscribed: list = []          # log of the subscribe calls that returned
        self.active: list = []              # the broker's view: filters in place on this connection while it is open
        self.sub_calls = 0
        self.entered = 0
        self.exited = 0

    def __call__(self, *args, **kwargs):
        self.ctor = (args, kwargs)
        return self

    def _fault(self, key: str) -> None:
        """script[key]: None / 'ok', or the name of the class the call raises (FAULTS)."""
        name = self.script.get(key)
        if name not in (None, "ok"):
            raise make_exc(name)

    async def __aenter__(self):
        await asyncio.sleep(0)
        self._fault("aenter")
        self.entered += 1
        return self

    async def __aexit__(self, *exc):
        await asyncio.sleep(0)
        self.exited += 1
        self.active.clear()      # clean session: the broker forgets the subscriptions of a closed connection
        self._fault("aexit")

    async def publish(self, topic, payload=None, qos=0, retain=False, **kwargs):
        await asyncio.sleep(0)
        self._fault("publish")
        self.published.append((topic, payload, qos, retain))

    async def subscribe(self, topic, qos=0, **kwargs):
        """script['subscribe']: None; k (the calls fail with MqttError once k subscriptions exist); or a list with the
        outcome ('ok' / class name) of the 1st, 2nd, ... call on this connection (calls beyond it succeed)."""
        k = self.sub_calls
        self.sub_calls += 1
        await asyncio.sleep(0)
        fail = self.script.get("subscribe")
        if isinstance(fail, list):
            if k < len(fail) and fail[k] not in (None, "ok"):
                raise make_exc(fail[k])
        elif fail is not None and len(self.subscribed) >= fail:
            raise MqttError("subscribe failed")
        self.subscribed.append((topic, qos))
        self.active.append(topic)

    @property
    def messages(self):
        return FakeMessages(self.queue)

    def feed(self, topic: str, payload: bytes) -> bool:
        """A message published on `topic` at the broker: forwarded to this connection only if a subscription that is in
        place matches it (as a broker does).  Returns whether it was forwarded."""
        if not any(mqtt_match(f, topic) for f in self.active):
            return False
        self.queue.put_nowait(SimpleNamespace(topic=SimpleNamespace(value=topic), payload=payload))
        return True

    def feed_error(self) -> None:
        self.queue.put_nowait(MqttError("connection lost"))


def make_client(in_prefix: str, out_prefix: str, script: dict):
    fake = FakeClient(script)
    mqtt_mod.AsyncioClient = fake
    client = mqtt_mod.MQTTClient("broker.invalid", 1883, in_prefix=in_prefix, out_prefix=out_prefix)
    return client, fake


CTOR = "constructing the transport with a legal topic prefix raised "


def construct(corr: Corr, rec: dict, factory):
    """Build a transport as an application does.  Every prefix of the alphabet is a legal topic prefix, so a
    constructor that raises is judged (nothing the property promises holds for that configuration), not a crash of the
    harness.  Returns None then."""
    try:
        return factory()
    except Exception as e:  # noqa: BLE001
        corr.violate(CTOR + type(e).__name__, {**rec, "error": repr(e)[:300]})
        return None


def task_state(client) -> str:
    t = getattr(client, "_incoming_task", None)
    if t is None:
        return "none"
    if not t.done():
        return "w"
    if t.cancelled():
        return "CancelledError"
    exc = t.exception()
    return "ok" if exc is None else type(exc).__name__


async def leftover_tasks() -> int:
    await settle(2)
    cur = asyncio.current_task()
    left = [t for t in asyncio.all_tasks() if t is not cur and not t.done()]
    for t in left:
        t.cancel()
    if left:
        await asyncio.wait(left, timeout=1)
    return len(left)


# ---- part A: topic <-> line mapping ----------------------------------------------------------


def mapping_cases(ctx, rng):
    cases = []
    for c in lib.load_corpus("C18"):
        if c.get("kind") == "write":
            cases.append({"version": c.get("version", "2.2"), "out": c["out_prefix"], "in": c["in_prefix"],
                          "fields": tuple(c["fields"]), "payload": c["payload"], "label": "corpus"})
    msgs = [m for m in codec.wf_messages(rng, ctx.tier) if codec.cross_ok(m[1], m[2], m[4])]
    for i, m in enumerate(msgs):
        if i % 3 == 2:
            label, p = gen.payload(rng)
            if not gen.is_c01_payload(p):
                continue
        else:
            label, p = PAYLOAD_CLASSES[(i // 3 + i // 7) % len(PAYLOAD_CLASSES)]
        cases.append({"version": lib.VERSIONS[i % 5], "out": pick(i),
                      "in": pick(5 * i + i // len(POOL) + 3), "fields": m, "payload": p,
                      "label": label})
    return cases


async def run_mapping(corr: Corr, cases: list, schemas: dict, n_client: int):
    ops, checks = [], []
    for idx, case in enumerate(cases):
        n, c, cmd, ack, t = case["fields"]
        p = case["payload"]
        rec = {k: case[k] for k in ("version", "out", "in", "payload")} | {"kind": "write", "fields": list(case["fields"])}
        sch = schemas[case["version"]]
        line = sch.dump(Message(n, c, cmd, ack, t, p))
        want_pub = (f"{case['out']}/{n}/{c}/{cmd}/{ack}/{t}", p, ack)
        want_line = f"{n};{c};{cmd};{ack};{t};{p}"
        use_client = idx < n_client or case["label"] == "corpus"
        variants = []
        mem = construct(corr, {**rec, "transport": "mem"}, lambda: MemTransport(case["in"], case["out"]))
        if mem is not None:
            variants.append(("mem", mem, None))
        if use_client:
            made = construct(corr, {**rec, "transport": "client"}, lambda: make_client(case["in"], case["out"], {}))
            if made is not None:
                variants.append(("client", made[0], made[1]))
        impl_pub = impl_line = None
        for kind, tr, fake in variants:
            vrec = {**rec, "transport": kind}
            if kind == "client":
                r = await guarded(tr.connect())
                if r[0] != "ok":
                    corr.violate("connect raised with a healthy broker", {**vrec, "got": repr(r)})
                    continue
            r = await guarded(tr.write(line))
            if r[0] != "ok":
                corr.violate("write of a well-formed message raised " + str(r[1] or r[0]), {**vrec, "line": line, "got": repr(r)})
            else:
                if kind == "mem":
                    pubs = tr.published
                else:
                    pubs = [(tp, "" if pl is None else pl, q) for tp, pl, q, _ in fake.published]
                if pubs != [want_pub]:
                    corr.violate("publish is not (<out-prefix>/node/child/command/ack/type, payload, qos=ack)",
                                 {**vrec, "published": repr(pubs), "want": repr(want_pub)})
                elif kind == "mem":
                    impl_pub = pubs[0]
            # echo under the in-prefix
            echo_topic = topic_of(case["in"], case["fields"])
            deaf = False
            if kind == "mem":
                tr._receive(echo_topic, p)  # noqa: SLF001  documented hook
            else:
                if not fake.feed(echo_topic, p.encode()) and 0 <= cmd <= 4:
                    corr.violate(DEAF, {**vrec, "topic": echo_topic, "subscriptions": list(fake.active)})
                    deaf = True
                await settle()
            r = ("deaf", None) if deaf else await guarded(tr.read())
            if deaf:
                pass
            elif r != ("ok", want_line):
                corr.violate("echoed message is not read back as node;child;command;ack;type;payload",
                             {**vrec, "topic": echo_topic, "got": repr(r), "want": want_line})
            else:
                if kind == "mem":
                    impl_line = r[1]
                back = codec.impl_load(sch, r[1])
                if back != ("ok", (n, c, cmd, ack, t, p)):
                    corr.violate("message sent through MQTT and echoed does not decode to the same message",
                                 {**vrec, "decoded": repr(back)})
            if kind == "client":
                r = await guarded(tr.disconnect())
                if r[0] != "ok":
                    corr.violate("disconnect raised " + str(r[1] or r[0]), {**vrec, "got": repr(r)})
                left = await leftover_tasks()
                if left:
                    corr.violate("tasks left running after disconnect", {**vrec, "leftover": left})
                corr.count("mapping-through-client")
        ops.append(f"topic {enc(case['out'])} {enc(line)}")
        ops.append(f"line {enc(topic_of(case['in'], case['fields']))} {enc(p)}")
        checks.append((rec, impl_pub, impl_line))
        nontriv = (";" in p or "/" in p or not p.isascii() or p == "" or "#" in p or "+" in p
                   or "/" in case["out"] or "/" in case["in"] or ack == 1 or t < 0 or t > 255)
        corr.case(("map", case["out"], case["in"], n, c, cmd, ack, t, p), nontriv,
                  {**rec, "line": line, "published": list(want_pub)} if nontriv else None)
        corr.count(f"payload:{case['label']}")
        corr.count(f"out-prefix-levels:{case['out'].count('/') + 1}")
    return ops, checks


def compare_mapping(corr: Corr, checks, outs) -> None:
    for i, (rec, impl_pub, impl_line) in enumerate(checks):
        o_topic, o_line = outs[2 * i], outs[2 * i + 1]
        if impl_pub is not None:
            tok = o_topic.split(" ")
            model = (lib.dec(tok[1]), lib.dec(tok[2]), int(tok[3])) if tok[0] == "ok" and len(tok) == 4 else o_topic
            if model != impl_pub:
                corr.disagree("toTopic", {**rec, "impl": repr(impl_pub), "model": repr(model)})
        if impl_line is not None and lib.dec(o_line) != impl_line:
            corr.disagree("toLine", {**rec, "impl": impl_line, "model": lib.dec(o_line)})


def raw_mapping(corr: Corr, ctx, rng):
    """Arbitrary lines through the line -> topic mapping and arbitrary topics through the topic -> line mapping:
    model correspondence only (the property speaks about messages, not about malformed lines).  The two mappings are
    observed where the transport's contract shows them — what `write(line)` hands to the documented `_publish` hook,
    and what `read()` returns for a broker message handed to the documented `_receive` hook — not by calling the
    private helpers that compute them today (they may be methods, static methods, module functions or inlined: DESIGN
    13, false alarm 14)."""
    lines = [l for l, _ in codec.malformed_lines(rng, "quick") if not lib.has_surrogate(l) and len(l) < 200]
    rng.shuffle(lines)
    lines = lines[: (1500 if ctx.tier == "quick" else 12000)]
    lines += ["1;2;1;0;49;55.7;13.0;18\n", "1;2;1;0;49", "1;2;1;x;49;p", "1;2;1; 1 ;49;p", "a;b;c;1;e;f;g", "", ";;;;;",
              "1;2;1;١;49;p", "1;2;1;0;49;p \t\n", "1;2;1;-0;49;p", "1;2;1;1_0;49;p", "/;/;/;0;/;/"]
    topics = ["", "/", "a", "a/b", "1/2/3/4", "1/2/3/4/5", "p/1/2/3/4/5", "p/q/r/1/2/3/4/5", "//1//2/", "1/2/3/4/5/",
              "é/1/2/3/4/5", "a;b/1/2/3/4/5"]
    for _ in range(200 if ctx.tier == "quick" else 3000):
        k = rng.randint(0, 9)
        topics.append("/".join(rng.choice(["", "a", "1", "+", "255", "x;y", "é"]) for _ in range(k)))
    payloads = [rng.choice(["", "p", "5;6", "a/b"]) for _ in topics]
    ops, impl, timpl = [], [], []

    async def through_the_hooks():
        tr = MemTransport("in", "out/x")
        for l in lines:
            del tr.published[:]
            r = await guarded(tr.write(l))         # never raises, never hangs
            if r[0] == "ok":
                got = ("ok", tr.published[-1]) if len(tr.published) == 1 else ("published", len(tr.published))
            elif r == ("foreign", "ValueError"):
                got = ("valueerror",)
            else:
                got = (r[0], r[1])
            impl.append(got)
            ops.append(f"topic {enc('out/x')} {enc(l)}")
            corr.count(f"raw-line:{got[0]}")
        for tpc, pl in zip(topics, payloads):
            try:
                tr._receive(tpc, pl)  # noqa: SLF001  documented hook
            except Exception as e:  # noqa: BLE001
                timpl.append(f"<raised {type(e).__name__}>")
            else:
                r = await guarded(tr.read())       # a message that was not queued shows as a read that stays pending
                timpl.append(r[1] if r[0] == "ok" else (f"<raised {r[1]}>" if r[1] else "<nothing to read>"))
            ops.append(f"line {enc(tpc)} {enc(pl)}")
            corr.count("raw-topic:levels<5" if tpc.count("/") < 4 else "raw-topic:levels>=5")

    asyncio.run(through_the_hooks())
    return ops, (lines, impl, topics, timpl)


def compare_raw(corr: Corr, data, outs) -> None:
    lines, impl, topics, timpl = data
    for l, got, o in zip(lines, impl, outs):
        tok = o.split(" ")
        model = ("ok", (lib.dec(tok[1]), lib.dec(tok[2]), int(tok[3]))) if tok[0] == "ok" and len(tok) == 4 else (o,)
        if model != got:
            corr.disagree("toTopic on an arbitrary line", {"line": l, "impl": repr(got), "model": repr(model)})
    for tpc, got, o in zip(topics, timpl, outs[len(lines):]):
        if lib.dec(o) != got:
            corr.disagree("toLine on an arbitrary topic", {"topic": tpc, "impl": got, "model": lib.dec(o)})


# ---- part B: subscriptions -------------------------------------------------------------------


async def run_subscriptions(corr: Corr):
    ops, recs = [], []
    for prefix in POOL:
        for kind in ("mem", "client"):
            rec = {"kind": "subscribe", "in": prefix, "transport": kind}
            made = construct(corr, rec, lambda: (MemTransport(prefix, "out"), None) if kind == "mem" else make_client(prefix, "out", {}))
            if made is None:
                continue
            tr, fake = made
            r = await guarded(tr.connect())
            if r[0] != "ok":
                corr.violate("connect raised with a healthy broker", {**rec, "got": repr(r)})
                continue
            subs = list(tr.subscribed if kind == "mem" else fake.subscribed)
            filters = [f for f, _ in subs]
            # the model's matcher is compared with the oracle's on every (filter, topic) pair for the plain prefixes; for
            # the others on the tidied-up topics only (part G asks the model `subs` and `heard` for every prefix)
            full = prefix in PLAIN_PREFIXES
            for n, c, ack, t in [(1, 2, 0, 49), (0, 255, 1, 2), (255, 0, 0, -5), (254, 100, 1, 10**20)]:
                for cmd in range(-2, 8):
                    topic = f"{prefix}/{n}/{c}/{cmd}/{ack}/{t}"
                    hit = any(mqtt_match(f, topic) for f in filters)
                    if hit != (0 <= cmd <= 4):
                        corr.violate("subscriptions do not match exactly the topics with command 0-4",
                                     {**rec, "topic": topic, "matched": hit, "filters": filters})
                    if kind == "mem" and full:
                        for f in filters:
                            ops.append(f"match {enc(f)} {enc(topic)}")
                            recs.append(("match", f, topic, mqtt_match(f, topic)))
            if kind == "mem":
                # topics of another shape: model vs the oracle's matcher only
                other = [prefix, f"{prefix}/1/2/1/0", f"{prefix}/1/2/1/0/49/x", f"x{prefix}/1/2/1/0/49",
                         f"{prefix}//2/1/0/49", f"{prefix}/1/2/1/0/", f"{prefix}/+/+/1/+/+"] if full else []
                # the same prefix tidied up is another topic (MQTT 4.7.3)
                tidied = [f"{prefix.strip('/')}/1/2/1/0/49", f"/{prefix}/1/2/1/0/49", f"{prefix}//1/2/1/0/49",
                          f"{prefix.strip()}/1/2/1/0/49", f"{prefix.lower()}/1/2/1/0/49"] if len(prefix) <= 100 else []
                for topic in other + tidied:
                    for f in (filters if full else filters[1:2]):
                        ops.append(f"match {enc(f)} {enc(topic)}")
                        recs.append(("match", f, topic, mqtt_match(f, topic)))
                if full:
                    ops.append(f"subs {enc(prefix)}")
                    recs.append(("subs", prefix, subs, None))
            if kind == "client":
                r = await guarded(tr.disconnect())
                if r[0] != "ok":
                    corr.violate("connect followed by disconnect raised " + str(r[1] or r[0]), {**rec, "got": repr(r)})
                left = await leftover_tasks()
                if left:
                    corr.violate("tasks left running after disconnect", {**rec, "leftover": left})
            corr.case(("subs", prefix, kind), True, {**rec, "subscribed": subs})
            corr.count("subscription-sets")
    return ops, recs


def compare_subscriptions(corr: Corr, recs, outs) -> None:
    for rec, o in zip(recs, outs):
        if rec[0] == "match":
            if (o == "1") != rec[3]:
                corr.disagree("matchesFilter", {"filter": rec[1], "topic": rec[2], "oracle": rec[3], "model": o})
        else:
            model = []
            for tok in o.split(" "):
                f, _, q = tok.rpartition(":")
                model.append((lib.dec(f), int(q) if q != "indexerror" else q))
            if model != rec[2]:
                corr.disagree("subscriptions", {"in": rec[1], "impl": repr(rec[2]), "model": repr(model)})


# ---- part G: the prefixes as configured ------------------------------------------------------
#
# The application configures the two prefixes (constructor arguments); the gateway device publishes under exactly the
# configured in-prefix and listens under exactly the configured out-prefix.  For every prefix of the alphabet, as
# in-prefix and as out-prefix independently, on both transports: connect, then per command 0-4 a broker message on
# '<configured in-prefix>/n/c/cmd/ack/type' - the harness's broker matches it by the MQTT rules against the
# subscriptions the transport made - must be forwarded and read back as the line, and the write of the same message must be
# one publish on '<configured out-prefix>/n/c/cmd/ack/type'; then disconnect.  The model is given the configured
# prefixes too (`subs`, `heard`, `topic`, `line`).

# one message per command 0-4: (fields, payload)
PREFIX_MESSAGES = [[[12, 0, 0, 0, 6], "a;b;c"], [[1, 2, 1, 1, 2], "1"], [[3, 4, 2, 0, 24], ""], [[0, 255, 3, 0, 11], "sketch 1/2"],
                   [[254, 1, 4, 1, 0], "température °C"]]
SHOWN = 160


def shown(p: str) -> str:
    """A prefix as a report shows it (the replay file holds it whole)."""
    return p if len(p) <= SHOWN else f"{p[:60]}...({len(p)} characters)...{p[-40:]}"


def prefix_config_cases(ctx, pool: list, rng) -> list:
    """(in-prefix, out-prefix) pairs: every prefix of the pool and the very long ones once as the in-prefix and once as
    the out-prefix, paired by a shuffle of the run's seed (the two are independent settings); some with both the same;
    random pairs."""
    allp = pool + [p for _, p in HUGE_PREFIXES + (HUGE_PREFIXES_THOROUGH if ctx.tier != "quick" else [])]
    outs = list(allp)
    rng.shuffle(outs)
    pairs = list(zip(allp, outs))
    pairs += [(p, p) for j, p in enumerate(pool) if j % 6 == ctx.seed % 6]
    for _ in range(20 if ctx.tier == "quick" else 1500):
        pairs.append((rng.choice(pool) if rng.random() < 0.5 else random_prefix(rng),
                      rng.choice(pool) if rng.random() < 0.5 else random_prefix(rng)))
    seen, out = set(), []
    for pair in pairs:
        if pair not in seen:
            seen.add(pair)
            out.append({"kind": "prefix", "in_prefix": pair[0], "out_prefix": pair[1], "messages": PREFIX_MESSAGES})
    return out


async def run_prefix_configs(corr: Corr, cases: list):
    ops, recs = [], []
    for case in cases:
        pin, pout, msgs = case["in_prefix"], case["out_prefix"], case["messages"]
        obs = {}
        for kind in ("mem", "client"):
            rec = {"kind": "prefix", "transport": kind, "in_prefix": pin, "out_prefix": pout, "messages": msgs}
            # as an application does: the prefixes are constructor arguments
            made = construct(corr, rec, lambda: (MemTransport(in_prefix=pin, out_prefix=pout), None) if kind == "mem"
                             else make_client(pin, pout, {}))
            if made is None:
                continue
            tr, fake = made
            r = await guarded(tr.connect())
            if r[0] != "ok":
                corr.violate("connect raised with a healthy broker", {**rec, "got": repr(r)})
                continue
            subs = list(tr.subscribed if kind == "mem" else fake.subscribed)
            heard, lines, pubs_seen = [], [], []
            for fields, payload in msgs:
                n, c, cmd, ack, t = fields
                topic = topic_of(pin, fields)
                want_line = f"{n};{c};{cmd};{ack};{t};{payload}"
                fwd = tr.broker_message(topic, payload) if kind == "mem" else fake.feed(topic, payload.encode())
                heard.append(fwd)
                if not fwd:
                    lines.append(None)
                    if 0 <= cmd <= 4:
                        corr.violate(DEAF, {**rec, "topic": topic, "subscriptions": [f for f, _ in subs]})
                else:
                    await settle()
                    r = await guarded(tr.read())
                    lines.append(r[1] if r[0] == "ok" else None)
                    if r != ("ok", want_line):
                        corr.violate("broker message on '<in-prefix>/node/child/command/ack/type' is not read back as "
                                     "node;child;command;ack;type;payload", {**rec, "topic": topic, "got": repr(r), "want": want_line})
                before = len(tr.published if kind == "mem" else fake.published)
                r = await guarded(tr.write(want_line + "\n"))
                new = (tr.published if kind == "mem" else fake.published)[before:]
                new = [(x[0], "" if x[1] is None else x[1], x[2]) for x in new]
                pubs_seen.append(new[0] if r[0] == "ok" and len(new) == 1 else None)
                want_pub = (topic_of(pout, fields), payload, ack)
                if r[0] != "ok":
                    corr.violate("write of a well-formed message raised " + str(r[1] or r[0]), {**rec, "line": want_line, "got": repr(r)})
                elif new != [want_pub]:
                    corr.violate("publish is not (<out-prefix>/node/child/command/ack/type, payload, qos=ack)",
                                 {**rec, "line": want_line, "published": repr(new), "want": repr(want_pub)})
            r = await guarded(tr.disconnect())
            if r[0] != "ok":
                corr.violate("connect followed by disconnect raised " + str(r[1] or r[0]), {**rec, "got": repr(r)})
            left = await leftover_tasks()
            if left:
                corr.violate("tasks left running after disconnect", {**rec, "leftover": left})
            obs[kind] = (subs, heard, lines, pubs_seen)
            corr.count(f"configured-prefix-run:{kind}")
        ops.append(f"subs {enc(pin)}")
        for fields, payload in msgs:
            n, c, cmd, ack, t = fields
            ops.append(f"heard {enc(pin)} {enc(topic_of(pin, fields))}")
            ops.append(f"line {enc(topic_of(pin, fields))} {enc(payload)}")
            ops.append(f"topic {enc(pout)} {enc(f'{n};{c};{cmd};{ack};{t};{payload}' + chr(10))}")
        recs.append((case, obs))
        small = len(pin) <= SHOWN and len(pout) <= SHOWN
        corr.case(("prefix", pin, pout), True, {"kind": "prefix", "in_prefix": pin, "out_prefix": pout} if small else None)
        corr.count(f"in-prefix:{prefix_class(pin)}")
        corr.count(f"out-prefix:{prefix_class(pout)}")
    return ops, recs


def compare_prefix_configs(corr: Corr, recs, outs) -> None:
    pos = 0
    for case, obs in recs:
        k = len(case["messages"])
        mo = outs[pos: pos + 1 + 3 * k]
        pos += 1 + 3 * k
        msubs = []
        for tok in mo[0].split(" "):
            f, _, q = tok.rpartition(":")
            msubs.append((lib.dec(f) if f else f, int(q) if q.lstrip("-").isdigit() else q))
        mheard = [mo[1 + 3 * i] == "1" for i in range(k)]
        mlines = [lib.dec(mo[2 + 3 * i]) for i in range(k)]
        mpubs = []
        for i in range(k):
            tok = mo[3 + 3 * i].split(" ")
            mpubs.append((lib.dec(tok[1]), lib.dec(tok[2]), int(tok[3])) if tok[0] == "ok" and len(tok) == 4 else None)
        for kind, (subs, heard, lines, pubs) in obs.items():
            rec = {"kind": "prefix", "transport": kind, "in_prefix": case["in_prefix"], "out_prefix": case["out_prefix"],
                   "messages": case["messages"]}
            if subs != msubs:
                corr.disagree("subscriptions under the configured in-prefix", {**rec, "impl": repr(subs)[:2000], "model": repr(msubs)[:2000]})
            if heard != mheard:
                corr.disagree("which broker messages under the configured in-prefix are heard", {**rec, "impl": heard, "model": mheard})
            if [l for l, h in zip(lines, heard) if h] != [l for l, h in zip(mlines, heard) if h]:
                corr.disagree("toLine under the configured in-prefix", {**rec, "impl": repr(lines)[:2000], "model": repr(mlines)[:2000]})
            if pubs != mpubs:
                corr.disagree("toTopic under the configured out-prefix", {**rec, "impl": repr(pubs)[:2000], "model": repr(mpubs)[:2000]})


# ---- part C: reception sessions --------------------------------------------------------------


def interleavings(max_a: int, max_r: int):
    for a in range(max_a + 1):
        for r in range(max_r + 1):
            for pos in itertools.combinations(range(a + r), a):
                yield ["A" if i in pos else "R" for i in range(a + r)]


def session_cases(ctx, rng):
    """Sessions: a list of ops ['msg', fields, hexbytes] | ['err'] | ['read'], the transport kind, the
    in-prefix and whether closing the client fails."""
    out = []
    for c in lib.load_corpus("C18"):
        if c.get("kind") == "session":
            out.append({"transport": c["transport"], "in": c["in_prefix"], "ops": c["ops"], "aexit": c.get("aexit", "ok"),
                        "label": "corpus"})
    kinds = {"mem": ["good", "err"], "client": ["good", "bad", "err"]}
    k = 0
    for shape in interleavings(4, 4):
        a = shape.count("A")
        for transport in ("mem", "client"):
            if ctx.tier == "quick":
                assigns = [tuple("good" for _ in range(a))]
                for _ in range(1 if transport == "mem" else 3):
                    assigns.append(tuple(rng.choice(kinds[transport]) for _ in range(a)))
                assigns = sorted(set(assigns))
            else:
                assigns = list(itertools.product(kinds[transport], repeat=a))
            for assign in assigns:
                out.append(build_session(rng, transport, shape, assign, k, "exhaustive"))
                k += 1
    if ctx.tier != "quick":
        for i in range(3000):
            transport = "client" if i % 3 else "mem"
            n = rng.randint(5, 60)
            shape = [rng.choice("AAR") if rng.random() < 0.5 else rng.choice("ARR") for _ in range(n)]
            weights = kinds[transport] + ["good", "good", "good"] + (["bad"] if transport == "client" else [])
            assign = tuple(rng.choice(weights) for _ in range(shape.count("A")))
            out.append(build_session(rng, transport, shape, assign, k, "random-long"))
            k += 1
    return out


def build_session(rng, transport, shape, assign, k, label):
    ops, it = [], iter(assign)
    for s in shape:
        if s == "R":
            ops.append(["read"])
            continue
        kind = next(it)
        if kind == "err":
            # MemTransport: `_receive_error(error: Exception)` is handed whatever the hooks' implementation met
            ops.append(["err", rng.choice(HOOK_ERROR_NAMES)] if transport == "mem" and rng.random() < 0.6 else ["err"])
        else:
            payload = rng.choice(GOOD_BYTES if kind == "good" else BAD_BYTES)
            ops.append(["msg", list(rng.choice(SESSION_FIELDS)), payload.hex()])
    return {"transport": transport, "in": pick(k), "ops": ops,
            "aexit": "MqttError" if (transport == "client" and k % 4 == 3) else "ok", "label": label}


def expected_arrivals(transport: str, ops) -> list:
    """The property restated: one entry per received message or receive error, in arrival order; an
    undecodable payload is an error entry and reception goes on; after a broker error the connection is
    gone (MQTTClient), so nothing more is received."""
    out, connected = [], True
    for op in ops:
        if not connected:
            break
        if op[0] == "msg":
            n, c, cmd, ack, t = op[1]
            try:
                out.append(("m", f"{n};{c};{cmd};{ack};{t};" + bytes.fromhex(op[2]).decode()))
            except UnicodeDecodeError:
                out.append(("e",))
        elif op[0] == "err":
            # the error handed to `_receive_error` is what the read raises: a TransportError subclass is the entry
            # ("e",); any other class is delivered as it is, in its place in the order
            cls = op[1] if len(op) > 1 else "TransportFailedError"
            out.append(("e",) if issubclass(FAULTS[cls], TransportError) else ("foreign", cls))
            connected = transport != "client"
    return out


async def run_session(corr: Corr, sess: dict):
    """Returns the per-step observations [(delivered, pending, task state)] and the disconnect outcome."""
    transport, prefix, ops = sess["transport"], sess["in"], sess["ops"]
    rec = {"kind": "session", "transport": transport, "in_prefix": prefix, "ops": ops, "aexit": sess["aexit"]}
    made = construct(corr, rec, lambda: (MemTransport(prefix, "out"), None) if transport == "mem"
                     else make_client(prefix, "out", {"aexit": sess["aexit"]}))
    if made is None:
        return None
    tr, fake = made
    r = await guarded(tr.connect())
    if r[0] != "ok":
        corr.violate("connect raised with a healthy broker", {**rec, "got": repr(r)})
        return None
    reads: list[asyncio.Task] = []
    steps = []
    bad = False
    for i, op in enumerate(ops):
        if op[0] == "read":
            reads.append(asyncio.ensure_future(tr.read()))
        elif op[0] == "msg":
            topic, payload = topic_of(prefix, op[1]), bytes.fromhex(op[2])
            routed = tr.broker_message(topic, payload.decode()) if transport == "mem" else fake.feed(topic, payload)
            if not routed and not bad:
                corr.violate(DEAF, {**rec, "at_op": i, "topic": topic,
                                    "subscriptions": list(tr.active if transport == "mem" else fake.active)})
                bad = True
        elif transport == "mem":
            # the documented error hook takes whatever exception the implementation of the hooks met
            tr._receive_error(make_exc(op[1] if len(op) > 1 else "TransportFailedError"))  # noqa: SLF001
        else:
            fake.feed_error()
        await settle()
        delivered = []
        done_flags = [t.done() for t in reads]
        for t in reads:
            if not t.done():
                break
            o = outcome_of(t)
            delivered.append(("m", o[1]) if o[0] == "ok" else (("e",) if o[0] == "transport" else o))
        pending = len(reads) - len(delivered)
        steps.append((delivered, pending, task_state(tr) if transport == "client" else "w"))
        if bad:
            continue
        want = expected_arrivals(transport, ops[: i + 1])
        n_reads = len(reads)
        here = {**rec, "at_op": i, "delivered": repr(delivered), "arrivals": repr(want)}
        if any(done_flags[len(delivered):]):
            corr.violate("a later read completed before an earlier one", here)
            bad = True
        elif any(d[0] == "foreign" and d not in want for d in delivered):
            corr.violate("read raised something other than a TransportError (and other than the error handed to "
                         "_receive_error)", here)
            bad = True
        elif delivered != want[: len(delivered)]:
            corr.violate("reads did not deliver the arrivals in order, each exactly once", here)
            bad = True
        elif len(delivered) != min(n_reads, len(want)):
            corr.violate("an arrival was not delivered to a waiting read (reception ended silently or an entry was lost)", here)
            bad = True
    # disconnect at this point, whatever the receive task is doing
    state_before = task_state(tr) if transport == "client" else "w"
    r = await guarded(tr.disconnect())
    disc = "ok" if r[0] == "ok" else f"raise {r[1] or r[0]}"
    if r[0] != "ok":
        corr.violate("disconnect raised " + str(r[1] or r[0]), {**rec, "task_before": state_before, "got": repr(r)})
    for t in reads:
        if not t.done():
            t.cancel()
    if reads:
        await asyncio.wait(reads, timeout=1)
    # what was received before the disconnect and not yet read is still owed to reads, in order, each once
    if not bad and r[0] == "ok":
        want = expected_arrivals(transport, ops)
        got_before = len(steps[-1][0]) if steps else 0
        late = []
        for _ in want[got_before:]:
            t = asyncio.ensure_future(tr.read())
            await settle()
            if not t.done():
                t.cancel()
                await asyncio.wait([t], timeout=1)
                late.append(("nothing",))
                break
            o = outcome_of(t)
            late.append(("m", o[1]) if o[0] == "ok" else (("e",) if o[0] == "transport" else o))
        if late != want[got_before:]:
            corr.violate("messages / errors received before the disconnect were not delivered to the reads that followed it",
                         {**rec, "unread_at_disconnect": repr(want[got_before:]), "read_after_disconnect": repr(late)})
        corr.count("reads-after-disconnect", len(late))
    left = await leftover_tasks()
    if left:
        corr.violate("tasks left running after disconnect", {**rec, "leftover": left})
    if transport == "client" and r[0] == "ok" and (fake.exited != 1 or tr._client is not None):  # noqa: SLF001
        corr.violate("disconnect did not close the client", {**rec, "exited": fake.exited})
    return steps, disc


def session_ops(sess: dict) -> list[str]:
    out = ["tnew w"]
    for op in sess["ops"]:
        if op[0] == "read":
            out.append("read")
        elif op[0] == "err":
            # the hook of MemTransport queues the error without ending anything: the queue alone
            out.append("ev err" if sess["transport"] == "client" else "qerr")
        else:
            payload = bytes.fromhex(op[2])
            out.append(f"ev msg {enc(topic_of(sess['in'], op[1]))} {encb(payload)}")
    out.append(f"disc {sess['aexit']}")
    return out


def parse_state(o: str):
    try:
        parts = dict(x.split("=", 1) for x in split_state(o))
        items = []
        for tok in parts["delivered"].strip("[]").split(" "):
            if tok == "":
                continue
            items.append(("e",) if tok == "e" else ("m", lib.dec(tok[2:])))
        return items, int(parts["waiting"]), parts["task"]
    except (KeyError, ValueError, IndexError):
        return ("model-error", o)


def split_state(o: str):
    # "task=w delivered=[a b] waiting=0 queue=[c d]"
    out, depth, cur = [], 0, ""
    for ch in o:
        if ch == "[":
            depth += 1
        elif ch == "]":
            depth -= 1
        if ch == " " and depth == 0:
            out.append(cur)
            cur = ""
        else:
            cur += ch
    out.append(cur)
    return out


# ---- part E: ONE client object across several connections -------------------------------------
#
# A run is a list of operations on one MQTTClient:
#   ["connect", aenter, subs, aexit]   aenter/aexit: "ok" | a class name of FAULTS; subs: None | 0..4 (that subscription
#                                       and the later ones fail with MqttError) | a list with the outcome ("ok" / class
#                                       name) of each of the subscribe calls, in call order; aexit is what the clean-up's
#                                       __aexit__ does
#   ["disconnect", aexit]   ["msg", fields, hex]   ["err"]   ["read"]   ["write", line, pub]   ["sub", outcome]
#   (every outcome: "ok" or a class name of FAULTS - the aiomqtt calls may raise anything, not only MqttError)
# Broker events go to the connection made last (a connection that was closed, or never opened, has nobody listening);
# the broker forwards a message only to a connection that has a matching subscription in place.

OBJ_OUT = "out/x"
OBJ_LINES = ["1;2;1;0;2;on\n", "1;2;1;1;2;a;b\n", "7;255;3;0;9;\n", "1;2;1;0;2"]
N_SUBS = 5


class Broker:
    """Stands in for the aiomqtt.Client *class*: every call makes a new connection object (a FakeClient with its own
    message queue); ``script`` is what the next connection will do."""

    def __init__(self) -> None:
        self.conns: list[FakeClient] = []
        self.script: dict = {}

    def __call__(self, *args, **kwargs):
        conn = FakeClient(dict(self.script))
        conn.ctor = (args, kwargs)
        self.conns.append(conn)
        return conn


def object_runs(ctx, rng):
    runs = []
    for c in lib.load_corpus("C18"):
        if c.get("kind") == "object":
            runs.append({"in": c["in_prefix"], "ops": c["ops"], "label": "corpus"})
    ok5 = ["connect", "ok", None, "ok"]
    m1, m2, m3 = ["msg", [1, 2, 1, 0, 2], b"on".hex()], ["msg", [0, 255, 3, 0, 2], "55.7;13.0;18".encode().hex()], \
        ["msg", [7, 255, 4, 0, 0], b"\xff\xfe".hex()]
    w = ["write", OBJ_LINES[0], "ok"]
    scenarios = [
        # unread items at a disconnect are read afterwards, before and after the next connect
        [ok5, m1, m2, m3, ["disconnect", "ok"], ["read"], ok5, ["read"], m1, ["read"], ["read"], ["disconnect", "ok"]],
        # reads pending across a reconnect are served by the next connection
        [ok5, ["read"], ["read"], ["disconnect", "ok"], ["read"], ok5, m2, m1, m3, ["read"], ["disconnect", "MqttError"], ok5,
         ["disconnect", "ok"]],
        # three connections; a broker error ends the second; __aexit__ raises
        [ok5, m1, ["disconnect", "MqttError"], ok5, ["err"], m1, ["read"], ["read"], ["read"], ["disconnect", "MqttError"],
         ok5, m2, ["disconnect", "ok"]],
        # failing subscriptions, then a good connect on the same object
        [["connect", "ok", 0, "ok"], ["connect", "ok", 3, "MqttError"], ok5, m1, ["read"], w, ["disconnect", "ok"],
         ["connect", "ok", 4, "ok"], ok5, ["disconnect", "ok"]],
        # failing broker connection: what the object does afterwards is an observation (model comparison only)
        [ok5, m1, ["disconnect", "ok"], ["connect", "MqttError", None, "ok"], ok5, ["disconnect", "ok"], w, ["read"], ["read"]],
        [["connect", "MqttError", None, "ok"], m1, ["read"]],
        # misuse: the guards
        [["disconnect", "ok"], w, ["sub", "ok"], ["write", OBJ_LINES[3], "ok"], ok5, ok5, ["sub", "ok"], ["sub", "MqttError"],
         w, ["write", OBJ_LINES[1], "MqttError"], ["write", OBJ_LINES[2], "ok"], ["write", OBJ_LINES[3], "ok"],
         ["disconnect", "ok"], ["disconnect", "ok"], w, ok5, ["disconnect", "ok"]],
        # events while disconnected reach nobody
        [m1, ["err"], ok5, ["disconnect", "ok"], m2, ["err"], ["read"], ok5, m3, ["disconnect", "ok"], ["read"]],
    ]
    for k, ops in enumerate(scenarios):
        runs.append({"in": POOL[k % 3], "ops": [list(o) for o in ops], "label": "scenario"})
    n_random = 260 if ctx.tier == "quick" else 6000
    for k in range(n_random):
        ops = []
        cycles = rng.randint(2, 4) if ctx.tier == "quick" or k % 10 else rng.randint(5, 12)
        stuck = False
        for cyc in range(cycles):
            for _ in range(rng.choice([0, 0, 1, 2])):            # while disconnected
                ops.append(rng.choice([["read"], ["read"], random_msg(rng), ["err"], ["write", rng.choice(OBJ_LINES), "ok"],
                                       ["disconnect", "ok"], ["sub", "ok"]]))
            x = rng.random()
            last = cyc == cycles - 1
            if x < (0.25 if last else 0.03):
                ops.append(["connect", "MqttError", None, rng.choice(["ok", "MqttError"])])
                stuck = True
                continue
            if x < 0.25 and not last:
                ops.append(["connect", "ok", rng.randrange(N_SUBS), rng.choice(["ok", "ok", "MqttError"])])
                continue
            ops.append(["connect", "ok", None, "ok"])
            for _ in range(rng.randint(0, 7)):                   # while connected
                y = rng.random()
                if y < 0.45:
                    ops.append(random_msg(rng))
                elif y < 0.8:
                    ops.append(["read"])
                elif y < 0.86:
                    ops.append(["err"])
                elif y < 0.94:
                    ops.append(["write", rng.choice(OBJ_LINES), rng.choice(["ok", "ok", "MqttError"])])
                elif y < 0.97:
                    ops.append(["connect", "ok", None, "ok"])
                else:
                    ops.append(["sub", rng.choice(["ok", "MqttError"])])
            ops.append(["disconnect", rng.choice(["ok", "ok", "ok", "MqttError"])])
        for _ in range(rng.randint(0, 3)):
            ops.append(["read"])
        runs.append({"in": pick(k), "out": pick(3 * k + 1), "ops": ops,
                     "label": "random" + ("-stuck" if stuck else "")})
    # exceptions of ANY class out of the aiomqtt calls, at every position: every class at every subscribe call once,
    # then random plans; after each such connect the five commands are probed (nobody hears them if it failed), and the
    # object is used again
    plans = [["connect", "ok", ["ok"] * i + [name] + ["ok"] * (N_SUBS - 1 - i), "ok"]
             for name in CLIENT_FAULT_NAMES for i in range(N_SUBS)]
    if ctx.tier == "quick":
        rng.shuffle(plans)
        plans = plans[:45]
    plans += [fault_connect(rng) for _ in range(45 if ctx.tier == "quick" else 1500)]
    for k, plan in enumerate(plans):
        ops = []
        if rng.random() < 0.3:
            ops += [["connect", "ok", None, "ok"], random_msg(rng), ["read"], ["disconnect", "ok"]]
        ops.append(plan)
        ops += probe_ops(rng)
        tail = rng.random()
        if tail < 0.5:
            ops += [["disconnect", rng.choice(["ok", "ok", "MqttError", rng.choice(CLIENT_FAULT_NAMES)])],
                    ["connect", "ok", None, "ok"]] + probe_ops(rng)[:rng.randint(1, 10)] + [["disconnect", "ok"]]
        elif tail < 0.75:
            ops += [["write", rng.choice(OBJ_LINES), rng.choice(["ok"] + CLIENT_FAULT_NAMES)], ["sub", rng.choice(CLIENT_FAULT_NAMES)],
                    ["connect", "ok", None, "ok"], ["read"], ["disconnect", rng.choice(CLIENT_FAULT_NAMES)]]
        runs.append({"in": pick(k), "out": pick(3 * k + 2), "ops": ops, "label": "fault-classes"})
    return runs


def sub_outcomes(spec) -> list:
    """The outcomes of the N_SUBS subscribe calls of a connect op, in call order."""
    if spec is None:
        return ["ok"] * N_SUBS
    if isinstance(spec, int):
        return ["ok"] * spec + ["MqttError"] * (N_SUBS - spec)
    return [("ok" if x in (None, "ok") else x) for x in spec]


def probe_ops(rng) -> list:
    """One broker message per command 0-4 (the five subscriptions) and a read for each: what a caller that was told
    'connected' relies on."""
    msgs = []
    for cmd in rng.sample(range(5), 5):
        n, c, _, ack, t = rng.choice(SESSION_FIELDS)
        msgs.append(["msg", [n, c, cmd, ack, t], rng.choice(GOOD_BYTES).hex()])
    return msgs + [["read"]] * 5


def fault_connect(rng) -> list:
    """A connect whose aiomqtt calls fail with exceptions of any class, at any position."""
    x = rng.random()
    aenter, subs, aexit = "ok", ["ok"] * N_SUBS, rng.choice(["ok", "ok", "ok", "MqttError", rng.choice(CLIENT_FAULT_NAMES)])
    if x < 0.12:
        aenter = rng.choice(CLIENT_FAULT_NAMES)
    elif x < 0.75:
        subs[rng.randrange(N_SUBS)] = rng.choice(CLIENT_FAULT_NAMES)
    else:
        for k in range(N_SUBS):
            if rng.random() < 0.4:
                subs[k] = rng.choice(CLIENT_FAULT_NAMES)
    return ["connect", aenter, subs, aexit]


def random_msg(rng):
    bad = rng.random() < 0.2
    return ["msg", list(rng.choice(SESSION_FIELDS)), rng.choice(BAD_BYTES if bad else GOOD_BYTES).hex()]


def res_of(r) -> str:
    if r[0] == "ok":
        return "done"
    if r[0] == "transport":
        return {"TransportError": "transportError", "TransportFailedError": "transportFailed"}.get(r[1], "transport:" + str(r[1]))
    if r[0] == "foreign":
        return "foreign:" + str(r[1])
    return str(r[0])


async def run_object(corr: Corr, run: dict):
    """One MQTTClient through the whole run.  Returns the observations, one per op:
    (result, client held, task state, results of the reads completed so far, reads pending, queue size)."""
    prefix, ops = run["in"], run["ops"]
    out_prefix = run.get("out", OBJ_OUT)
    rec = {"kind": "object", "in_prefix": prefix, "out_prefix": out_prefix, "ops": ops}
    broker = Broker()
    mqtt_mod.AsyncioClient = broker
    tr = construct(corr, rec, lambda: mqtt_mod.MQTTClient("broker.invalid", 1883, in_prefix=prefix, out_prefix=out_prefix))
    if tr is None:
        return []
    reads: list[asyncio.Task] = []
    steps = []
    # the oracle's own bookkeeping, from what the calls returned
    link = "down"          # down | up | deaf (connected, reception ended by a broker error)
    clean = True           # no connection was ever opened, or the last one was closed / never came to be
    arrivals: list = []
    bad = False            # the oracle stops judging a run at its first violation (what follows is a consequence)
    pending_before_disc = unread_before_disc = 0

    def judge(what: str, case: dict) -> None:
        nonlocal bad
        if not bad:
            corr.violate(what, case)
        bad = True

    for i, op in enumerate(ops):
        here = {**rec, "at_op": i}
        res = "done"
        kind = op[0]
        if kind == "connect":
            broker.script = {"aenter": op[1], "subscribe": op[2], "aexit": op[3]}
            r = await guarded(tr.connect())
            res = res_of(r)
            subs = sub_outcomes(op[2])
            faults = ([op[1]] if op[1] != "ok" else []) + [x for x in subs if x != "ok"]
            healthy = not faults
            if clean and link == "down":
                if healthy and r[0] != "ok":
                    judge("connect with a healthy broker raised on an object that is not connected "
                          "(new, or disconnected before): " + res, {**here, "got": repr(r)})
                elif faults and all(x == "MqttError" for x in faults) and r[0] != "transport" and \
                        (op[1] != "ok" or op[3] in ("ok", "MqttError")):
                    judge("connect with a failing broker did not raise a TransportError: " + res, {**here, "got": repr(r)})
                elif op[1] != "ok" and r[0] == "ok":
                    judge("connect returned normally although the broker connection could not be opened (" + op[1] + ")",
                          {**here, "got": repr(r)})
                # a subscribe call that failed (with whatever class): either connect raises, or - if it reports
                # success - all five subscriptions are in place; that is judged where it shows: a broker message on a
                # command topic that is not forwarded (the "msg" ops below), and right here for the record
                if r[0] == "ok" and not healthy:
                    corr.count("object:connect-reported-success-after-a-failed-subscribe-call")
                    conn = broker.conns[-1] if broker.conns else None
                    missing = [cmd for cmd in range(5) if conn is None
                               or not any(mqtt_match(f, f"{prefix}/1/2/{cmd}/0/2") for f in conn.active)]
                    if missing:
                        judge(DEAF, {**here, "got": repr(r), "subscribe_outcomes": subs, "deaf_for_commands": missing,
                                     "subscriptions": list(conn.active) if conn else []})
                if r[0] == "ok":
                    link, clean = "up", False
                    if pending_before_disc:
                        corr.count("object:reads-pending-across-reconnect", pending_before_disc)
                elif op[1] != "ok" or op[3] not in ("ok", "MqttError"):
                    # observation: the object keeps the client it could not open / could not close (see the notes)
                    clean = False
                    corr.count("object:observation:failed-broker-connect" if op[1] != "ok"
                               else "object:observation:clean-up-after-failed-subscribe-raised")
                if r[0] != "ok":
                    if task_state(tr) != "none":
                        judge("a failed connect left the receive task behind", {**here, "task": task_state(tr)})
                    if op[1] == "ok" and op[3] in ("ok", "MqttError") and getattr(tr, "_client", None) is not None:
                        judge("a failed subscription left the client behind (half-open connection)", here)
                    if op[1] == "ok" and broker.conns and broker.conns[-1].exited != 1:
                        judge("a failed subscription did not close the broker connection (half-open connection)",
                              {**here, "exited": broker.conns[-1].exited})
                for x in faults:
                    corr.count("object:connect-fault:" + x)
            elif link == "down" and not clean:
                corr.count("object:observation:connect-after-failed-broker-connect:" + res)
            else:
                corr.count("object:misuse:connect-while-connected:" + res)
        elif kind == "disconnect":
            if broker.conns:
                broker.conns[-1].script["aexit"] = op[1]
            pending_before_disc = sum(1 for t in reads if not t.done())
            unread_before_disc = max(0, len(arrivals) - len(reads))
            r = await guarded(tr.disconnect())
            res = res_of(r)
            if link != "down" and op[1] not in ("ok", "MqttError"):
                # __aexit__ raising something aiomqtt does not document: what disconnect() does with it is an
                # observation (model comparison); the connection is gone either way
                corr.count("object:observation:aexit-raised-foreign:" + res)
                link, clean = "down", r[0] == "ok"
            elif link != "down":
                if r[0] != "ok":
                    judge("disconnect raised " + str(r[1] or r[0]), {**here, "got": repr(r)})
                else:
                    if task_state(tr) != "none" or getattr(tr, "_client", None) is not None:
                        judge("disconnect returned but the object still holds its receive task or its client",
                              {**here, "task": task_state(tr)})
                    if broker.conns[-1].exited != 1:
                        judge("disconnect did not close the client", {**here, "exited": broker.conns[-1].exited})
                    if unread_before_disc:
                        corr.count("object:unread-at-disconnect", unread_before_disc)
                link, clean = "down", r[0] == "ok"
            else:
                corr.count("object:misuse:disconnect-while-not-connected:" + res)
        elif kind == "msg":
            topic, payload = topic_of(prefix, op[1]), bytes.fromhex(op[2])
            routed = broker.conns[-1].feed(topic, payload) if broker.conns else False
            if link == "up" and not routed:
                judge(DEAF, {**here, "topic": topic, "subscriptions": list(broker.conns[-1].active) if broker.conns else []})
            elif link == "up":
                try:
                    n, c, cmd, ack, t = op[1]
                    arrivals.append(("m", f"{n};{c};{cmd};{ack};{t};" + payload.decode()))
                except UnicodeDecodeError:
                    arrivals.append(("e",))
        elif kind == "err":
            if broker.conns:
                broker.conns[-1].feed_error()
            if link == "up":
                arrivals.append(("e",))
                link = "deaf"
        elif kind == "read":
            reads.append(asyncio.ensure_future(tr.read()))
        elif kind == "write":
            before = len(broker.conns[-1].published) if broker.conns else 0
            if broker.conns:
                broker.conns[-1].script["publish"] = op[2]
            r = await guarded(tr.write(op[1]))
            res = res_of(r)
            if r[0] == "ok":
                pubs = broker.conns[-1].published[before:] if broker.conns else []
                if len(pubs) == 1:
                    tp, pl, q, _ = pubs[0]
                    res = f"pub:{enc(tp)}:{enc('' if pl is None else pl)}:{q}"
                else:
                    res = f"published-{len(pubs)}-times"
            if link != "down" and len(op[1].split(";")) >= 6:
                want = "ok" if op[2] == "ok" else ("transport" if op[2] == "MqttError" else "raise")
                if r[0] != want and not (want == "raise" and r[0] in ("transport", "foreign")):
                    judge("write on a connected object: expected " + want + " (publish: " + op[2] + ")",
                          {**here, "got": repr(r)})
        elif kind == "sub":
            if broker.conns:
                conn = broker.conns[-1]
                conn.script["subscribe"] = ["ok"] * conn.sub_calls + [op[1]]
            r = await guarded(tr._subscribe(prefix + "/extra", 0))  # noqa: SLF001
            res = res_of(r)
        await settle()
        delivered = []
        done_flags = [t.done() for t in reads]
        for t in reads:
            if not t.done():
                break
            o = outcome_of(t)
            delivered.append(("m", o[1]) if o[0] == "ok" else (("e",) if o[0] == "transport" else o))
        try:
            qsize = tr._incoming_messages.qsize()  # noqa: SLF001
        except Exception:  # noqa: BLE001
            qsize = -1
        steps.append((res, 0 if getattr(tr, "_client", None) is None else 1, task_state(tr), delivered,
                      len(reads) - len(delivered), qsize))
        if bad:
            continue
        here = {**here, "delivered": repr(delivered), "arrivals": repr(arrivals)}
        if any(done_flags[len(delivered):]):
            judge("a later read completed before an earlier one", here)
        elif any(d[0] == "foreign" for d in delivered):
            judge("read raised something other than a TransportError", here)
        elif delivered != arrivals[: len(delivered)]:
            judge("reads did not deliver the arrivals in order, each exactly once (one object, several connections)", here)
        elif len(delivered) != min(len(reads), len(arrivals)):
            judge("an arrival was not delivered to a read (lost at a disconnect / reconnect, reception ended silently, "
                  "or a waiting read was orphaned)", here)
        if kind in ("connect", "disconnect") and link == "down":
            cur = asyncio.current_task()
            stray = [t for t in asyncio.all_tasks() if t is not cur and not t.done() and t not in reads]
            if stray:
                judge("tasks left running after disconnect / after a failed connect", {**here, "leftover": len(stray)})
    # tidy up: nothing of this run may leak into the next
    if getattr(tr, "_incoming_task", None) is not None and getattr(tr, "_client", None) is not None:
        await guarded(tr.disconnect())
    for t in reads:
        if not t.done():
            t.cancel()
    if reads:
        await asyncio.wait(reads, timeout=1)
    for t in reads:
        if t.done() and not t.cancelled():
            t.exception()      # retrieved, so that a broken tree does not flood stderr
    await leftover_tasks()
    return steps


def object_ops(run: dict) -> list[str]:
    out = ["onew"]
    for op in run["ops"]:
        k = op[0]
        if k == "connect":
            out.append(f"oconnect {model_class(op[1])} {model_class(op[3])} "
                       + " ".join(str(model_class(x)) for x in sub_outcomes(op[2])))
        elif k == "disconnect":
            out.append(f"odisconnect {model_class(op[1])}")
        elif k == "msg":
            out.append(f"oev msg {enc(topic_of(run['in'], op[1]))} {encb(bytes.fromhex(op[2]))}")
        elif k == "err":
            out.append("oev err")
        elif k == "read":
            out.append("oread")
        elif k == "write":
            out.append(f"owrite {enc(run.get('out', OBJ_OUT))} {enc(op[1])} {model_class(op[2])}")
        elif k == "sub":
            out.append(f"osub {model_class(op[1])}")
    return out


def object_representable(run: dict) -> bool:
    """Can the model be given every outcome of the run (every class has a representative in its vocabulary)?"""
    for op in run["ops"]:
        names = {"connect": [op[1], op[3]] + sub_outcomes(op[2]) if op[0] == "connect" else [],
                 "disconnect": op[1:2], "write": op[2:3], "sub": op[1:2]}.get(op[0], [])
        if any(model_class(x) is None for x in names):
            return False
    return True


def parse_ostate(o: str):
    try:
        parts = dict(x.split("=", 1) for x in split_state(o))
        items = []
        for tok in parts["delivered"].strip("[]").split(" "):
            if tok == "":
                continue
            items.append(("e",) if tok == "e" else ("m", lib.dec(tok[2:])))
        queue = [t for t in parts["queue"].strip("[]").split(" ") if t != ""]
        return parts["res"], int(parts["client"]), parts["task"], items, int(parts["waiting"]), len(queue)
    except (KeyError, ValueError, IndexError):
        return ("model-error", o)


# ---- part D: failing broker calls, UTF-8 -----------------------------------------------------


async def run_failures(corr: Corr):
    """Broker failures on connect / subscribe / publish surface as TransportError subclasses; a failed
    connect leaves no task behind."""
    ops, recs = [], []
    for script, label in [({"aenter": "MqttError"}, "aenter"), ({"subscribe": 0}, "subscribe-first"),
                          ({"subscribe": 3}, "subscribe-fourth"), ({"publish": "MqttError"}, "publish")]:
        rec = {"kind": "failure", "script": label}
        tr, fake = make_client("a/b", "out", script)
        r = await guarded(tr.connect())
        want_connect = "ok" if label == "publish" else "transport"
        if r[0] != want_connect:
            corr.violate("connect with a failing broker: expected " + want_connect, {**rec, "got": repr(r)})
        if label == "aenter":
            ops.append("conn MqttError")
            recs.append((rec, "transportError"))
        elif label.startswith("subscribe"):
            ops.append("conn ok " + " ".join(["ok"] * script["subscribe"] + ["MqttError"] * (5 - script["subscribe"])))
            recs.append((rec, "transportError"))
        if label == "publish":
            r = await guarded(tr.write("1;2;1;0;2;on\n"))
            if r != ("transport", "TransportFailedError"):
                corr.violate("write with a failing broker did not raise TransportFailedError", {**rec, "got": repr(r)})
            ops.append(f"write {enc('out')} {enc('1;2;1;0;2;on' + chr(10))} MqttError")
            recs.append((rec, "transportFailed"))
        # a connect that failed (at the broker connection or at a subscription) cleans up after itself
        # (/repo commit dc58ea8); only a successful connect is followed by disconnect
        if label == "publish":
            r = await guarded(tr.disconnect())
            if r[0] != "ok":
                corr.violate("disconnect raised " + str(r[1] or r[0]), {**rec, "got": repr(r)})
        left = await leftover_tasks()
        if left:
            corr.violate("tasks left running after a failed connect / after disconnect", {**rec, "leftover": left})
        corr.case(("failure", label), True, rec)
        corr.count("broker-failure-scripts")
    return ops, recs


# ---- part F: the documented hooks failing with exceptions of ANY class, at every position ----------------------
#
# A plan (plain JSON) says what each hook call of one MQTTTransport does:
#   {"connect": outcome, "subscribe": [outcome x 5, in call order], "delay": [loop turns each subscribe call takes],
#    "disconnect": outcome (of the `_disconnect` awaited by connect() itself, if it gets there), "publish": outcome}
# outcome = "ok" or a class name of FAULTS.  The oracle is the property's: connect() either returns with ALL five
# subscriptions in place - then a broker message on the topic of each command 0-4 is delivered to read() - or it raises
# and leaves no half-open connection; write() either publishes or raises.


class FaultyMem(MemTransport):
    def __init__(self, in_prefix: str, out_prefix: str, plan: dict) -> None:
        super().__init__(in_prefix, out_prefix)
        self.plan = plan
        self.sub_calls = 0
        self.disc_calls = 0
        self.during_connect = True       # the harness clears it when connect() has ended
        self.fired: list = []

    def _maybe(self, hook: str, name) -> None:
        if name not in (None, "ok"):
            self.fired.append([hook, name])
            raise make_exc(name)

    async def _connect(self) -> None:
        await asyncio.sleep(0)
        self._maybe("_connect", self.plan.get("connect"))
        self.connected = True

    async def _disconnect(self) -> None:
        self.disc_calls += 1
        await asyncio.sleep(0)
        self.connected = False
        self.active.clear()
        if self.during_connect:
            self._maybe("_disconnect", self.plan.get("disconnect"))

    async def _publish(self, topic: str, payload: str, qos: int) -> None:
        await asyncio.sleep(0)
        self._maybe("_publish", self.plan.get("publish"))
        self.published.append((topic, payload, qos))

    async def _subscribe(self, topic: str, qos: int) -> None:
        k = self.sub_calls
        self.sub_calls += 1
        outcomes, delays = self.plan.get("subscribe") or [], self.plan.get("delay") or []
        for _ in range(delays[k] if k < len(delays) else 1):
            await asyncio.sleep(0)
        self._maybe(f"_subscribe#{k}:{topic}", outcomes[k] if k < len(outcomes) else "ok")
        if self.connected:      # a SUBACK on a connection that was closed meanwhile subscribes nothing
            self.subscribed.append((topic, qos))
            self.active.append(topic)


def hook_fault_plans(ctx, rng) -> list:
    plans = [{"in": "gw-out", "plan": {}, "label": "healthy"}]
    k = 0

    def add(plan: dict, label: str) -> None:
        nonlocal k
        plans.append({"in": pick(k), "out": pick(3 * k + 2), "plan": plan, "label": label})
        k += 1

    for name in FAULT_NAMES:
        # every class at every subscribe call; the failing call ends before / together with / after the others
        for i in range(N_SUBS):
            delays = [0, 1, 3] if ctx.tier != "quick" else [rng.choice([0, 1, 3])]
            for d in delays:
                add({"subscribe": ["ok"] * i + [name] + ["ok"] * (N_SUBS - 1 - i),
                     "delay": [1] * i + [d] + [1] * (N_SUBS - 1 - i)}, "subscribe-one")
        add({"connect": name}, "connect")
        add({"publish": name}, "publish")
        # the clean-up itself fails
        add({"subscribe": ["ok"] * (k % N_SUBS) + [rng.choice(FAULT_NAMES)] + ["ok"] * (N_SUBS - 1 - k % N_SUBS),
             "disconnect": name}, "subscribe-and-cleanup")
    for _ in range(60 if ctx.tier == "quick" else 3000):
        # several calls fail (same number of turns each: the first in call order is the first in time)
        subs = [rng.choice(FAULT_NAMES) if rng.random() < 0.4 else "ok" for _ in range(N_SUBS)]
        add({"connect": rng.choice(FAULT_NAMES) if rng.random() < 0.1 else "ok", "subscribe": subs,
             "disconnect": rng.choice(FAULT_NAMES) if rng.random() < 0.25 else "ok",
             "publish": rng.choice(FAULT_NAMES) if rng.random() < 0.3 else "ok"}, "random")
    for d in ([0] * 5, [3, 2, 1, 0, 0], [0, 4, 0, 4, 0]):
        add({"delay": d}, "healthy")
    return plans


async def probe_read(tr):
    """A read that gets what is there now: ('ok', line) | ('transport'|'foreign', class) | ('nothing', None)."""
    t = asyncio.ensure_future(tr.read())
    await settle(3)
    if not t.done():
        t.cancel()
        await asyncio.wait([t], timeout=1)
        return ("nothing", None)
    return outcome_of(t)


async def run_hook_faults(corr: Corr, cases: list, rng):
    ops, recs = [], []
    for case in cases:
        prefix, plan = case["in"], case["plan"]
        out_prefix = case.get("out", OBJ_OUT)
        rec = {"kind": "hookfault", "in_prefix": prefix, "out_prefix": out_prefix, "plan": plan}
        tr = construct(corr, rec, lambda: FaultyMem(prefix, out_prefix, plan))
        if tr is None:
            continue
        subs = [("ok" if x in (None, "ok") else x) for x in (plan.get("subscribe") or [])] + ["ok"] * N_SUBS
        subs = subs[:N_SUBS]
        c_out, d_out = plan.get("connect") or "ok", plan.get("disconnect") or "ok"
        planned = ([c_out] if c_out != "ok" else []) + [x for x in subs if x != "ok"]
        r = await guarded(tr.connect())
        tr.during_connect = False
        await settle(6)                       # subscribe calls still running when connect() raised end here
        got = "ok" if r[0] == "ok" else str(r[1] or r[0])
        here = {**rec, "connect": repr(r), "hook_faults_fired": list(tr.fired), "subscriptions_in_place": list(tr.active)}
        in_place = list(tr.active) if r[0] == "ok" else []
        if r[0] == "hang":
            corr.violate("connect() did not finish", here)
        elif r[0] == "ok":
            if c_out != "ok":
                corr.violate("connect() returned normally although the `_connect` hook raised " + c_out, here)
            # the caller was told 'connected': every command must be heard
            deaf = []
            for cmd in range(5):
                n, c, _, ack, t = rng.choice(SESSION_FIELDS)
                payload = rng.choice(PAYLOAD_CLASSES)[1]
                topic = f"{prefix}/{n}/{c}/{cmd}/{ack}/{t}"
                routed = tr.broker_message(topic, payload)
                pr = await probe_read(tr)
                if pr != ("ok", f"{n};{c};{cmd};{ack};{t};{payload}"):
                    deaf.append({"command": cmd, "topic": topic, "forwarded_by_broker": routed, "read": repr(pr)})
            if deaf:
                corr.violate(DEAF, {**here, "probes_not_delivered": deaf})
            corr.count("hook-faults:delivery-probes", 5)
            if not planned:
                pub = plan.get("publish") or "ok"
                w = await guarded(tr.write(OBJ_LINES[1]))
                if pub == "ok" and (w[0] != "ok" or tr.published != [(out_prefix + "/1/2/1/1/2", "a;b", 1)]):
                    corr.violate("write with a healthy publish hook did not publish", {**here, "write": repr(w),
                                                                                     "published": repr(tr.published)})
                elif pub != "ok" and (w[0] == "ok" or tr.published):
                    corr.violate("write returned normally although the `_publish` hook raised " + pub + " (message lost silently)",
                                 {**here, "write": repr(w)})
                elif pub in LIBRARY_FAULTS and w != ("transport", pub):
                    corr.violate("a TransportError raised by the `_publish` hook did not reach the caller of write",
                                 {**here, "write": repr(w)})
            d = await guarded(tr.disconnect())
            if d[0] != "ok":
                corr.violate("disconnect raised with a healthy `_disconnect` hook: " + str(d[1] or d[0]), {**here, "got": repr(d)})
        else:
            if not planned:
                corr.violate("connect() raised although every hook returned: " + got, here)
            elif c_out == "ok" and (tr.connected or tr.disc_calls == 0):
                corr.violate("connect() raised but left the connection open: `_disconnect` was not awaited "
                             "(half-open connection)", {**here, "disconnect_calls": tr.disc_calls})
            if planned and all(x in LIBRARY_FAULTS for x in planned) and d_out == "ok" and r[0] != "transport":
                corr.violate("a TransportError raised by a hook did not reach the caller of connect as a TransportError",
                             here)
        left = await leftover_tasks()
        if left:
            corr.violate("tasks left running after connect / disconnect", {**here, "leftover": left})
        corr.case(("hookfault", prefix, json.dumps(plan, sort_keys=True)), True,
                  {**rec, "connect": got} if case["label"] != "healthy" and len(corr.samples) < 6 else None)
        corr.count("hook-faults:" + case["label"])
        for x in planned:
            corr.count("hook-fault-class:" + x)
        # the model: MQTTTransport.connect over the hooks (Mqtt.hookConnect), for plans whose subscribe calls all take
        # the same number of turns or of which at most one fails (gather propagates the FIRST exception in time)
        delays = (plan.get("delay") or []) + [1] * N_SUBS
        names = [c_out, d_out] + subs
        if (len(set(delays[:N_SUBS])) == 1 or sum(1 for x in subs if x != "ok") <= 1) and \
                all(model_class(x) for x in names):
            ops.append(f"hconn {enc(prefix)} " + " ".join(model_class(x) for x in names))
            impl_res = "ok" if r[0] == "ok" else (model_class(got) if got in FAULTS else got)
            recs.append((rec, (impl_res, 1 if tr.disc_calls and r[0] != "ok" else 0, sorted(in_place))))
    return ops, recs


def compare_hook_faults(corr: Corr, recs, outs) -> None:
    for (rec, impl), o in zip(recs, outs):
        try:
            parts = dict(x.split("=", 1) for x in split_state(o))
            model = (parts["res"], int(parts["cleanup"]),
                     sorted(lib.dec(t) for t in parts["inplace"].strip("[]").split(" ") if t != ""))
        except (KeyError, ValueError, IndexError):
            model = ("model-error", o)
        if model != impl:
            corr.disagree("connect over the documented hooks (result, clean-up awaited, subscriptions in place)",
                          {**rec, "impl": repr(impl), "model": repr(model)})


async def run_backlog(corr: Corr, n: int = 1500) -> None:
    """A reader that is behind: `n` messages arrive before the first read.  Every one of them must be delivered, in
    order, and a message arriving afterwards too (no bound on the backlog may end reception silently)."""
    for kind in ("client", "mem"):
        rec = {"kind": "backlog", "transport": kind, "arrivals": n}
        if kind == "client":
            tr, fake = make_client("gw-out", "gw-in", {})
            r = await guarded(tr.connect())
            if r[0] != "ok":
                corr.violate("connect failed in the backlog scenario", {**rec, "got": repr(r)})
                continue
            for i in range(n):
                if not fake.feed(f"gw-out/1/0/1/0/2", str(i).encode()):
                    corr.violate(DEAF, {**rec, "topic": "gw-out/1/0/1/0/2", "subscriptions": list(fake.active)})
                    break
            await settle(16)
        else:
            tr = MemTransport("gw-out", "gw-in")
            await tr.connect()
            for i in range(n):
                try:
                    tr._receive("gw-out/1/0/1/0/2", str(i))
                except BaseException as e:  # noqa: BLE001
                    corr.violate(f"receiving message {i} of a backlog raised {type(e).__name__}", rec)
                    break
        got = []
        for i in range(n):
            r = await guarded(tr.read(), 0.5)
            if r[0] != "ok":
                break
            got.append(r[1] if len(r) > 1 else None)
        if kind == "client":
            fake.feed("gw-out/1/0/1/0/2", b"late")
        else:
            try:
                tr._receive("gw-out/1/0/1/0/2", "late")
            except BaseException:  # noqa: BLE001
                pass
        late = await guarded(tr.read(), 0.5)
        if len(got) != n or late[0] != "ok":
            corr.violate("messages of a backlog, or a message arriving after it, were never delivered (reception ended silently)",
                         {**rec, "delivered": len(got), "late": repr(late)[:100]})
        d = await guarded(tr.disconnect())
        if d[0] != "ok":
            corr.violate("disconnect raised after a backlog", {**rec, "got": repr(d)[:100]})
        corr.case(("backlog", kind, n), True, rec)
        corr.count("backlog-scenarios")


def utf8_cases(ctx, rng):
    cases = [b"", b"A", b"\x7f", b"\x80", b"\xbf", b"\xc0\x80", b"\xc1\xbf", b"\xc2\x80", b"\xdf\xbf", b"\xc2", b"\xc2A",
             b"\xe0\x80\x80", b"\xe0\x9f\xbf", b"\xe0\xa0\x80", b"\xed\x9f\xbf", b"\xed\xa0\x80", b"\xed\xbf\xbf",
             b"\xee\x80\x80", b"\xef\xbf\xbf", b"\xe2\x82", b"\xe2\x82\xac", b"\xf0\x80\x80\x80", b"\xf0\x8f\xbf\xbf",
             b"\xf0\x90\x80\x80", b"\xf4\x8f\xbf\xbf", b"\xf4\x90\x80\x80", b"\xf5\x80\x80\x80", b"\xf8\x88\x80\x80\x80",
             b"\xf0\x9f\x8c", b"\xf0\x9f\x8c\xa1", b"\xff", b"\xfe\xff", b"\xff\xfe", b"a\xc3\xa9b", b"\xc3\xa9\xc3",
             b"\xe2\x82\xacA\xf0\x9f\x98\x80", b"\xef\xbb\xbf", b"\x00"]
    alphabet = [0x41, 0x7f, 0x80, 0x9f, 0xa0, 0xbf, 0xc2, 0xc3, 0xdf, 0xe0, 0xe1, 0xec, 0xed, 0xee, 0xef, 0xf0, 0xf1, 0xf3,
                0xf4, 0xf5, 0x8f, 0x90, 0xc0, 0xc1, 0xff]
    for _ in range(600 if ctx.tier == "quick" else 20000):
        cases.append(bytes(rng.choice(alphabet) for _ in range(rng.randint(1, 5))))
    for _ in range(100 if ctx.tier == "quick" else 3000):
        s = "".join(chr(rng.choice([0x41, 0xe9, 0x7ff, 0x800, 0xd7ff, 0xe000, 0xffff, 0x10000, 0x10ffff, 0x1f321]))
                    for _ in range(rng.randint(1, 4)))
        cases.append(s.encode())
    return cases


# ---- replay ----------------------------------------------------------------------------------


def replay(case: dict) -> None:
    """Re-execute one recorded case (kinds 'hookfault', 'object', 'session', 'prefix', 'write', 'subscribe') on the
    implementation and print what the oracle says about it."""
    corr = Corr("C18", "replay")
    kind = case.get("kind")
    saved_client = mqtt_mod.AsyncioClient

    async def main() -> None:
        if kind == "hookfault":
            await run_hook_faults(corr, [{"in": case["in_prefix"], "out": case.get("out_prefix", OBJ_OUT), "plan": case["plan"],
                                         "label": "replay"}],
                                  lib.rng_for(0, "c18-replay"))
        elif kind == "object":
            steps = await run_object(corr, {"in": case["in_prefix"], "out": case.get("out_prefix", OBJ_OUT), "ops": case["ops"],
                                            "label": "replay"})
            for op, st in zip(case["ops"], steps):
                print(f"   {op} -> {st[0]} client={st[1]} task={st[2]} delivered={len(st[3])} waiting={st[4]} queue={st[5]}")
        elif kind == "session":
            await run_session(corr, {"transport": case["transport"], "in": case["in_prefix"], "ops": case["ops"],
                                     "aexit": case.get("aexit", "ok"), "label": "replay"})
        elif kind in ("prefix", "subscribe"):
            pin = case["in_prefix"] if kind == "prefix" else case["in"]
            pout = case["out_prefix"] if kind == "prefix" else "out"
            print(f"configured in-prefix {pin!r}\nconfigured out-prefix {pout!r}")
            _, recs = await run_prefix_configs(corr, [{"kind": "prefix", "in_prefix": pin, "out_prefix": pout,
                                                       "messages": case.get("messages", PREFIX_MESSAGES)}])
            for _, obs in recs:
                for tk, (subs, heard, lines, pubs) in obs.items():
                    print(f"   {tk}: subscribed {[f for f, _ in subs]!r}"[:600])
                    for (fields, payload), h, l, pb in zip(case.get("messages", PREFIX_MESSAGES), heard, lines, pubs):
                        print(f"   {tk}: broker message on {topic_of(pin, fields)!r}: {'read as ' + repr(l) if h else 'NOT FORWARDED'}; "
                              f"write published on {pb[0] if pb else None!r}"[:900])
        elif kind == "write":
            print(f"configured in-prefix {case['in']!r}\nconfigured out-prefix {case['out']!r}")
            await run_mapping(corr, [{"version": case.get("version", "2.2"), "out": case["out"], "in": case["in"],
                                      "fields": tuple(case["fields"]), "payload": case["payload"], "label": "replay"}],
                              {v: codec.schema_for(v) for v in lib.VERSIONS}, 1)
        else:
            print("(cases of this kind are reproduced by re-running the check with the same seed)")

    try:
        asyncio.run(main())
    finally:
        mqtt_mod.AsyncioClient = saved_client
    if kind in ("hookfault", "object", "session", "prefix", "subscribe", "write"):
        print(f"re-executed on the implementation: {len(corr.violations)} oracle violation(s)")
        for v in corr.violations:
            print("  VIOLATED:", v["what"])
            for k in ("connect", "hook_faults_fired", "subscriptions_in_place", "probes_not_delivered", "at_op", "got",
                      "deaf_for_commands", "subscriptions", "topic", "published", "want", "transport"):
                if k in v:
                    print(f"     {k}: {v[k]}")


# ---- entry point -----------------------------------------------------------------------------


def run_c18(ctx) -> Corr:
    corr = Corr("C18", "prefixes: every part draws the in- and the out-prefix (independently) from one alphabet - plain "
                "1-6 levels, regex / format metacharacters, zero-length levels (leading, trailing, doubled divider, only "
                "dividers, the empty prefix), blanks (space, tab, newline, NBSP, ideographic space; around dividers), case, "
                "unicode (composed / decomposed, full-width, RTL, astral, zero-width), levels that look like message "
                "levels, ';', '$', quotes, '%2F', dots, 40 levels, 300 characters, + 16 random prefixes per seed (1-9 "
                "levels from a level alphabet with zero-length levels, random characters of the legal range; no '+', "
                "'#', NUL) - and builds topics, oracle and model input from the prefix AS CONFIGURED (constructor "
                "argument), never from what the transport stores; (a) well-formed messages (codec generators: boundary "
                "product + random) x prefix pairs x payload classes (empty, ';', '/', non-ASCII, astral, '#', '+', random) through "
                "MQTTTransport.write / _receive / read on an in-memory subclass, a part of them also through "
                "MQTTClient with a fake aiomqtt client; checked: publish = (<out>/n/c/cmd/ack/type, payload, qos=ack), "
                "echo under the in-prefix reads back 'n;c;cmd;ack;type;payload' and decodes (real MessageSchema) to "
                "the same message; (b) the subscribed filters of every prefix against topics with command -2..7 "
                "using an MQTT matcher written for the oracle; (c) reception sessions: every interleaving of <= 4 "
                "arrivals (message / undecodable binary payload / MqttError) and <= 4 reads, disconnect after "
                "every one of them (hence at every point), both transports (thorough: every kind assignment, plus "
                "random sessions up to length 60); checked after each op: completed reads = first min(reads, "
                "arrivals) arrivals in order, only TransportError subclasses raised, disconnect does not raise, no "
                "task left; (d) failing broker calls; (e) ONE MQTTClient object through several connect / disconnect "
                "cycles (8 written scenarios + 260 / 6000 random runs of 2-4, sometimes up to 12, cycles): broker "
                "events inside and between connections, reads pending across a reconnect, unread items at a "
                "disconnect, failing broker connection, failing subscription (any position), __aexit__ raising, "
                "writes, misuse of the guards; checked after each op: reads get the arrivals of ALL connections in "
                "order, each once, none lost; disconnect of a connected object returns and leaves neither task nor "
                "client nor a running task; a healthy connect on a new or disconnected object succeeds; a failed "
                "connect leaves no task; every step (result, client, task, read results, waiting reads, queue "
                "length) compared with the object model oStep; (f) faults of ANY exception class (" + ", ".join(FAULT_NAMES)
                + ") at every hook: MQTTTransport over the documented hooks - every class at each of the five "
                "_subscribe calls (ending before / with / after the others), at _connect, at _publish, at the "
                "_disconnect of the clean-up, plus random multi-fault plans - and MQTTClient's aiomqtt calls "
                "(__aenter__, each subscribe call, publish, __aexit__) inside object runs that go on using the object; "
                "the harness's broker forwards a message only over an open connection with a matching subscription in "
                "place (all parts); checked: connect() either returns with all five subscriptions in place - one "
                "broker message per command 0-4 is then delivered to read() - or raises having awaited _disconnect "
                "(no half-open connection, no task, no client); write() publishes or raises; an error of any class "
                "handed to _receive_error is raised by the read whose turn it is; all compared with the Lean model "
                "(toTopic, toLine, matchesFilter, subscriptions, utf8Decode, tStep, disconnect, connect, write, oStep, "
                "hookConnect); (g) configured prefixes: every prefix of the alphabet and very long ones (2000 characters, 500 "
                "levels, 400 zero-length levels; thorough: up to the 65535-byte limit) once as in-prefix and once as "
                "out-prefix (paired by a seeded shuffle), some pairs with both the same, random pairs, on both transports: "
                "connect, per command 0-4 a broker message on '<configured in-prefix>/n/c/cmd/ack/type' must be "
                "forwarded by the harness's broker (MQTT matching against the subscriptions made) and read back as the "
                "line, the write of the same message must be one publish on '<configured out-prefix>/n/c/cmd/ack/type' "
                "with qos=ack, disconnect returns and leaves no task; compared with the model given the configured "
                "prefixes (subs, heard, toLine, toTopic). non-trivial = distinct case with a special payload/prefix/field, every distinct "
                "session, object run, fault plan, subscription set and failure script")
    global POOL
    POOL = prefix_pool(ctx.seed)
    rng = lib.rng_for(ctx.seed, "c18")
    mrng = lib.rng_for(ctx.seed, "c18-malformed")
    prefix_cases = prefix_config_cases(ctx, POOL, lib.rng_for(ctx.seed, "c18-prefix-pairs"))
    schemas = {v: codec.schema_for(v) for v in lib.VERSIONS}
    saved_client = mqtt_mod.AsyncioClient
    cases = mapping_cases(ctx, rng)
    sessions = session_cases(ctx, rng)
    replay_runs: list = []
    replay_hooks: list = []
    if getattr(ctx, "replay", None):
        with open(ctx.replay, encoding="utf-8") as f:
            rc = json.load(f).get("case", {})
        if rc.get("kind") == "session":
            sessions.insert(0, {"transport": rc["transport"], "in": rc["in_prefix"], "ops": rc["ops"],
                                "aexit": rc.get("aexit", "ok"), "label": "replay"})
        elif rc.get("kind") == "object":
            replay_runs.append({"in": rc["in_prefix"], "out": rc.get("out_prefix", OBJ_OUT), "ops": rc["ops"], "label": "replay"})
        elif rc.get("kind") == "hookfault":
            replay_hooks.append({"in": rc["in_prefix"], "out": rc.get("out_prefix", OBJ_OUT), "plan": rc["plan"], "label": "replay"})
        elif rc.get("kind") == "prefix":
            prefix_cases.insert(0, {"kind": "prefix", "in_prefix": rc["in_prefix"], "out_prefix": rc["out_prefix"],
                                    "messages": rc.get("messages", PREFIX_MESSAGES)})
        elif rc.get("kind") == "subscribe":
            prefix_cases.insert(0, {"kind": "prefix", "in_prefix": rc["in"], "out_prefix": "out", "messages": PREFIX_MESSAGES})
        elif rc.get("kind") == "write":
            cases.insert(0, {"version": rc.get("version", "2.2"), "out": rc["out"], "in": rc["in"],
                             "fields": tuple(rc["fields"]), "payload": rc["payload"], "label": "replay"})
    objects = replay_runs + object_runs(ctx, lib.rng_for(ctx.seed, "c18-object"))
    frng = lib.rng_for(ctx.seed, "c18-hook-faults")
    hook_cases = replay_hooks + hook_fault_plans(ctx, frng)
    results: dict = {}

    async def main() -> None:
        results["map"] = await run_mapping(corr, cases, schemas, 400 if ctx.tier == "quick" else 4000)
        results["subs"] = await run_subscriptions(corr)
        results["prefix"] = await run_prefix_configs(corr, prefix_cases)
        sess_obs = []
        for sess in sessions:
            obs = await run_session(corr, sess)
            sess_obs.append(obs)
            shape = "".join("R" if op[0] == "read" else ("E" if op[0] == "err" else
                            ("B" if bytes.fromhex(op[2]) in BAD_BYTES else "M")) for op in sess["ops"])
            corr.case(("session", sess["transport"], sess["in"], json.dumps(sess["ops"]), sess["aexit"]), True,
                      {"kind": "session", "transport": sess["transport"], "in_prefix": sess["in"], "shape": shape,
                       "aexit": sess["aexit"], "disconnect": obs[1] if obs else None} if len(shape) >= 5 else None)
            corr.count(f"session:{sess['transport']}:{sess['label']}")
            corr.count("session-arrivals:message", shape.count("M"))
            corr.count("session-arrivals:undecodable", shape.count("B"))
            corr.count("session-arrivals:error", shape.count("E"))
            corr.count("session-reads", shape.count("R"))
        results["sess"] = sess_obs
        results["fail"] = await run_failures(corr)
        results["hooks"] = await run_hook_faults(corr, hook_cases, frng)
        obj_obs = []
        for run in objects:
            obj_obs.append(await run_object(corr, run))
            n_conn = sum(1 for op in run["ops"] if op[0] == "connect")
            corr.case(("object", run["in"], json.dumps(run["ops"])), True,
                      {"kind": "object", "in_prefix": run["in"], "ops": run["ops"]} if run["label"] == "scenario" else None)
            corr.count(f"object-run:{run['label']}")
            corr.count("object-run:connect-calls", n_conn)
            for op in run["ops"]:
                corr.count(f"object-op:{op[0]}")
        results["obj"] = obj_obs
        await run_backlog(corr, 1500 if ctx.tier == "quick" else 20000)

    try:
        asyncio.run(main())
    finally:
        mqtt_mod.AsyncioClient = saved_client

    raw_ops, raw_data = raw_mapping(corr, ctx, mrng)
    u8 = utf8_cases(ctx, rng)
    for b in u8:
        try:
            b.decode()
            corr.count("utf8:valid")
        except UnicodeDecodeError:
            corr.count("utf8:invalid")

    if ctx.model_ok:
        map_ops, map_checks = results["map"]
        sub_ops, sub_recs = results["subs"]
        fail_ops, fail_recs = results["fail"]
        sess_ops = [session_ops(s) for s in sessions]
        # MemTransport's error hook only queues: in the model that is an arrival without a task event.
        flat = []
        for so in sess_ops:
            flat.extend(so)
        # a run with an outcome of a class the model's vocabulary has no representative for is judged by the oracle only
        obj_ops = [object_ops(r) if object_representable(r) else [] for r in objects]
        for oo in obj_ops:
            flat.extend(oo)
        hook_ops, hook_recs = results["hooks"]
        pre_ops, pre_recs = results["prefix"]
        all_ops = map_ops + sub_ops + pre_ops + raw_ops + fail_ops + hook_ops + [f"utf8 {encb(b)}" for b in u8] + flat
        outs = lib.run_model(all_ops, driver=DRIVER)
        pos = 0
        compare_mapping(corr, map_checks, outs[pos: pos + len(map_ops)])
        pos += len(map_ops)
        compare_subscriptions(corr, sub_recs, outs[pos: pos + len(sub_ops)])
        pos += len(sub_ops)
        compare_prefix_configs(corr, pre_recs, outs[pos: pos + len(pre_ops)])
        pos += len(pre_ops)
        compare_raw(corr, raw_data, outs[pos: pos + len(raw_ops)])
        pos += len(raw_ops)
        for (rec, want), o in zip(fail_recs, outs[pos: pos + len(fail_ops)]):
            if o != want:
                corr.disagree("broker failure", {**rec, "impl": want, "model": o})
        pos += len(fail_ops)
        compare_hook_faults(corr, hook_recs, outs[pos: pos + len(hook_ops)])
        pos += len(hook_ops)
        for b, o in zip(u8, outs[pos: pos + len(u8)]):
            try:
                got = ("ok", b.decode())
            except UnicodeDecodeError:
                got = ("invalid",)
            tok = o.split(" ")
            model = ("ok", lib.dec(tok[1])) if tok[0] == "ok" and len(tok) == 2 else (o,)
            if model != got:
                corr.disagree("utf8Decode", {"bytes": b.hex(), "impl": repr(got), "model": repr(model)})
        pos += len(u8)
        for sess, so, obs in zip(sessions, sess_ops, results["sess"]):
            mo = outs[pos: pos + len(so)]
            pos += len(so)
            if obs is None:
                continue
            steps, disc = obs
            rec = {"kind": "session", "transport": sess["transport"], "in_prefix": sess["in"], "ops": sess["ops"],
                   "aexit": sess["aexit"]}
            for i, (st, o) in enumerate(zip(steps, mo[1:-1])):
                model = parse_state(o)
                # an error of any class handed to `_receive_error` is the queue item `err` of the model
                if model != ([("e",) if d[0] == "foreign" else d for d in st[0]], st[1], st[2]):
                    corr.disagree("reception step", {**rec, "at_op": i, "impl": repr(st), "model": repr(model)})
                    break
            if mo[-1] != disc:
                corr.disagree("disconnect", {**rec, "impl": disc, "model": mo[-1]})
        for run, oo, steps in zip(objects, obj_ops, results["obj"]):
            mo = outs[pos: pos + len(oo)]
            pos += len(oo)
            if not oo:
                corr.count("object-run:oracle-only (a class outside the model's vocabulary)")
                continue
            rec = {"kind": "object", "in_prefix": run["in"], "out_prefix": run.get("out", OBJ_OUT), "ops": run["ops"]}
            for i, (st, o) in enumerate(zip(steps, mo[1:])):
                model = parse_ostate(o)
                if model != (model_res(st[0]),) + tuple(st[1:]):
                    corr.disagree("object step (result, client held, task, read results, reads waiting, queue length)",
                                  {**rec, "at_op": i, "op": run["ops"][i], "impl": repr(st), "model": repr(model)})
                    break
    corr.exhaustive = False
    corr.notes.append("asyncio.Queue, task cancellation, aiomqtt and the broker are modelled (DESIGN section 5); the message "
                      "iterator of the fake client raises MqttError only, as aiomqtt documents; its other calls and the "
                      "documented hooks are made to raise any class; KeyboardInterrupt / SystemExit are not injected "
                      "(asyncio re-raises them through the event loop: they end the loop, not the call); classes outside "
                      "the model's vocabulary are compared through their nearest ancestor inside it, a class without one "
                      "(HarnessAbort) is judged by the oracle only")
    if corr.dist.get("object:observation:failed-broker-connect"):
        corr.notes.append("observation (outside the property's text, theorem failed_broker_connect_keeps_client / "
                          "stuck_after_failed_broker_connect): MQTTClient._connect assigns self._client before awaiting "
                          "__aenter__ and does not reset it when that raises, so after a failed broker connection every "
                          "later connect() and disconnect() on the same object raises RuntimeError; model and "
                          "implementation agree on it, the oracle does not judge it")
    return corr
