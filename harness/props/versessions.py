"""C05 across gateway sessions that share a persistence file.

The property speaks about "the release version the gateway reported" and says the rules in force are those of 1.4
"while no version has been reported".  Whether something has been reported is a fact about the traffic a `Gateway`
object has seen, not about what an earlier run left on disk: the registry that `Config(persistence_file=...)` restores
contains the gateway's own node (node 0) with the version string of its last presentation, and that record must not
act as a report.  This module runs the real `Gateway` with a real persistence file through several sessions:

* the file is absent, empty, or written beforehand in the aiomysensors or the pymysensors layout, with or without the
  gateway's node 0 (stored version: release strings of the grid, other accepted strings, rejected strings) and with
  other nodes, children and values; the repo's own persistence fixtures are used as well when present;
* several runs on the same file: a NEW `Gateway` object per run (a restart of the controller) or the same object
  entered again (a reconnect); inside a run, traffic BEFORE any version report (type-gate probes around the edges of
  every version's Internal / Stream table, ordinary node traffic, sends), then version replies / gateway presentations
  in any order mixed with other traffic.

Oracle (the property restated; nothing of the implementation is consulted): per `Gateway` object the reference value
"last accepted version report seen by this object" starts at None and changes only at a received version reply or
gateway presentation whose string selects a protocol.  After entering the context, after every operation and after
leaving the context, `Gateway.protocol_version` must be that value and `Gateway.protocol.VERSION` the protocol the
property selects for it (1.4 for None); a rejected report changes neither; internal / stream types are refused as
unsupported exactly when they do not exist in the protocol selected for the reference value in force when the line
arrives.

Model: the gateway model has no operation for files or sessions.  Every run is mapped onto the driver operations that
exist: `gnew` (version = the reference value, i.e. unknown for a new object) + the registry found after loading as
`gnode/gchild/gval` + the run's `grecv/gsend` lines, compared on the version view.  Entering and leaving are judged by
the oracle alone.
"""

from __future__ import annotations

import asyncio
import glob
import json
import os

from .. import gw, lib
from ..gw import Hist

Gateway, Config, Message = gw.Gateway, gw.Config, gw.Message

GATE_INTERNAL = [-1, 0, 1, 3, 5, 9, 10, 13, 14, 15, 16, 17, 18, 19, 21, 22, 24, 27, 28, 29, 30, 32, 33, 34, 35, 40]
GATE_STREAM = [-1, 0, 1, 2, 3, 4, 5, 6]
# stored versions of the systematic block: the statement's examples, the edges of the supported list, strings no
# protocol can be selected for
STORED = ["2.2.0", "2.3.2", "2.1.1", "2.0.0", "1.5.0", "1.4.9", "0.9", "3.0", "2.10", "2.2", "1.5", "10.0.1.2",
          "garbage", "", "2.0-beta", "2..1", "7", "v2.1"]


# ---- scenarios --------------------------------------------------------------------------------


def ops_from_json(ops):
    return [tuple(tuple(x) if isinstance(x, list) else x for x in o) for o in ops]


def scenario_to_json(sc, runs=None, last_ops=None):
    """The scenario (optionally cut after `runs` runs, the last of them after `last_ops` operations)."""
    rs = sc["runs"] if runs is None else sc["runs"][:runs]
    out = []
    for k, r in enumerate(rs):
        ops = r["ops"] if (last_ops is None or k < len(rs) - 1) else r["ops"][:last_ops]
        out.append({"object": r["object"], "ops": [list(o) for o in ops]})
    return {"file": sc["file"], "layout": sc.get("layout"), "runs": out}


def _node_record(layout, nid, ntype, pv, sn="", sv="", bat=0, hb=0, sleeping=False, children=None):
    children = children or {}
    if layout == "pymysensors":
        return {"sensor_id": nid, "type": None if nid == 0 and ntype == 18 else ntype, "protocol_version": pv,
                "sketch_name": sn or None, "sketch_version": sv or None, "battery_level": bat, "heartbeat": hb,
                "children": {str(k): {"id": c[0], "type": c[1], "description": c[2], "values": {str(t): v for t, v in c[3].items()}}
                             for k, c in children.items()}}
    return {"node_id": nid, "node_type": ntype, "protocol_version": pv, "sketch_name": sn, "sketch_version": sv,
            "battery_level": bat, "heartbeat": hb, "sleeping": sleeping,
            "children": {str(k): {"child_id": c[0], "child_type": c[1], "description": c[2], "values": {str(t): v for t, v in c[3].items()}}
                         for k, c in children.items()}}


def file_text(layout, stored, others):
    """A persistence file: node 0 with the stored version `stored` (None: no node 0) and the nodes `others`
    ({id: (type, version, sketch name, sketch version, battery, heartbeat, sleeping, children)})."""
    data = {}
    if stored is not None:
        data["0"] = _node_record(layout, 0, 18, stored)
    for nid, (ntype, pv, sn, sv, bat, hb, sl, ch) in others.items():
        data[str(nid)] = _node_record(layout, nid, ntype, pv, sn, sv, bat, hb, sl, ch)
    return json.dumps(data, sort_keys=True, indent=2)


def gen_others(rng):
    others = {}
    for n in gw.NODES:
        if rng.random() < 0.6:
            ch = {}
            for c in gw.CHILDREN:
                if rng.random() < 0.5:
                    ch[c] = (c, 6, f"child {c}", {t: rng.choice(["20.0", "1", "x;y"]) for t in gw.VTYPES if rng.random() < 0.4})
            others[n] = (17, rng.choice(["2.0", "1.4", "2.2", "2.3.2", "2.1.1"]), rng.choice(["", "Sk"]), rng.choice(["", "1.0"]),
                         rng.choice([0, 55, 100]), rng.choice([0, 10]), rng.random() < 0.3, ch)
    return others


def gate_probe(rng, node=None):
    n = node if node is not None else rng.choice([1, 1, 2, 3, 0])
    if rng.random() < 0.7:
        t = rng.choice(GATE_INTERNAL)
        return ("recv", f"{n};255;3;{rng.choice([0, 0, 1])};{t};{rng.choice(['', '7', 'x'])}", (), gw.DEFAULT_TIME)
    return ("recv", f"{n};255;4;0;{rng.choice(GATE_STREAM)};0102", (), gw.DEFAULT_TIME)


def gate_sweep(node=1):
    """Internal types at both sides of the end of every version's table, and the stream types, from one node."""
    ops = [("recv", f"{node};255;3;0;{t};", (), gw.DEFAULT_TIME) for t in (10, 14, 15, 17, 18, 28, 29, 33, 34)]
    return ops + [("recv", f"{node};255;4;0;{t};0102", (), gw.DEFAULT_TIME) for t in (0, 3, 4)]


def is_report(f) -> bool:
    """A received line through which the gateway reports its version: a version reply, or the presentation of node 0."""
    return f is not None and ((f[2] == 3 and f[4] == 2) or (f[2] == 0 and f[0] == 0 and f[1] == 255))


def report_op(rng, s):
    if rng.random() < 0.6:
        return ("recv", f"0;255;3;0;2;{s}", (), gw.DEFAULT_TIME)
    return ("recv", f"0;255;0;0;18;{s}", (), gw.DEFAULT_TIME)


def gen_run_ops(rng, strings, fields_of):
    """One run: traffic before the gateway reports anything, then reports mixed with traffic."""
    ops = []
    for _ in range(rng.randint(0, 6)):
        r = rng.random()
        if r < 0.5:
            ops.append(gate_probe(rng))
        elif r < 0.9:
            for _ in range(20):
                line = gw.gen_line(rng, "2.2")
                if not is_report(fields_of(line)):
                    ops.append(("recv", line, (), gw.DEFAULT_TIME))
                    break
        else:
            ops.append(gw.gen_send(rng, "2.2"))
    for _ in range(rng.randint(0, 7)):
        r = rng.random()
        if r < 0.4:
            ops.append(report_op(rng, rng.choice(strings)))
        elif r < 0.65:
            ops.append(gate_probe(rng))
        elif r < 0.92:
            ops.append(("recv", gw.gen_line(rng, "2.2"), (), gw.DEFAULT_TIME))
        else:
            ops.append(gw.gen_send(rng, "2.2"))
    return ops


def systematic_scenarios():
    """For every stored version x layout: a restarted controller finds the gateway's node on file; the gate is swept
    before anything is reported, then a version is reported that selects another protocol, then the controller is
    restarted again.  And the two-run story from an empty directory: the gateway presents itself in the first run."""
    out = []
    for k, stored in enumerate(STORED):
        layout = "pymysensors" if k % 4 == 3 else "aiomysensors"
        others = {1: (17, "2.3.2", "GPS Sensor", "1.0", 0, 0, False, {1: (1, 38, "", {49: "40.7,-73.9,12"})})}
        later = ["2.0.0", "1.5.3", "2.1.1", "2.2.0"][k % 4]
        runs = [{"object": "new", "ops": gate_sweep() + [("recv", f"0;255;3;0;2;{later}", (), gw.DEFAULT_TIME)] + gate_sweep()},
                {"object": "new", "ops": gate_sweep() + [("recv", f"0;255;0;0;18;{stored}", (), gw.DEFAULT_TIME)] + gate_sweep()[:4]},
                {"object": "same", "ops": gate_sweep()[:6]}]
        out.append({"file": file_text(layout, stored, others), "layout": layout, "runs": runs})
    for k, s in enumerate(["2.2.0", "2.3.2", "2.1.1", "2.0.0", "1.5.0", "1.4.9"]):
        first = [("recv", f"0;255;0;0;18;{s}", (), gw.DEFAULT_TIME), ("recv", f"1;255;0;0;17;{s}", (), gw.DEFAULT_TIME),
                 ("recv", "1;1;0;0;6;temp", (), gw.DEFAULT_TIME)]
        if k % 2 == 0:
            first.append(("recv", f"0;255;3;0;2;{s}", (), gw.DEFAULT_TIME))
        runs = [{"object": "new", "ops": first + gate_sweep()},
                {"object": "new", "ops": gate_sweep() + [("recv", "0;255;3;0;2;2.0.0", (), gw.DEFAULT_TIME)] + gate_sweep()},
                {"object": "new", "ops": gate_sweep()}]
        out.append({"file": None if k % 3 else "", "layout": "none", "runs": runs})
    return out


def fixture_scenarios():
    """The repo's own persistence fixtures as the file a restarted controller finds (when the tree has them)."""
    out = []
    for path in sorted(glob.glob(os.path.join(lib.REPO, "tests", "fixtures", "*.json"))):
        try:
            with open(path, encoding="utf-8") as f:
                text = f.read()
            data = json.loads(text)
        except (OSError, ValueError):
            continue
        if not isinstance(data, dict) or not data or not all(isinstance(v, dict) and "protocol_version" in v for v in data.values()):
            continue
        runs = [{"object": "new", "ops": gate_sweep() + [("recv", "0;255;3;0;2;2.1.1", (), gw.DEFAULT_TIME)] + gate_sweep()},
                {"object": "new", "ops": gate_sweep()}]
        out.append({"file": text, "layout": "fixture", "runs": runs})
    return out


def random_scenarios(rng, n, grid, short, fields_of):
    out = []
    for _ in range(n):
        r = rng.random()
        if r < 0.1:
            text, layout = None, "none"
        elif r < 0.15:
            text, layout = rng.choice(["", "{}"]), "none"
        else:
            layout = "pymysensors" if rng.random() < 0.2 else "aiomysensors"
            k = rng.random()
            stored = None if k < 0.2 else rng.choice(grid) if k < 0.65 else rng.choice(short)
            text = file_text(layout, stored, gen_others(rng))
        strings = [rng.choice(grid) if rng.random() < 0.6 else rng.choice(short) for _ in range(4)]
        runs = []
        for j in range(rng.randint(2, 4)):
            runs.append({"object": "new" if j == 0 or rng.random() < 0.75 else "same", "ops": gen_run_ops(rng, strings, fields_of)})
        out.append({"file": text, "layout": layout, "runs": runs})
    return out


# ---- running a scenario on the implementation ---------------------------------------------------


def _obs(gateway, out, writes):
    return {"out": out, "writes": list(writes), "state": gw.render_state(gateway), "nodes": gw.snapshot_nodes(gateway),
            "pv": gateway.protocol_version, "proto": gateway.protocol.VERSION}


async def _run_scenario(sc, path):
    """Per run: {"fresh", "enter" (outcome), "obs" ([after entering] + one per operation), "exit" (outcome), "after"}."""
    if os.path.exists(path):
        os.unlink(path)
    if sc["file"] is not None:
        with open(path, "w", encoding="utf-8") as f:
            f.write(sc["file"])
    gateway = tr = None
    res = []
    for k, run in enumerate(sc["runs"]):
        fresh = gateway is None or run["object"] == "new"
        if fresh:
            tr = gw.FaultTransport()
            gateway = Gateway(tr, Config(persistence_file=path))
        rec = {"fresh": fresh, "obs": [], "exit": None, "after": None}
        res.append(rec)
        tr.attempts = []
        try:
            await gateway.__aenter__()
            rec["enter"] = "ok"
        except BaseException as e:  # noqa: BLE001
            rec["enter"] = gw.render_exc(e)
            break                    # the file cannot be loaded: not this property's business; the scenario ends here
        rec["obs"].append(_obs(gateway, "init", tr.attempts))
        persistent = k % 3 != 2
        listener = None
        for op in run["ops"]:
            tr.attempts = []
            if op[0] == "recv":
                _, line, faults, now = op
                tr.lines = [line]
                tr.faults = list(faults)
                gw.TIME_STUB.now = tuple(now)
                if listener is None or not persistent:
                    if listener is not None:
                        await listener.aclose()
                    listener = gateway.listen()
                try:
                    out = gw.render_msg(await anext(listener))
                except BaseException as e:  # noqa: BLE001
                    out = gw.render_exc(e)
                    listener = None
            else:
                _, fields, buffer, faults = op
                tr.faults = list(faults)
                obj = Message(*fields) if fields is not None else "not a message"
                try:
                    await gateway.send(obj, message_buffer=buffer)
                    out = "ok"
                except BaseException as e:  # noqa: BLE001
                    out = gw.render_exc(e)
            rec["obs"].append(_obs(gateway, out, tr.attempts))
        if listener is not None:
            await listener.aclose()
        tr.attempts = []
        try:
            await gateway.__aexit__(None, None, None)
            rec["exit"] = "ok"
        except BaseException as e:  # noqa: BLE001
            rec["exit"] = gw.render_exc(e)
        rec["after"] = _obs(gateway, rec["exit"], tr.attempts)
        if rec["exit"] != "ok":
            break
    return res


async def _run_all(scs, path):
    return [await _run_scenario(sc, path) for sc in scs]


def run_scenarios(scs):
    path = os.path.join(lib.scratch(), "c05-sessions.json")
    try:
        return asyncio.run(_run_all(scs, path))
    finally:
        if os.path.exists(path):
            os.unlink(path)


# ---- oracle --------------------------------------------------------------------------------------


def preload_of(nodes):
    pre = []
    for nid, n in nodes.items():
        pre.append(("node", nid, n["type"], n["pv"], n["sn"], n["sv"], n["bat"], n["hb"], n["reboot"], n["sleeping"]))
        for key, c in n["children"].items():
            pre.append(("child", nid, key, c["cid"], c["type"], c["desc"]))
            for t, v in c["values"].items():
                pre.append(("val", nid, key, t, v))
    return pre


def _modelable(pre) -> bool:
    for p in pre:
        for x in p:
            if isinstance(x, str) and lib.has_surrogate(x):
                return False
            if x is None or isinstance(x, float):
                return False
    return True


def judge(sc, res, corr, want_of, fields_of, tables):
    """The property's oracle over one scenario's observations.  Returns [(run index, Hist, observations)] for the model."""
    ref = None                      # the last accepted version report seen by the current Gateway object
    for_model = []

    def active(r):
        return "1.4" if r is None else want_of(r)

    def state_ok(o, where, k, step, ops_upto):
        if o["pv"] == ref and o["proto"] == active(ref):
            return True
        case = {"sessions": scenario_to_json(sc, k + 1, ops_upto), "run": k, "step": step, "outcome": o["out"],
                "reported_by_gateway": None if ref is None else ref[:60],
                "protocol_version": None if o["pv"] is None else str(o["pv"])[:60],
                "active": o["proto"], "want_active": active(ref), "nodes_after_load": sorted(res[k]["obs"][0]["nodes"])}
        if ref is None and o["pv"] is not None:
            corr.violate(f"no version has been reported to this gateway object, but {where} a version counts as reported "
                         "(the version query is no longer sent, the rules in force are not those of 1.4)", case)
        elif ref is None:
            corr.violate(f"no version has been reported to this gateway object, but {where} the active protocol is not 1.4", case)
        elif o["pv"] != ref:
            corr.violate(f"{where} the reported version is not the last version the gateway reported", case)
        else:
            corr.violate(f"{where} the reported version and the active protocol disagree", case)
        return False

    for k, (run, rec) in enumerate(zip(sc["runs"], res)):
        if rec["fresh"]:
            ref = None
        corr.count("psession:run:" + ("new-object" if rec["fresh"] else "same-object"))
        corr.count("psession:enter:" + ("ok" if rec["enter"] == "ok" else rec["enter"].replace(" ", "-")))
        if rec["enter"] != "ok":
            return for_model
        obs = rec["obs"]
        stored0 = obs[0]["nodes"].get(0)
        if stored0 is not None and ref is None:
            corr.count("psession:entered-with-stored-gateway-node-and-nothing-reported:"
                       + ("selectable" if want_of(stored0["pv"]) is not None else "unselectable"))
        corr.case(("psession-enter", sc["file"], k, json.dumps(scenario_to_json(sc, k, None)["runs"])), stored0 is not None,
                  {"sessions": "enter", "new_object": rec["fresh"], "stored_gateway_version": None if stored0 is None else stored0["pv"][:40],
                   "protocol_version": obs[0]["pv"], "active": obs[0]["proto"]} if stored0 is not None else None)
        pre = preload_of(obs[0]["nodes"])
        if _modelable(pre) and not any(lib.has_surrogate(op[1]) for op in run["ops"] if op[0] == "recv"):
            # the model's version at `gnew` is the reference value, never what the implementation shows
            for_model.append((k, Hist(ref, True, pre, list(run["ops"][:len(obs) - 1])), obs))
        if not state_ok(obs[0], "after entering the context", k, "enter", 0):
            return for_model
        ok = True
        for i, op in enumerate(run["ops"]):
            before, o = obs[i], obs[i + 1]
            ref_before = ref
            f = fields_of(op[1]) if op[0] == "recv" else None
            faults = op[2] if op[0] == "recv" else op[3]
            rejected = False
            if is_report(f) and not faults:
                if want_of(f[5]) is None:
                    rejected = True
                else:
                    ref = f[5]
            corr.count("psession:op:" + ("report" if is_report(f) else op[0]) + (":before-any-report" if ref_before is None else ":version-known"))
            nt = ref != ref_before or rejected or "unsupported" in o["out"] or (ref_before is None and 0 in before["nodes"])
            corr.case(("psession", sc["file"], k, i, json.dumps(scenario_to_json(sc, k + 1, i + 1)["runs"])), nt,
                      {"sessions": "op", "op": list(op), "outcome": o["out"], "reported_by_gateway": ref, "active": o["proto"]} if nt else None)
            if not state_ok(o, "after this operation", k, i, i + 1):
                ok = False
                break
            case = {"sessions": scenario_to_json(sc, k + 1, i + 1), "run": k, "step": i, "outcome": o["out"],
                    "reported_by_gateway": None if ref_before is None else ref_before[:60], "active": o["proto"]}
            if rejected and o["out"] != "err invalidMessage":
                corr.violate("a rejected version report is not an invalid-message error", case)
                ok = False
                break
            if f is not None and not faults and f[1] == 255 and f[2] in (3, 4) and (f[2] == 3 or f[0] in before["nodes"]):
                kind = "internal" if f[2] == 3 else "stream"
                exists = str(f[4]) in tables(active(ref_before))[kind]
                corr.count(f"psession:gate:{kind}:" + ("exists" if exists else "absent") + (":before-any-report" if ref_before is None else ""))
                if exists == (o["out"] == "err unsupported"):
                    corr.violate(f"{kind} type gate: a type of the protocol in force ({active(ref_before)}) refused, or one that does "
                                 "not exist in it accepted", case)
                    ok = False
                    break
        if not ok:
            return for_model
        corr.count("psession:exit:" + ("ok" if rec["exit"] == "ok" else str(rec["exit"]).replace(" ", "-")))
        if rec["after"] is not None and not state_ok(rec["after"], "after leaving the context", k, "exit", len(run["ops"])):
            return for_model
        if rec["exit"] != "ok":
            return for_model
    return for_model


def compare_with_model(items, corr, project):
    """items: [(scenario, run index, Hist, observations)].  Version view, as for the ordinary histories."""
    if not items:
        return
    lines = []
    for _, _, h, _ in items:
        lines.extend(gw.model_lines(h))
    outs = lib.run_model(lines)
    pos = 0
    for sc, k, h, io in items:
        n = gw.n_model_lines(h)
        mo = gw.model_obs(h, outs[pos:pos + n])
        pos += n
        for i, (o, (mout, mstate)) in enumerate(zip(io, mo)):
            iout = o["out"] + gw.render_writes(o["writes"]) if i else "init W"
            a, bb = project("version", iout, o["state"]), project("version", mout, mstate)
            if a != bb:
                corr.disagree("version view, session with a persistence file (run = gnew + the loaded registry + the run's operations)",
                              {"sessions": scenario_to_json(sc, k + 1, i), "run": k, "step": i, "view": "version",
                               "impl": list(a), "model": list(bb)})
                break


def run(corr, ctx, grid, short, want_of, fields_of, tables, project):
    rng = lib.rng_for(ctx.seed, "c05-sessions")
    n = 110 if ctx.tier == "quick" else 1500
    scs = systematic_scenarios() + fixture_scenarios() + random_scenarios(rng, n, grid, short, fields_of)
    results = run_scenarios(scs)
    items = []
    for sc, res in zip(scs, results):
        corr.count("psession:scenario")
        corr.count("psession:file:" + sc.get("layout", "?"))
        for k, h, obs in judge(sc, res, corr, want_of, fields_of, tables):
            items.append((sc, k, h, obs))
    if ctx.model_ok:
        compare_with_model(items, corr, project)
    corr.notes.append(
        "sessions with a persistence file (harness/props/versessions.py): the gateway model has no operation for files, "
        "entering or leaving the context; entering / leaving are judged by the property's oracle alone (reference = the last "
        "accepted version report seen by the Gateway object, None for a new object whatever the file contains); each run is "
        "additionally compared with the model as gnew(reference version) + the registry found after loading + the run's operations "
        f"on the version view ({len(items)} runs)")


# ---- replay ---------------------------------------------------------------------------------------


def replay(case) -> None:
    sc = {"file": case["sessions"]["file"], "runs": [{"object": r["object"], "ops": ops_from_json(r["ops"])} for r in case["sessions"]["runs"]]}
    text = sc["file"]
    print("persistence file before the first run:", "absent" if text is None else (text if len(text) < 1500 else text[:1500] + " ..."))
    res = run_scenarios([sc])[0]
    for k, (run_, rec) in enumerate(zip(sc["runs"], res)):
        print(f"run {k}: {'new Gateway object' if rec['fresh'] else 'same Gateway object'}, enter -> {rec['enter']}")
        if rec["obs"]:
            o = rec["obs"][0]
            print(f"   after entering: protocol_version={o['pv']!r} active={o['proto']} nodes={sorted(o['nodes'])}")
        for i, op in enumerate(run_["ops"]):
            if i + 1 < len(rec["obs"]):
                o = rec["obs"][i + 1]
                print(f"   step {i}: {op}")
                print(f"      impl: {o['out']} writes={[w[0] for w in o['writes']]} protocol_version={o['pv']!r} active={o['proto']}")
        if rec["after"] is not None:
            print(f"   leave -> {rec['exit']}: protocol_version={rec['after']['pv']!r} active={rec['after']['proto']}")
