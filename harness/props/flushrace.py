"""C09: no set command is lost when `send` races with the wake-up flush.

The REAL `Gateway` (protocol 2.0 / 2.1: heartbeat response is the wake; 2.2: pre-sleep
notification) runs under a schedule-controlled transport: every `transport.write` waits at three
gates (`begin`, `append`, `end`), so the listener task is advanced one atomic block at a time; up to
three application tasks make their `await gateway.send(Message(...))` calls (default buffering, node
registered and sleeping) when told to.  The schedule is the same list of choices the Lean model
executes (`lean/DriverFlush.lean`):

    s<i>    task i makes its next call            wake    the wake line is delivered to listen()
    begin   the listener's write is entered       append  its bytes reach the wire
    end     the write returns (then: the `is` test, the pop, the next iteration up to its write)

and, for the schedules with a reconnect (the application's `while True: try: async with gateway: async for
... in gateway.listen() ... except TransportError: continue`), two choices that the Lean model does not have:

    drop    the link goes down: the listener's `read()` (idle) or its write that is waiting at `begin` / `append`
            (nothing of it has reached the wire) raises TransportFailedError; listen() ends with it and the
            listener leaves `async with gateway` (`__aexit__` with that exception)
    up      the listener enters `async with gateway` again (the SAME Gateway object) and calls listen() again

Application tasks may call send between `drop` and `up` (the node sleeps: the command is parked).  For the model
both are no-ops while the listener is idle (the buffers persist over a reconnect: the observation after the step must
equal the one before it); a drop that aborts a flush has no model step, the comparison stops there and the rest of the
run is judged by the oracle alone.

After every step the `set_messages` of the gateway's sleep buffer (`lib.sleep_buffer`) (keys in order, payloads, object identity),
the wire (lines in order, with the object each line was encoded from) and the listener's position are
compared with the model.  After the schedule the node wakes once more with nothing else running, and
the property's three clauses are evaluated on the real trace — in Python, without the model.

A step that the real system cannot take (task not at that point) means the schedule enumeration is
wrong (or the code's control flow is no longer the modelled one): it is never reported as a violation
of the property; the step is skipped and recorded as a disagreement, and the oracle still judges the
real trace.  Nothing can hang: every wait of a case happens under the case deadline (`HarnessBug` when
it is reached) and all tasks of a case are cancelled when it ends.
"""

from __future__ import annotations

import asyncio
import contextlib
import functools
import itertools
import json
from collections import Counter

from .. import lib
from ..lib import Corr

lib.use_repo()

from aiomysensors.exceptions import TransportError, TransportFailedError  # noqa: E402
from aiomysensors.gateway import Gateway  # noqa: E402
from aiomysensors.model.message import Message  # noqa: E402
from aiomysensors.model.node import Child, Node  # noqa: E402
from aiomysensors.transport import Transport  # noqa: E402

DRIVER = "DriverFlush.lean"
LINK_DOWN = object()    # read() raises TransportFailedError when it takes this from the queue
LINK_TOKENS = ("drop", "up")
CASE_TIMEOUT = 20.0     # every wait of a case happens under this deadline
NODE = 1
WAKE_LINE = {"2.0": f"{NODE};255;3;0;22;1111", "2.1": f"{NODE};255;3;0;22;7", "2.2": f"{NODE};255;3;0;32;500"}
WAKE_VERSIONS = ["2.0", "2.1", "2.2"]
# (node, child, value type): two children, two value types
KEYS = {"A": (NODE, 0, 2), "B": (NODE, 1, 2), "C": (NODE, 0, 49), "D": (NODE, 1, 49), "E": (NODE, 2, 2),
        "F": (NODE, 2, 49), "G": (NODE, 3, 2)}


enc = functools.lru_cache(maxsize=None)(lib.enc)


@functools.lru_cache(maxsize=None)
def show_entry(key, payload, serial) -> str:
    return f"{key[0]}.{key[1]}.{key[2]}={enc(payload)}#{serial}"


@functools.lru_cache(maxsize=None)
def show_line(line, serial) -> str:
    return f"{enc(line)}#{serial}"


class HarnessBug(RuntimeError):
    """The harness itself went wrong (a wait ran into its timeout, an unknown choice, ...)."""


class NotEnabled(HarnessBug):
    """The schedule asks for a step the real task is not able to take at this point."""


# ---- the schedule-controlled transport -------------------------------------------------------


class GatedTransport(Transport):
    """Reads deliver the lines put into `readq`; a write stops at three gates until released."""

    def __init__(self) -> None:
        self.readq: asyncio.Queue[str] = asyncio.Queue()
        self.wire: list[tuple[str, object]] = []      # (line, message object it was encoded from)
        self.phase: str | None = None                  # gate the gated write is waiting at
        self.gate: asyncio.Event | None = None
        self.progress = asyncio.Event()                # set whenever a task reaches a gate or finishes
        self.gated_task: asyncio.Task | None = None    # only this task's writes are gated (the listener)
        self.current: dict = {}                        # task -> message object being sent (set by the send spy)
        self.ungated_writes = 0
        self.connects = 0
        self.disconnects = 0
        self.fail = False                              # the write waiting at a gate raises instead of going on

    async def connect(self) -> None:
        self.connects += 1

    async def disconnect(self) -> None:
        self.disconnects += 1

    async def read(self) -> str:
        item = await self.readq.get()
        if item is LINK_DOWN:
            raise TransportFailedError("link down")
        return item

    async def _gate(self, name: str) -> None:
        self.gate = asyncio.Event()
        self.phase = name
        self.progress.set()
        await self.gate.wait()
        if self.fail:
            self.fail = False
            self.phase = None
            self.gate = None
            raise TransportFailedError("link down")

    async def write(self, decoded_message: str) -> None:
        task = asyncio.current_task()
        obj = self.current.get(task)
        if task is not self.gated_task:
            # An application task reached the transport: outside the modelled scope (it should have
            # parked).  Never block it; the difference shows up in the comparison and in the oracle.
            self.ungated_writes += 1
            self.wire.append((decoded_message, obj))
            return
        await self._gate("begin")
        await self._gate("append")
        self.wire.append((decoded_message, obj))
        await self._gate("end")
        self.phase = None
        self.gate = None

    def release(self, name: str) -> None:
        if self.phase != name or self.gate is None or self.gate.is_set():
            raise NotEnabled(f"listener is not waiting at gate {name!r} (it is at {self.phase!r})")
        self.progress.clear()
        self.gate.set()

    def fail_write(self) -> None:
        """The link goes down under the write in progress, before any of its bytes reached the wire."""
        if self.phase not in ("begin", "append") or self.gate is None or self.gate.is_set():
            raise NotEnabled(f"no write is waiting before its bytes reach the wire (listener at {self.phase!r})")
        self.fail = True
        self.progress.clear()
        self.gate.set()


# ---- one case on the real gateway ------------------------------------------------------------


class Case:
    """version, parked [(keyname, payload)], senders [[(keyname, payload)]], schedule [token]."""

    def __init__(self, version, parked, senders, schedule=None, origin="enum", drops=0):
        self.version = version
        self.parked = [tuple(x) for x in parked]
        self.senders = [[tuple(x) for x in s] for s in senders]
        self.schedule = list(schedule) if schedule is not None else None
        self.origin = origin
        self.drops = drops      # random schedules only: how often the link may go down

    def to_json(self):
        j = {"version": self.version, "parked": [list(x) for x in self.parked],
             "senders": [[list(x) for x in s] for s in self.senders], "schedule": self.schedule,
             "origin": self.origin}
        if self.drops:
            j["drops"] = self.drops
        return j

    @staticmethod
    def from_json(j, origin="corpus"):
        return Case(j["version"], j["parked"], j["senders"], j["schedule"], origin, j.get("drops", 0))


class Run:
    """The real gateway with its tasks, advanced step by step."""

    def __init__(self, case: Case) -> None:
        self.case = case
        self.tr = GatedTransport()
        gw = self.gw = Gateway(self.tr)
        gw.protocol_version = case.version
        node = Node(NODE, 17, case.version, sleeping=True)
        for key in KEYS.values():
            node.children.setdefault(key[1], Child(key[1], 3))
        gw.nodes[NODE] = node
        self.serial: dict[int, int] = {}     # id(message object) -> order of its send call
        self.keep: list[Message] = []        # keeps every object alive, so id() stays unique
        self.sent: list[tuple[tuple, str, int]] = []   # (key, payload, serial) in call order
        self.errors: list[str] = []
        self.agen = None
        self.listener: asyncio.Task | None = None
        self.go: list[asyncio.Event] = []
        self.done_calls: list[int] = []
        self.sender_tasks: list[asyncio.Task] = []
        self.wakes = 0
        self.in_flush = False
        self.waiting_for = "start"
        self.ctx: contextlib.AsyncExitStack | None = None   # holds `async with gateway` open between steps
        self.link_up = False
        self.drops = 0
        self.link_errors: list[str] = []     # the transport errors with which listen() ended at a drop
        orig_send = gw.send
        tr = self.tr

        async def send_spy(message, *, message_buffer=True):
            # records which object the current task is sending; calls the real method unchanged
            task = asyncio.current_task()
            prev = tr.current.get(task)
            tr.current[task] = message
            try:
                await orig_send(message, message_buffer=message_buffer)
            finally:
                if prev is None:
                    tr.current.pop(task, None)
                else:
                    tr.current[task] = prev

        gw.send = send_spy  # instance attribute of this harness-owned object; /repo is untouched

    # -- tasks

    def _new_message(self, keyname: str, payload: str) -> Message:
        n, c, t = KEYS[keyname]
        m = Message(n, c, 1, 0, t, payload)
        self.serial[id(m)] = len(self.keep)
        self.keep.append(m)
        self.sent.append(((n, c, t), payload, self.serial[id(m)]))
        return m

    async def _sender(self, i: int, calls) -> None:
        for keyname, payload in calls:
            await self.go[i].wait()
            self.go[i].clear()
            m = self._new_message(keyname, payload)
            try:
                await self.gw.send(m)
            except Exception as e:  # noqa: BLE001
                self.errors.append(f"send raised {type(e).__name__}")
            self.done_calls[i] += 1
            self.tr.progress.set()

    async def _listen_once(self):
        return await anext(self.agen)

    def _start_listener(self) -> None:
        self.listener = asyncio.get_running_loop().create_task(self._listen_once())
        self.tr.gated_task = self.listener
        self.listener.add_done_callback(lambda _t: self.tr.progress.set())

    async def _wait_progress(self, what: str) -> None:
        self.waiting_for = what
        # Bounded by the case deadline in `run_case`.  `progress` is set by the advanced task in the
        # same run slice in which it suspends again or finishes, so when this returns it is at rest.
        await self.tr.progress.wait()

    def _reap_listener(self) -> None:
        """A finished listener: note an exception, and put a fresh `anext` in `read()`."""
        if self.listener is not None and self.listener.done():
            if not self.listener.cancelled() and self.listener.exception() is not None:
                self.errors.append(f"listener raised {type(self.listener.exception()).__name__}")
                self.agen = self.gw.listen()   # a generator that raised is finished: listen() again
            self.listener = None

    async def _enter(self) -> None:
        """`async with gateway:` is entered (AsyncExitStack = the with statement, split over two steps)."""
        self.ctx = contextlib.AsyncExitStack()
        try:
            await self.ctx.enter_async_context(self.gw)
        except Exception as e:  # noqa: BLE001
            self.errors.append(f"__aenter__ raised {type(e).__name__}")
        self.link_up = True
        self.agen = self.gw.listen()

    async def _leave(self, exc: BaseException | None) -> None:
        """The `async with gateway:` block is left, with the exception that ended listening (if any)."""
        ctx, self.ctx = self.ctx, None
        self.link_up = False
        if ctx is None:
            return
        try:
            if exc is None:
                await ctx.aclose()
            else:
                await ctx.__aexit__(type(exc), exc, exc.__traceback__)
        except Exception as e:  # noqa: BLE001
            if e is not exc:
                self.errors.append(f"__aexit__ raised {type(e).__name__}")

    async def start(self) -> None:
        await self._enter()
        for keyname, payload in self.case.parked:
            await self.gw.send(self._new_message(keyname, payload))
        loop = asyncio.get_running_loop()
        for i, calls in enumerate(self.case.senders):
            self.go.append(asyncio.Event())
            self.done_calls.append(0)
            self.sender_tasks.append(loop.create_task(self._sender(i, calls)))
        self._start_listener()
        await asyncio.sleep(0)   # every task reaches its first wait

    # -- what can run now (read off the real tasks)

    def enabled(self) -> list[str]:
        out = [f"s{i}" for i, calls in enumerate(self.case.senders) if self.done_calls[i] < len(calls)]
        if not self.link_up:
            out.append("up")
            return out
        if self.in_flush:
            if self.tr.phase is not None:
                out.append(self.tr.phase)
            if self.drops < self.case.drops and self.tr.phase in ("begin", "append"):
                out.append("drop")
        else:
            out.append("wake")
            if self.drops < self.case.drops:
                out.append("drop")
        return out

    async def step(self, tok: str) -> None:
        tr = self.tr
        if tok == "drop":
            await self._drop()
        elif tok == "up":
            if self.link_up:
                raise NotEnabled("up while the link is up")
            await self._enter()
        elif tok == "wake":
            if not self.link_up:
                raise NotEnabled("wake while the link is down")
            if self.in_flush:
                raise NotEnabled("wake while the listener is still flushing")
            if self.listener is None:
                self._start_listener()
                await asyncio.sleep(0)
            tr.progress.clear()
            tr.readq.put_nowait(WAKE_LINE[self.case.version])
            self.in_flush = True
            self.wakes += 1
            await self._wait_progress("wake")
        elif tok in ("begin", "append", "end"):
            if not self.in_flush:
                raise NotEnabled(f"{tok} while the listener is not flushing")
            tr.release(tok)
            await self._wait_progress(tok)
        elif tok.startswith("s"):
            i = int(tok[1:])
            if i >= len(self.case.senders) or self.done_calls[i] >= len(self.case.senders[i]):
                raise NotEnabled(f"task {i} has no call left")
            before = self.done_calls[i]
            tr.progress.clear()
            self.go[i].set()
            await self._wait_progress(tok)
            if self.done_calls[i] != before + 1:
                raise HarnessBug(f"task {i} did not complete its call")
        else:
            raise HarnessBug(f"unknown choice {tok}")
        if self.in_flush and self.listener is not None and self.listener.done():
            self.in_flush = False
            self._reap_listener()

    async def _drop(self) -> None:
        """The link goes down.  The listener's pending transport call raises; if listen() ends with that, the listener
        leaves the gateway context (what `except TransportError: continue` around `async with gateway:` does)."""
        tr = self.tr
        if not self.link_up:
            raise NotEnabled("drop while the link is down")
        if self.in_flush:
            tr.fail_write()      # NotEnabled unless the write waits at `begin` / `append`
        else:
            if self.listener is None:
                self._start_listener()
                await asyncio.sleep(0)
            tr.progress.clear()
            tr.readq.put_nowait(LINK_DOWN)
        self.drops += 1
        await self._wait_progress("drop")
        lst = self.listener
        if lst is None or not lst.done():
            # the failure was swallowed and the listener goes on (it waits at its next gate): the application has
            # seen nothing, the context stays entered
            self.errors.append("the listener went on after the transport failed")
            return
        exc = None if lst.cancelled() else lst.exception()
        self.listener = None
        self.in_flush = False
        if isinstance(exc, TransportError):
            self.link_errors.append(type(exc).__name__)
        elif exc is not None:
            self.errors.append(f"listener raised {type(exc).__name__}")
        else:
            self.errors.append("listen() yielded a message although the transport failed")
        await self._leave(exc)

    async def final_wake(self) -> None:
        """The node wakes once more; nothing else runs; gates are released as they are reached."""
        await self.step("wake")
        guard = 0
        while self.in_flush:
            guard += 1
            if guard > 400 or self.tr.phase is None:
                raise HarnessBug("final wake does not come to an end")
            await self.step(self.tr.phase)

    async def close(self) -> None:
        tasks = [t for t in [self.listener, *self.sender_tasks] if t is not None and not t.done()]
        for t in tasks:
            t.cancel()
        if tasks:
            await asyncio.gather(*tasks, return_exceptions=True)
        try:
            if self.agen is not None:
                await self.agen.aclose()
        except Exception:  # noqa: BLE001
            pass
        try:
            await self._leave(None)
        except Exception:  # noqa: BLE001
            pass

    # -- observations

    def buf(self):
        out = []
        for key, m in lib.sleep_buffer(self.gw).set_messages.items():
            out.append((tuple(key), m.payload, self.serial.get(id(m), -1)))
        return out

    def wire(self):
        out = []
        for line, obj in self.tr.wire:
            out.append((line, self.serial.get(id(obj), -1) if obj is not None else -1))
        return out

    def pc(self) -> str:
        if not self.in_flush:
            return "idle"
        return {"begin": "flush:-", "append": "flush:0", "end": "flush:1"}.get(self.tr.phase, "flush:?")

    def observe(self) -> str:
        """Same shape as the model's observation, minus the number of snapshot entries left."""
        b = " ".join(show_entry(k, p, s) for k, p, s in self.buf())
        w = " ".join(show_line(line, s) for line, s in self.wire())
        lg = " ".join(show_entry(k, p, s) for k, p, s in self.sent)
        left = ",".join(str(len(c) - d) for c, d in zip(self.case.senders, self.done_calls))
        return f"pc={self.pc()} buf=[{b}] wire=[{w}] log=[{lg}] left={left}"


def canon_model(out: str) -> str:
    """The model's observation with wire entries rendered as the lines the encoder produces and the
    count of snapshot entries dropped from the pc (the real listener's local variable is not observed)."""
    status, _, rest = out.partition(" ")
    # fields are `pc=.. buf=[..] wire=[..] log=[..] left=..`; split on the field names
    i_buf, i_wire, i_log, i_left = rest.index(" buf=["), rest.index(" wire=["), rest.index(" log=["), rest.index(" left=")
    pc = rest[3:i_buf]
    if pc.startswith("flush:"):
        pc = "flush:" + pc.split(":")[2]
    wire = rest[i_wire + 7:i_log - 1]
    lines = []
    for ent in wire.split(" ") if wire else []:
        kv, _, ident = ent.partition("#")
        key, _, val = kv.partition("=")
        n, c, t = key.split(".")
        lines.append(f"{enc(f'{n};{c};1;0;{t};{lib.dec(val)}' + chr(10))}#{ident}")
    return f"{status} pc={pc}{rest[i_buf:i_wire]} wire=[{' '.join(lines)}]{rest[i_log:]}"


def model_ops(case: Case, schedule) -> list[str]:
    def kvs(lst):
        return "|".join(f"{KEYS[k][0]}.{KEYS[k][1]}.{KEYS[k][2]}={enc(p)}" for k, p in lst) if lst else "-"
    senders = "/".join(kvs(s) for s in case.senders) if case.senders else "0"
    return [f"fnew {kvs(case.parked)} {senders}"] + [f"fstep {t}" for t in schedule] + ["ffinal"]


# ---- the oracle: the property's three clauses on the real trace ---------------------------------


def parse_line(line: str):
    f = line.rstrip("\n").split(";", 5)
    if len(f) != 6 or not line.endswith("\n"):
        return None
    try:
        n, c, cmd, ack, t = (int(x) for x in f[:5])
    except ValueError:
        return None
    return (n, c, t), cmd, f[5]


def oracle(sent, wire, errors, ungated):
    """sent: [(key, payload, serial)] in call order; wire: [(line, serial or -1)] in write order.
    Returns the list of violated clauses (strings)."""
    bad = []
    written = []
    for line, serial in wire:
        p = parse_line(line)
        if p is None or p[1] != 1:
            bad.append(f"clause 2: a write that is not a set command: {line!r}")
            continue
        written.append((p[0], p[2], serial))
    # 1. the last value sent for each key is the last value written for it
    last_sent, last_written = {}, {}
    for key, payload, serial in sent:
        last_sent[key] = (payload, serial)
    for key, payload, serial in written:
        last_written[key] = (payload, serial)
    for key, (payload, serial) in last_sent.items():
        if key not in last_written:
            bad.append(f"clause 1: nothing was written for key {key}; last sent {payload!r}")
        elif last_written[key][0] != payload:
            bad.append(f"clause 1: key {key}: last sent {payload!r}, last written {last_written[key][0]!r}")
        elif last_written[key][1] not in (-1, serial):
            bad.append(f"clause 1: key {key}: the last write carries the last value but is an older message object")
    # 2. every write carries a value that was actually sent
    sent_kv = Counter((k, p) for k, p, _ in sent)
    sent_obj = Counter(sent)
    for key, payload, serial in written:
        if (key, payload) not in sent_kv:
            bad.append(f"clause 2: ({key}, {payload!r}) was written but never sent")
        elif serial != -1 and (key, payload, serial) not in sent_obj:
            bad.append(f"clause 2: message object #{serial} written under ({key}, {payload!r}) was not sent like that")
    # 3. no value is written more often than it was sent
    for kv, n in Counter((k, p) for k, p, _ in written).items():
        if n > sent_kv.get(kv, 0):
            bad.append(f"clause 3: {kv} written {n} times, sent {sent_kv.get(kv, 0)} times")
    for obj, n in Counter(w for w in written if w[2] != -1).items():
        if n > sent_obj.get(obj, 0):
            bad.append(f"clause 3: message object #{obj[2]} written {n} times, sent {sent_obj.get(obj, 0)} time(s)")
    return bad


# ---- running one case ------------------------------------------------------------------------


async def run_case(case: Case, rng=None, max_steps=0):
    """Execute a case on the real gateway.  With `case.schedule is None` the schedule is drawn step
    by step from what the real tasks can do (`rng`), and stored into the case.
    Returns (observations per step incl. initial and final, oracle violations, info)."""
    run = Run(case)
    obs = []
    try:
        async with asyncio.timeout(CASE_TIMEOUT):
            return await _run_case(run, case, obs, rng, max_steps)
    except TimeoutError:
        raise HarnessBug(f"no progress within {CASE_TIMEOUT}s after step {len(obs)} ({run.waiting_for}) of "
                         f"{json.dumps(case.to_json())}") from None
    finally:
        await run.close()


async def _run_case(run, case, obs, rng, max_steps):
    await run.start()
    obs.append(run.observe())
    not_enabled = []
    if case.schedule is not None:
        for j, tok in enumerate(case.schedule):
            try:
                await run.step(tok)
            except NotEnabled as e:
                # wrong enumeration, or the code's control flow is not the modelled one: the step is
                # skipped, the comparison with the model reports it, the oracle still sees the trace
                not_enabled.append([j, tok, str(e)])
            obs.append(run.observe())
    else:
        sched = []
        while True:
            en = run.enabled()
            calls_left = any(t.startswith("s") for t in en)
            if not run.in_flush and not calls_left and run.wakes >= 1 and run.link_up:
                break
            if len(sched) >= max_steps:
                # wind down: finish the flush in progress and the outstanding calls, no new wake, no new drop
                en = [t for t in en if t not in ("wake", "drop")] or en
            elif "wake" in en and run.wakes >= 3:
                en = [t for t in en if t != "wake"] or en
            tok = rng.choice(en)
            sched.append(tok)
            await run.step(tok)
            obs.append(run.observe())
        case.schedule = sched
    drained = 0
    if not run.link_up:
        drained += 1                     # the schedule left the link down: the listener connects again
        await run.step("up")
    while run.in_flush and run.tr.phase is not None and drained < 400:
        drained += 1                     # the schedule left the listener inside a flush: let it finish
        await run.step(run.tr.phase)
    for i, calls in enumerate(case.senders):
        while run.done_calls[i] < len(calls):
            drained += 1                 # ... or calls unmade: make them
            await run.step(f"s{i}")
    if drained:
        not_enabled.append([len(case.schedule), "<end>", f"{drained} steps were needed after the schedule"])
    await run.final_wake()
    obs.append(run.observe())
    sent, wire = list(run.sent), run.wire()
    bad = oracle(sent, wire, run.errors, run.tr.ungated_writes)
    info = {"errors": list(run.errors), "not_enabled": not_enabled, "ungated_writes": run.tr.ungated_writes, "wakes": run.wakes,
            "drops": run.drops, "link_errors": list(run.link_errors), "connects": run.tr.connects,
            "sent": [[list(k), p, s] for k, p, s in sent], "wire": [[line, s] for line, s in wire],
            "left_parked": [[list(k), p, s] for k, p, s in run.buf()]}
    return obs, bad, info


# ---- schedule enumeration (one wake concurrent with the calls) -----------------------------------


def enumerate_schedules(case: Case):
    """All maximal interleavings of the application tasks' calls with ONE wake of the listener.
    Only enabledness is tracked: how many calls each task has made, where the listener is, and how many
    distinct keys are parked when the wake starts (= the length of the snapshot)."""
    senders = case.senders
    out = []

    def rec(done, lst, keys, sched):
        # lst: None = not woken yet; ("f", entries left, phase 0..2) ; "done"
        progressed = False
        for i, calls in enumerate(senders):
            if done[i] < len(calls):
                progressed = True
                d2 = done[:i] + (done[i] + 1,) + done[i + 1:]
                rec(d2, lst, keys | {calls[done[i]][0]}, sched + [f"s{i}"])
        if lst is None:
            progressed = True
            n = len(keys)
            rec(done, ("f", n, 0) if n else "done", keys, sched + ["wake"])
        elif lst != "done":
            progressed = True
            _, n, ph = lst
            tok = ("begin", "append", "end")[ph]
            nxt = ("f", n, ph + 1) if ph < 2 else (("f", n - 1, 0) if n > 1 else "done")
            rec(done, nxt, keys, sched + [tok])
        if not progressed:
            out.append(sched)

    rec(tuple(0 for _ in senders), None, frozenset(k for k, _ in case.parked), [])
    return out


def enumerate_reconnect_schedules(case: Case, wake=True):
    """All maximal interleavings of the application tasks' calls with ONE reconnect of the listener (`drop` ... `up`,
    calls may fall in between) and, with `wake`, ONE wake of the listener: the link drops before the wake, under a
    write of the flush that waits at `begin` or `append` (the flush is aborted, what is left stays for the next
    wake), or after the flush.  Without `wake` the node sleeps through the whole schedule.  The final wake of every
    case comes after the schedule.  Only enabledness is tracked, as in `enumerate_schedules`."""
    senders = case.senders
    out = []

    def rec(done, lst, keys, link, sched):
        # lst: None = not woken yet; ("f", entries left, phase 0..2); "done".  link: "new" | "down" | "again"
        progressed = False
        for i, calls in enumerate(senders):
            if done[i] < len(calls):
                progressed = True
                d2 = done[:i] + (done[i] + 1,) + done[i + 1:]
                rec(d2, lst, keys | {calls[done[i]][0]}, link, sched + [f"s{i}"])
        if link == "down":
            rec(done, lst, keys, "again", sched + ["up"])
            return
        if lst is None and wake:
            progressed = True
            n = len(keys)
            rec(done, ("f", n, 0) if n else "done", keys, link, sched + ["wake"])
        elif lst not in (None, "done"):
            progressed = True
            _, n, ph = lst
            tok = ("begin", "append", "end")[ph]
            nxt = ("f", n, ph + 1) if ph < 2 else (("f", n - 1, 0) if n > 1 else "done")
            rec(done, nxt, keys, link, sched + [tok])
        if link == "new" and (lst in (None, "done") or lst[2] < 2):
            progressed = True
            rec(done, lst if lst is None else "done", keys, "down", sched + ["drop"])
        if not progressed:
            out.append(sched)

    rec(tuple(0 for _ in senders), None, frozenset(k for k, _ in case.parked), "new", [])
    return out


def model_view(schedule, obs):
    """What of a run the Lean model can follow: (model operations, implementation observations to compare them
    with, steps at which a reconnect was not the no-op the model takes it for).  `drop` / `up` while the listener is
    idle have no model operation: the observation after the step must equal the one before.  A drop that aborts a
    flush cannot be expressed: the comparison ends before it (no final wake in the model either)."""
    ops, keep, changed = [], [obs[0]], []
    for j, tok in enumerate(schedule):
        if tok in LINK_TOKENS:
            if tok == "drop" and "pc=flush" in obs[j]:
                return ops, keep, changed, True
            if obs[j + 1] != obs[j]:
                changed.append(j)
                return ops, keep, changed, True
            continue
        ops.append(f"fstep {tok}")
        keep.append(obs[j + 1])
    ops.append("ffinal")
    keep.append(obs[-1])
    return ops, keep, changed, False


def sender_shapes(seq):
    """Ways to give a sequence of calls to at most three tasks, each keeping its calls in order
    (contiguous blocks: the interleavings of the tasks generate all other orders)."""
    n = len(seq)
    if n == 0:
        return [[]]
    shapes = []
    for cuts in range(0, min(n, 3)):
        for pos in itertools.combinations(range(1, n), cuts):
            b = [0, *pos, n]
            shapes.append([seq[b[j]:b[j + 1]] for j in range(len(b) - 1)])
    return shapes


def canonical_key_seqs(n_parked, n_sends, keynames="ABCDE"):
    """Key sequences up to renaming: a key is named by its first occurrence."""
    out = []

    def rec(seq, used):
        if len(seq) == n_parked + n_sends:
            out.append(seq)
            return
        for j in range(min(used + 1, len(keynames))):
            rec(seq + [keynames[j]], max(used, j + 1))

    rec([], 0)
    return out


def configs(parked_counts, call_counts, shapes_for):
    """Configurations up to renaming of keys: `n` parked commands and `m` calls for every key pattern
    (which keys coincide, in which order), every split over tasks allowed by `shapes_for(pattern, shape)`.
    Payloads are distinct per call ("0", "1", ...)."""
    cfgs = []
    for n_parked in parked_counts:
        for n_sends in call_counts:
            for seq in canonical_key_seqs(n_parked, n_sends):
                vals = [str(j) for j in range(len(seq))]
                parked = list(zip(seq[:n_parked], vals[:n_parked]))
                calls = list(zip(seq[n_parked:], vals[n_parked:]))
                for shape in sender_shapes(calls):
                    if shapes_for(seq, shape):
                        cfgs.append((parked, shape))
    return cfgs


def one_task(_seq, shape):
    return len(shape) <= 1


def split_small(seq, shape):
    """More than one task: all patterns for <= 2 calls; for 3 calls the pattern where every command
    is for the same key (the most overlap)."""
    return len(shape) >= 2 and (sum(len(x) for x in shape) <= 2 or set(seq) == {"A"})


def split_rest(seq, shape):
    return len(shape) >= 2 and not split_small(seq, shape)


# ---- the check -------------------------------------------------------------------------------


def run_c09(ctx) -> Corr:
    corr = Corr("C09", "the real Gateway (2.0/2.1 heartbeat wake, 2.2 pre-sleep wake) under a gated transport, driven "
                "by the same schedule as the Lean model; compared after every step: set_messages (key order, "
                "payloads, object identity), the wire (lines, the object each was encoded from), listener "
                "position, send log; then a final undisturbed wake and the property's three clauses evaluated "
                "on the real trace. quick: EVERY interleaving of one wake with <= 3 calls and <= 2 parked commands, "
                "for every key pattern up to renaming, the calls made in every order by one task (= every "
                "behaviour up to which task makes a call), plus every split over 2-3 tasks for <= 2 calls and "
                "for the all-same-key patterns; thorough adds every split over <= 3 tasks for all patterns, "
                "every interleaving for 3 parked (<= 3 calls) and 4 parked commands (<= 2 calls), equal-payload "
                "variants, and random long schedules (up to 4 calls per task, 3 tasks, 3 concurrent wakes) drawn "
                "from what the real tasks can do. RECONNECT schedules (the listener sits in `async with gateway:` "
                "from the start of every case; `drop` = its read, or its write waiting before the bytes reach the wire, "
                "raises TransportFailedError, listen() ends, the context is left with that exception; `up` = the same "
                "Gateway object is entered again and listen() is called again): quick = EVERY interleaving of one "
                "drop..up pair with one wake and <= 2 calls (one task) and <= 2 parked commands, and with no wake at all "
                "(<= 3 calls, also split over tasks for <= 2 calls), plus random schedules with 1-2 drops; thorough adds "
                "<= 3 calls with a wake, the splits over tasks and more random ones; the same three clauses are "
                "evaluated over the whole run (all connections) after the final wake. non-trivial = a call "
                "ran while the listener was inside a flush (between wake and the last end), or a command was parked or "
                "being released when the link dropped / the context was entered again")
    rng = lib.rng_for(ctx.seed, "c09")
    cases: list[Case] = []
    overlap_replay = None
    if getattr(ctx, "replay", None):
        try:
            with open(ctx.replay, encoding="utf-8") as f:
                rj = json.load(f)
            if "case" in rj and rj["case"].get("overlap"):
                overlap_replay = {k: rj["case"][k] for k in ("overlap", "version", "parked", "calls", "schedule")}
                overlap_replay["other_lines"] = rj["case"].get("other_lines", [])
            elif "case" in rj and "schedule" in rj["case"]:
                cases.append(Case.from_json(rj["case"], "replay"))
        except (OSError, ValueError, KeyError):
            corr.notes.append("replay file not readable as a C09 case; ignored")
    for c in lib.load_corpus("C09"):
        for v in (c.get("versions") or [c["version"]]):
            cases.append(Case(v, c["parked"], c["senders"], c["schedule"], "corpus:" + c["_file"]))
    vi = 0

    def add_enumerated(cfgs, origin, payload=None):
        nonlocal vi
        for parked, shape in cfgs:
            if payload is not None:
                parked = [(k, payload) for k, _ in parked]
                shape = [[(k, payload) for k, _ in calls] for calls in shape]
            for sched in enumerate_schedules(Case("2.0", parked, shape)):
                cases.append(Case(WAKE_VERSIONS[vi % 3], parked, shape, sched, origin))
                vi += 1

    # every interleaving of one wake with <= 3 calls and <= 2 parked commands.  One task making the
    # calls in every order and key pattern is every behaviour up to WHICH task makes a call ...
    add_enumerated(configs(range(0, 3), range(0, 4), one_task), "enum-1task")
    # ... and the splits over two and three tasks
    add_enumerated(configs(range(0, 3), range(0, 4), split_small), "enum-tasks")
    # values that are falsy or equal in Python ('' and '0'; `is` is not `==`, and a message is not its payload):
    # every interleaving again with all payloads empty, for <= 2 calls and 1-2 parked commands
    add_enumerated(configs(range(1, 3), range(1, 3), one_task), "enum-empty-payloads", payload="")
    # one reconnect of the listener (drop .. up on the same Gateway object) at every point of every interleaving
    def add_reconnect(cfgs, origin, wake):
        nonlocal vi
        for parked, shape in cfgs:
            for sched in enumerate_reconnect_schedules(Case("2.0", parked, shape), wake):
                cases.append(Case(WAKE_VERSIONS[vi % 3], parked, shape, sched, origin))
                vi += 1

    add_reconnect(configs(range(0, 3), range(0, 4), one_task), "reconnect-asleep", wake=False)
    add_reconnect(configs(range(0, 3), range(0, 3), lambda _s, shape: len(shape) >= 2), "reconnect-asleep", wake=False)
    add_reconnect(configs(range(0, 3), range(0, 3), one_task), "reconnect-wake", wake=True)
    n_quick = len(cases)
    random_cases: list[Case] = []
    if ctx.tier == "thorough":
        add_reconnect(configs(range(0, 3), (3,), one_task), "reconnect-wake", wake=True)
        add_reconnect(configs(range(0, 3), range(0, 4), split_small), "reconnect-wake", wake=True)
        add_enumerated(configs(range(0, 3), range(0, 4), split_rest), "enum-tasks")
        # up to 4 parked commands
        add_enumerated(configs((3,), range(0, 4), one_task), "enum-parked3")
        add_enumerated(configs((4,), range(0, 3), one_task), "enum-parked4")
        add_enumerated(configs((3, 4), range(0, 3), lambda _s, shape: len(shape) >= 2), "enum-parked34-tasks")
        # equal payloads everywhere (`is` is not `==`)
        add_enumerated(configs(range(1, 3), range(1, 4), one_task), "enum-equal-payloads", payload="1")
        n_rand, max_steps = 3000, 60
    else:
        n_rand, max_steps = 150, 30
    names = list(KEYS)
    for j in range(n_rand):
        nk = rng.choice([1, 2, 2, 3, 4, 7])
        ks = names[:nk]
        parked = [(rng.choice(ks), rng.choice(["0", "1", "on", "a;b", ""])) for _ in range(rng.randint(0, 4))]
        senders = [[(rng.choice(ks), rng.choice(["0", "1", "2", "x y", "é", "", ""])) for _ in range(rng.randint(0, 4))]
                   for _ in range(rng.randint(1, 3))]
        random_cases.append(Case(WAKE_VERSIONS[j % 3], parked, senders, None, "random"))
    # random long schedules in which the link goes down once or twice (its own stream: the cases above stay the same)
    rrng = lib.rng_for(ctx.seed, "c09-reconnect")
    for j in range(n_rand // 3):
        ks = names[:rrng.choice([1, 2, 2, 3, 4])]
        parked = [(rrng.choice(ks), rrng.choice(["0", "1", "on", ""])) for _ in range(rrng.randint(0, 3))]
        senders = [[(rrng.choice(ks), rrng.choice(["0", "1", "2", "x y", ""])) for _ in range(rrng.randint(0, 3))]
                   for _ in range(rrng.randint(1, 3))]
        random_cases.append(Case(WAKE_VERSIONS[j % 3], parked, senders, None, "random-reconnect", drops=rrng.choice([1, 1, 2])))

    results = []

    async def run_all():
        for case in cases:
            results.append((case, await run_case(case)))
        for case in random_cases:
            results.append((case, await run_case(case, rrng if case.drops else rng, max_steps)))

    asyncio.run(run_all())

    ops, spans, compare = [], [], []
    for case, (obs, bad, info) in results:
        cj = case.to_json()
        overlap = any(tok.startswith("s") and "pc=flush" in obs[i] for i, tok in enumerate(case.schedule))
        link_steps = [i for i, tok in enumerate(case.schedule) if tok in LINK_TOKENS]
        # a reconnect with something at stake: a command parked or being released when the link dropped / came back
        loaded = any("buf=[]" not in obs[i] for i in link_steps)
        if bad:
            corr.violate("C09 violated on the real gateway: " + bad[0], {**cj, "clauses": bad, **info})
        if info["errors"]:
            corr.count("cases-with-exceptions")
        if info["not_enabled"]:
            corr.disagree("a step of the schedule is not enabled in the real system (schedule enumeration wrong, or "
                          "the code's control flow is not the modelled one)", {**cj, "not_enabled": info["not_enabled"]})
        corr.case((case.version, json.dumps(cj["parked"]), json.dumps(cj["senders"]), " ".join(case.schedule)),
                  overlap or loaded, {**cj, "wire": info["wire"]} if overlap or loaded else None)
        corr.count(f"origin:{case.origin.split(':')[0]}")
        corr.count(f"schedules:{'quick-enumeration' if case.origin.startswith(('enum-1task', 'enum-tasks')) else case.origin.split(':')[0]}")
        corr.count(f"version:{case.version}")
        corr.count(f"parked:{len(case.parked)}")
        corr.count(f"calls:{sum(len(s) for s in case.senders)}")
        corr.count(f"tasks:{len(case.senders)}")
        corr.count(f"wakes-in-schedule:{info['wakes'] - 1}")
        corr.count("steps", len(case.schedule))
        if overlap:
            corr.count("cases-with-call-during-flush")
        if link_steps:
            corr.count("cases-with-reconnect")
            corr.count(f"reconnects-in-schedule:{info['drops']}")
            if loaded:
                corr.count("reconnect:with-commands-parked")
            if any(case.schedule[i] == "drop" and "pc=flush" in obs[i] for i in link_steps):
                corr.count("reconnect:drop-aborts-a-flush(oracle-only-from-there)")
            down = False
            for tok in case.schedule:
                down = tok == "drop" or (down and tok != "up")
                if down and tok.startswith("s"):
                    corr.count("reconnect:call-while-the-link-is-down")
                    break
            if info["connects"] != info["drops"] + 1 or len(info["link_errors"]) != info["drops"]:
                corr.disagree("a drop did not end listen() with a transport error followed by one new connect",
                              {**cj, "connects": info["connects"], "drops": info["drops"], "link_errors": info["link_errors"],
                               "errors": info["errors"]})
        if "buf=[]" not in obs[-2]:
            corr.count("cases-with-commands-left-for-the-final-wake")
        mops, mobs, changed, cut = model_view(case.schedule, obs)
        if changed:
            corr.disagree("a reconnect while the listener was idle changed the buffers / the wire / the send log (for the "
                          "model it is a no-op)", {**cj, "step": changed[0] + 1, "before": obs[changed[0]],
                                                   "after": obs[changed[0] + 1]})
        if cut:
            corr.count("model-comparison-ends-at-a-reconnect")
        lines = [model_ops(case, [])[0], *mops]
        compare.append(mobs)
        spans.append((len(ops), len(lines)))
        ops.extend(lines)
    # further lines reach the listener WHILE a write of a flush waits (oracle only; see flushoverlap)
    from . import flushoverlap  # noqa: PLC0415
    flushoverlap.run_overlap(corr, ctx, overlap_replay)
    corr.exhaustive = True
    corr.notes.append(f"{n_quick} corpus + exhaustively enumerated schedules, {len(cases) - n_quick} more enumerated in "
                      f"thorough, {len(random_cases)} random schedules; scope: buffered sends to the sleeping woken "
                      "node, one listener; unbuffered concurrent sends are outside the property as stated")
    corr.notes.append("reconnect (drop / up): the Lean flush model has no such operation. While the listener is idle it is "
                      "treated as a no-op for the model state (the buffers persist): the two tokens are left out of the model's "
                      "schedule and the implementation's observation after each must equal the one before it, the rest of the "
                      "run is compared step by step as before. A drop that aborts a flush (the write raises before its bytes "
                      "reach the wire) cannot be expressed in the model: the comparison covers the steps before it and the "
                      "rest of the run, like every run, is judged by the oracle (the property's three clauses over the "
                      "whole trace, all connections). A drop while a write waits at `end` (bytes already on the wire) is not "
                      "generated: the property as stated does not say whether such a command counts as written")
    if ctx.model_ok:
        outs = lib.run_model(ops, driver=DRIVER)
        for (case, (_obs, bad, info)), (start, n), obs in zip(results, spans, compare):
            mo = outs[start:start + n]
            for i, (io, m) in enumerate(zip(obs, mo)):
                if m.startswith("disabled") or m.startswith("bad-op"):
                    corr.disagree("the model cannot take a step the real gateway took",
                                  {**case.to_json(), "step": i, "model": m, "impl": io})
                    break
                if "ok " + io != canon_model(m):
                    corr.disagree("flush/send interleaving", {**case.to_json(), "step": i, "impl": io,
                                                              "model": canon_model(m)})
                    break
    return corr
