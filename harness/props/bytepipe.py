"""C03 on the whole receive pipeline of a stream gateway, as histories of BYTES.

    bytes -> StreamTransport.read -> Gateway.listen -> handler -> Gateway.send -> StreamTransport.write

all on ONE real stream transport (the direct subclass, TCPTransport and SerialTransport, their open functions replaced
by an in-memory ``asyncio.StreamReader`` and a recording writer) under ONE real Gateway.  A history is a list of steps:

    ("line", bytes, write_faults)      the bytes of one terminated line arrive, the application asks for the next message
    ("send", fields, buffer, faults)   the application calls Gateway.send; the payload may be ("echo", k): the payload of
                                       a message the gateway yielded earlier in this history (a controller forwarding
                                       what it received), e.g. parked for a sleeping node and released by its wake
    ("sweep",)                         the nodes ask back everything the registry holds (one `req` line per stored value,
                                       read from the gateway's registry at that moment)
    ("session",)                       the application leaves the gateway context and enters it again (a reconnect)
    ("eof",) / ("fail", name)          the stream ends / the reader fails with an OSError-family exception, then one read

The lines are well-formed MySensors lines of every kind that stores or forwards text (set, presentations, sketch name and
version, version reports ...) and malformed ones, with byte sequences that are not valid UTF-8 (and odd valid ones)
placed in the payload, in every header field or alone; later lines make the gateway talk back about what it stored.

Oracle (C03's statement, nothing else): every time the application asks for the next message it gets a message or an
exception derived from AIOMySensorsError - the write side included: whatever the transport's write raises while the
handler answers must be a library error too; after an error the gateway stays usable: a well-formed probe line that is
fed next is yielded.  Model: the bytes are framed and decoded by C17's Lean model (DriverStream), the decoded lines (and
the sends) go through the gateway model (Driver); compared on C03's outcome-class view.
"""

from __future__ import annotations

import asyncio
import hashlib

from .. import gw, lib
from ..gw import Hist
from . import stream as st

lib.use_repo()

from aiomysensors import exceptions as exc  # noqa: E402
from aiomysensors.model.message import Message  # noqa: E402
from aiomysensors.transport import StreamTransport  # noqa: E402
from aiomysensors.transport import serial as serial_mod  # noqa: E402
from aiomysensors.transport.serial import SerialTransport  # noqa: E402
from aiomysensors.transport.tcp import TCPTransport  # noqa: E402

LIMIT = 1 << 16          # asyncio's default stream limit
PROBE = b"0;255;3;0;9;still alive\n"
PROBE_OUT = "ok 0 255 3 0 9 " + lib.enc("still alive")
SETTLE = 60              # event-loop turns given to one request for the next message (nothing ever really waits)
FLAVOURS = ["direct", "tcp", "serial"]

# byte sequences that are not valid UTF-8, one per way of being invalid
INVALID = [
    ("ff", b"\xff"), ("fe", b"\xfe"), ("lone-continuation", b"\x80"), ("truncated-2", b"\xc3"), ("truncated-3", b"\xe2\x82"),
    ("truncated-4", b"\xf0\x9f\x98"), ("overlong-2", b"\xc0\xaf"), ("overlong-3", b"\xe0\x80\xaf"),
    ("high-surrogate", b"\xed\xa0\x80"), ("low-surrogate", b"\xed\xb0\x80"), ("cesu-pair", b"\xed\xa0\xbd\xed\xb8\x80"),
    ("beyond-10ffff", b"\xf4\x90\x80\x80"), ("five-byte", b"\xf8\x88\x80\x80\x80"), ("latin1-text", b"caf\xe9"),
    ("noise", b"\x9c\xe5\x01\xfd"), ("two-invalid", b"\xff1\xfe"),
]
# valid but unusual: nothing of this may change the verdict either
ODD_VALID = [
    ("two-byte", "é".encode()), ("three-byte", "€".encode()), ("astral", "\U0001f600".encode()), ("nul", b"\x00"),
    ("cr", b"\r"), ("esc", b"\x1b"), ("del", b"\x7f"), ("bom", b"\xef\xbb\xbf"), ("replacement-char", b"\xef\xbf\xbd"),
    ("nel", b"\xc2\x85"), ("line-separator", b"\xe2\x80\xa8"), ("last-code-point", b"\xf4\x8f\xbf\xbf"),
    ("private-use", b"\xee\x80\x80"), ("noncharacter", b"\xef\xbf\xbe"),
]

# one line per place where text from the wire is kept, forwarded, converted or validated: {X} = the fragment, {V} = the
# gateway's version
CARRIERS = [
    ("set-payload-end", b"1;1;1;0;0;21.5{X}"), ("set-payload-start", b"1;1;1;0;2;{X}on"), ("set-payload-only", b"1;1;1;0;0;{X}"),
    ("set-with-ack", b"1;1;1;1;0;2{X}1"), ("set-other-child", b"1;2;1;0;49;5{X}5;1"), ("child-description", b"1;3;0;0;6;de{X}sc"),
    ("node-presentation", b"2;255;0;0;17;2.{X}0"), ("gateway-presentation", b"0;255;0;0;18;{V}{X}"),
    ("sketch-name", b"1;255;3;0;11;Sk{X}etch"), ("sketch-version", b"1;255;3;0;12;1.{X}0"), ("version-report", b"0;255;3;0;2;{V}{X}"),
    ("battery", b"1;255;3;0;0;5{X}7"), ("heartbeat", b"1;255;3;0;22;1{X}1"), ("log-message", b"0;255;3;0;9;read: {X}"),
    ("gateway-ready", b"0;255;3;0;14;{X}ready"), ("id-request", b"255;255;3;0;3;{X}"), ("config-request", b"1;255;3;0;6;{X}"),
    ("time-request", b"1;255;3;0;1;{X}"), ("discover-response", b"1;255;3;0;21;{X}0"), ("pre-sleep", b"1;255;3;0;32;50{X}0"),
    ("stream", b"1;255;4;0;0;{X}0102"), ("req-payload", b"1;1;2;0;0;{X}"), ("set-unknown-node", b"9;1;1;0;0;{X}"),
    ("set-unknown-child", b"1;7;1;0;0;{X}"), ("node-id-field", b"{X}1;1;1;0;0;5"), ("child-id-field", b"1;{X}1;1;0;0;5"),
    ("command-field", b"1;1;{X}1;0;0;5"), ("ack-field", b"1;1;1;{X}0;0;5"), ("type-field", b"1;1;1;0;{X}0;5"),
    ("before-delimiter", b"1;1;1;0;0{X};5"), ("alone", b"{X}"), ("short-line", b"1;1;{X}"),
]
# afterwards the nodes and the gateway ask the controller about what it holds
PROVOKERS = [b"1;1;2;0;0;", b"1;1;2;0;2;", b"1;2;2;0;49;", b"1;1;2;1;0;", b"1;255;3;0;6;0", b"255;255;3;0;3;", b"1;255;3;0;1;",
             b"1;255;3;0;22;7", b"1;255;3;0;32;500"]


def out_class(o: str) -> str:
    tok = o.split(" ")
    return "ok" if tok[0] == "ok" else " ".join(tok[:2])


def shown(b: bytes) -> str:
    return repr(b)[2:-1]


# ---- the transport's other end ---------------------------------------------------------------


class PipeWriter(st.WriterShape):
    """Stands in for asyncio.StreamWriter: records every write call, fails the scripted ones with an OS-level error."""

    def __init__(self) -> None:
        self.attempts: list[tuple[bytes, bool]] = []
        self.faults: list[str] = []          # per write call of the current step: "" | "w:<Exc>" | "d:<Exc>"
        self._drain: str | None = None
        self.closed = False

    def write(self, data: bytes) -> None:
        f = self.faults.pop(0) if self.faults else ""
        self._drain = None
        if not isinstance(data, (bytes, bytearray)):
            raise TypeError("write() needs bytes")
        if f.startswith("w:"):
            self.attempts.append((bytes(data), False))
            raise st.FAULTS[f[2:]]("injected")
        self.attempts.append((bytes(data), not f))
        if f.startswith("d:"):
            self._drain = f[2:]

    async def drain(self) -> None:
        if self._drain is not None:
            name, self._drain = self._drain, None
            raise st.FAULTS[name]("injected")

    def close(self) -> None:
        self.closed = True
        self.release_stand_ins()

    async def wait_closed(self) -> None:
        pass


class _Open:
    last = None


async def _open(**kw):
    _Open.last = (asyncio.StreamReader(limit=LIMIT), st.shaped(PipeWriter(), kw))
    return _Open.last


def _transport(flavour: int):
    if flavour == 0:
        # the base class through its abstract hook while that (private) hook has the known shape, else a TCP transport
        return lib.direct_stream_transport(_open) or TCPTransport("direct.example", 5003)
    if flavour == 1:
        return TCPTransport("gw.example", 5003)
    return SerialTransport("/dev/ttyFAKE", 57600)


class _Patched:
    """The concrete transports' open functions replaced by the in-memory pair for the duration."""

    def __enter__(self):
        self.saved = asyncio.open_connection, serial_mod.open_serial_connection
        asyncio.open_connection = lambda **kw: _open(**kw)
        serial_mod.open_serial_connection = lambda **kw: _open(**kw)

    def __exit__(self, *a):
        asyncio.open_connection, serial_mod.open_serial_connection = self.saved


# ---- histories -------------------------------------------------------------------------------


class BHist:
    def __init__(self, version, metric=True, preload=None, steps=None, flavour=0, source="") -> None:
        self.version, self.metric, self.preload = version, metric, list(preload or [])
        self.steps, self.flavour, self.source = list(steps or []), flavour, source

    def to_json(self, steps=None, trace=None):
        out = []
        for i, s in enumerate(self.steps if steps is None else steps):
            if s[0] == "line":
                d = {"op": "line", "bytes": s[1].hex(), "shown": shown(s[1]), "write_faults": list(s[2])}
            elif s[0] == "send":
                d = {"op": "send", "fields": list(s[1][:5]) + [s[1][5] if isinstance(s[1][5], str) else list(s[1][5])],
                     "buffer": s[2], "write_faults": list(s[3])}
            else:
                d = {"op": s[0], **({"exception": s[1]} if len(s) > 1 else {})}
            if trace is not None and i < len(trace):
                d["outcome"] = trace[i]["out"]
                d["written"] = [shown(w) + ("" if ok else "  (failed)") for w, ok in trace[i]["writes"]]
            out.append(d)
        return {"version": self.version, "metric": self.metric, "preload": [list(p) for p in self.preload],
                "transport": FLAVOURS[self.flavour], "source": self.source, "steps": out}

    @staticmethod
    def from_json(j):
        steps = []
        for d in j["steps"]:
            if d["op"] == "line":
                steps.append(("line", bytes.fromhex(d["bytes"]), tuple(d.get("write_faults", ()))))
            elif d["op"] == "send":
                f = d["fields"]
                steps.append(("send", tuple(f[:5]) + (tuple(f[5]) if isinstance(f[5], list) else f[5],), d["buffer"],
                              tuple(d.get("write_faults", ()))))
            elif d["op"] == "fail":
                steps.append(("fail", d["exception"]))
            else:
                steps.append((d["op"],))
        return BHist(j["version"], j.get("metric", True), [tuple(p) for p in j.get("preload", [])], steps,
                     FLAVOURS.index(j.get("transport", "direct")), j.get("source", "corpus"))


def lines_of(data: bytes, faults=()) -> list[tuple]:
    """One step per terminated line of `data` (a terminator is added at the end if there is none)."""
    if not data.endswith(b"\n"):
        data += b"\n"
    parts = data.split(b"\n")[:-1]
    return [("line", p + b"\n", tuple(faults) if i == len(parts) - 1 else ()) for i, p in enumerate(parts)]


# ---- running a history on the implementation, judging it while it runs --------------------------


async def run_history(h: BHist, corr=None):
    """Returns (steps as executed, observations).  With `corr`, C03's oracle is evaluated after every step."""
    tr = _transport(h.flavour)
    g, _ = gw.build_gateway(Hist(h.version, h.metric, h.preload), tr)
    gw.TIME_STUB.now = gw.DEFAULT_TIME
    await g.__aenter__()
    reader, writer = tr.reader, tr.writer
    if reader is not _Open.last[0] or not isinstance(writer, PipeWriter):
        raise RuntimeError("the transport did not install the opened reader/writer")   # C17's business; cannot go on
    listener = None
    pending: asyncio.Task | None = None
    yielded: list[Message] = []
    todo = list(h.steps)
    done: list[tuple] = []
    obs: list[dict] = []
    dead = False          # the stream has ended or failed: nothing further can be read on this connection

    flagged = False

    def violate(what: str, **kw) -> None:
        nonlocal flagged
        if corr is not None and not flagged:      # one report per history: the shortest failing prefix
            corr.violate(what, {"byte_history": h.to_json(done, obs), "step": len(done), **kw})
        flagged = True

    async def drop_pending() -> None:
        nonlocal pending, listener
        if pending is not None:
            pending.cancel()
            try:
                await pending
            except BaseException:  # noqa: BLE001
                pass
            pending, listener = None, None

    async def next_message() -> str:
        nonlocal pending, listener
        if pending is None:
            if listener is None:
                listener = g.listen()
            pending = asyncio.ensure_future(anext(listener))
        for _ in range(SETTLE):
            if pending.done():
                break
            await asyncio.sleep(0)
        if not pending.done():
            return "waiting"
        task, pending = pending, None
        try:
            m = task.result()
            yielded.append(m)
            return gw.render_msg(m)
        except BaseException as e:  # noqa: BLE001
            listener = None          # an async generator that raised is finished
            return gw.render_exc(e)

    while todo:
        s = todo.pop(0)
        kind = s[0]
        if kind == "sweep":
            reqs = [f"{n};{c};2;0;{t};".encode() for n, node in sorted(g.nodes.items())
                    for c, child in sorted(node.children.items()) for t in sorted(child.values)]
            todo[:0] = [("line", r + b"\n", ()) for r in reqs[:16]]
            continue
        writer.attempts = []
        if kind == "line":
            if dead:
                continue
            writer.faults = list(s[2])
            reader.feed_data(s[1])
            out = await next_message()
        elif kind in ("eof", "fail"):
            if dead:
                continue
            writer.faults = []
            if kind == "eof":
                reader.feed_eof()
            else:
                reader.set_exception(st.FAULTS[s[1]]("injected"))
            dead = True
            out = await next_message()
        elif kind == "send":
            await drop_pending()
            f = s[1]
            payload = f[5]
            if not isinstance(payload, str):          # ("echo", k): what the gateway yielded earlier
                payload = yielded[payload[1] % len(yielded)].payload if yielded else "1"
            s = ("send", tuple(f[:5]) + (payload,), s[2], s[3])
            writer.faults = list(s[3])
            try:
                await g.send(Message(*s[1]), message_buffer=s[2])
                out = "ok"
            except BaseException as e:  # noqa: BLE001
                out = gw.render_exc(e)
        elif kind == "session":
            await drop_pending()
            if listener is not None:
                await listener.aclose()
                listener = None
            try:
                await g.__aexit__(None, None, None)
                await g.__aenter__()
                out = "ok"
            except BaseException as e:  # noqa: BLE001
                out = gw.render_exc(e)
            reader, writer, dead = tr.reader, tr.writer, False
            if not isinstance(writer, PipeWriter):
                raise RuntimeError("the transport did not install the opened reader/writer")
            done.append(s)
            obs.append({"out": out, "writes": []})
            continue
        else:
            raise ValueError(f"unknown step {s!r}")
        done.append(s)
        obs.append({"out": out, "writes": list(writer.attempts)})
        writer.faults = []
        # ---- C03's oracle
        if kind != "send":
            if out.startswith("foreign"):
                violate("asking for the next message on a stream gateway raised an exception that is not derived from the "
                        "library's base class", outcome=out)
            if s[1:2] == (PROBE,) and not s[2] and out != PROBE_OUT and out != "waiting":
                violate("after an error the next well-formed line was not processed normally", outcome=out)
            if kind == "line" and not out.startswith("ok") and out != "waiting" and s[1] != PROBE:
                todo.insert(0, ("line", PROBE, ()))
    await drop_pending()
    if listener is not None:
        await listener.aclose()
    try:
        await g.__aexit__(None, None, None)
    except exc.AIOMySensorsError:
        pass
    return done, obs


# ---- the same history through the two Lean models -----------------------------------------------

_STREAM_TO_GW = {"err transportRead": "err other:TransportReadError", "err transportFailed": "err transportFailed",
                 "err transportError": "err other:TransportError", "wait": "waiting"}


def stream_model_lines(done) -> list[str]:
    out = [f"snew {LIMIT}"]
    for s in done:
        if s[0] == "line":
            out += ["feed " + st.hexb(s[1]), "read"]
        elif s[0] == "eof":
            out += ["eof", "read"]
        elif s[0] == "fail":
            out += ["fail " + st.vocab_name(st.FAULTS[s[1]]), "read"]
        elif s[0] == "session":
            out.append(f"snew {LIMIT}")
    return out


def compare_with_models(corr, runs) -> None:
    """`runs` = [(BHist, executed steps, observations)].  The stream model turns the bytes into lines or read errors; the
    gateway model processes the lines (with the write faults) and the sends; outcome classes are compared step by step."""
    slines, spans = [], []
    for _h, done, _obs in runs:
        ls = stream_model_lines(done)
        spans.append((len(slines), len(ls)))
        slines += ls
    souts = lib.run_model(slines, driver=st.DRIVER)
    glines, plans = [], []
    for (h, done, _obs), (a, n) in zip(runs, spans):
        so = souts[a:a + n]
        k = 1
        hist = Hist(h.version, h.metric, h.preload)
        plan = []                      # per executed step: ("gw", index of the op in hist.ops) | ("fixed", outcome) | None
        for s in done:
            if s[0] in ("line", "eof", "fail"):
                r = so[k + 1]
                k += 2
                if r.startswith("line "):
                    # a write fault of either kind makes that write attempt fail with the transport's write error
                    hist.ops.append(("recv", lib.dec(r[5:]), tuple(bool(f) for f in s[2]), gw.DEFAULT_TIME))
                    plan.append(("gw", len(hist.ops)))
                else:
                    plan.append(("fixed", _STREAM_TO_GW.get(r, r)))
            elif s[0] == "session":
                k += 1
                hist.ops.append(gw.SESSION)
                plan.append(("gw", len(hist.ops)))
            else:
                if lib.has_surrogate(s[1][5]):
                    plan.append(None)      # not expressible as a model operation; everything before it is still compared
                    break
                hist.ops.append(("send", s[1], s[2], tuple(bool(f) for f in s[3])))
                plan.append(("gw", len(hist.ops)))
        gl = gw.model_lines(hist)
        plans.append((hist, plan, len(glines), len(gl)))
        glines += gl
    gouts = lib.run_model(glines)
    for (h, done, obs), (hist, plan, a, n) in zip(runs, plans):
        mo = gw.model_obs(hist, gouts[a:a + n])
        for i, p in enumerate(plan):
            if p is None:
                corr.count("pipeline:model-comparison-cut-at-inexpressible-send")
                break
            want = out_class(mo[p[1]][0].split(" W")[0]) if p[0] == "gw" else out_class(p[1])
            got = out_class(obs[i]["out"])
            corr.count("pipeline:steps-compared-with-the-models")
            if got != want:
                corr.disagree("outcome class of a step of a byte history on a stream gateway (stream model + gateway model)",
                              {"byte_history": h.to_json(done[: i + 1], obs), "step": i + 1, "impl": got, "model": want})
                break


# ---- generators ------------------------------------------------------------------------------


def fragments(tier: str):
    return INVALID + ODD_VALID


def setup_variant(v: str, k: int):
    """Three ways of getting a known node with children: everything over the wire (version unknown at first), a preloaded
    registry with a sleeping node and a known version, a preloaded registry while the version stays unknown."""
    pre = [("node", 1, 17, v, "Sk", "1.0", 55, 0, False, k == 1), ("child", 1, 1, 1, 6, "temp"), ("child", 1, 2, 2, 13, "power"),
           ("val", 1, 2, 49, "1.5;2.5")]
    if k == 0:
        steps = []
        for l in (f"0;255;3;0;2;{v}", f"1;255;0;0;17;{v}", "1;1;0;0;6;temp", "1;2;0;0;13;power"):
            steps += lines_of(l.encode())
        return None, [], steps
    return (v if k == 1 else None), pre, []


def targeted(tier: str) -> list[BHist]:
    out = []
    frs = fragments(tier)
    i = 0
    for cname, tmpl in CARRIERS:
        for fname, frag in frs:
            combos = [(lib.VERSIONS[i % 5], i % 3)] if tier == "quick" else [(v, k) for v in lib.VERSIONS for k in range(3)]
            for v, k in combos:
                version, pre, steps = setup_variant(v, k)
                carrier = tmpl.replace(b"{V}", v.encode()).replace(b"{X}", frag)
                steps += lines_of(carrier)
                # the application forwards what it was given to the (possibly sleeping) node
                steps.append(("send", (1, 1, 1, 0, 2, ("echo", -1)), True, ()))
                for p in PROVOKERS:
                    steps += lines_of(p)
                steps.append(("sweep",))
                if i % 4 == 0:
                    steps.append(("session",))
                    steps.append(("sweep",))
                if tier != "quick" or i % 2 == 0:
                    # the node presents itself again (its children are forgotten), the same line arrives once more
                    steps += lines_of(f"1;255;0;0;17;{v}".encode()) + lines_of(b"1;1;0;0;6;again") + lines_of(carrier)
                    steps.append(("sweep",))
                steps += lines_of(b"1;1;1;0;0;22.0") + lines_of(b"1;1;2;0;0;") + [("line", PROBE, ())]
                if i % 5 == 0:
                    steps.append(("eof",) if i % 2 else ("fail", st.IO_FAULTS[i % len(st.IO_FAULTS)]))
                out.append(BHist(version, True, pre, steps, i % 3, f"targeted:{cname}:{fname}"))
            i += 1
    return out


def corrupt(rng, line: bytes) -> tuple[bytes, str]:
    """Put a fragment into a line: mostly into the payload, sometimes into a header field or anywhere."""
    label, frag = rng.choice(INVALID) if rng.random() < 0.75 else rng.choice(ODD_VALID)
    semis = [i for i, c in enumerate(line) if c == 0x3B]
    r = rng.random()
    if r < 0.7 and len(semis) >= 5:
        lo, hi = semis[4] + 1, len(line)
    elif r < 0.9 and semis:
        k = rng.randrange(len(semis))
        lo, hi = (semis[k - 1] + 1 if k else 0), semis[k]
    else:
        lo, hi = 0, len(line)
    pos = rng.randint(lo, hi)
    if rng.random() < 0.7 or pos >= hi:
        return line[:pos] + frag + line[pos:], label
    return line[:pos] + frag + line[pos + 1:], label


def random_history(rng, version: str, length: int, idx: int) -> BHist:
    h = BHist(version if rng.random() < 0.7 else None, rng.random() < 0.7, gw.gen_preload(rng) if rng.random() < 0.6 else [],
              flavour=idx % 3, source="random")
    owed: list[bytes] = []          # reqs for values that were set earlier
    while len(h.steps) < length:
        r = rng.random()
        faults = ()
        if rng.random() < 0.06:
            faults = tuple(rng.choice(["", "w:", "d:"]) for _ in range(rng.randint(1, 3)))
            faults = tuple(f + rng.choice(st.IO_FAULTS) if f else "" for f in faults)
        if owed and r < 0.25:
            h.steps += lines_of(owed.pop(rng.randrange(len(owed))), faults)
        elif r < 0.33:
            n, c = rng.choice(gw.NODES), rng.choice(gw.CHILDREN)
            payload = ("echo", rng.randint(0, 50)) if rng.random() < 0.7 else rng.choice(["1", "", "22.5"])
            h.steps.append(("send", (n, c, 1, 0, rng.choice(gw.VTYPES), payload), rng.random() < 0.9, faults))
        elif r < 0.36:
            h.steps.append(("sweep",))
        elif r < 0.38:
            h.steps.append(("session",))
        else:
            line = gw.gen_line(rng, version).encode()
            if rng.random() < 0.4:
                line, _ = corrupt(rng, line)
            h.steps += lines_of(line, faults)
            f = line.split(b";")
            if len(f) >= 6 and f[2] == b"1" and rng.random() < 0.8:
                owed.append(b";".join([f[0], f[1], b"2", b"0", f[4], b""]))
    for o in owed:
        h.steps += lines_of(o)
    h.steps.append(("sweep",))
    r = rng.random()
    if r < 0.15:
        h.steps.append(("eof",))
    elif r < 0.3:
        h.steps.append(("fail", rng.choice(st.IO_FAULTS)))
    return h


def corpus_histories() -> list[BHist]:
    out = []
    for c in lib.load_corpus("C03"):
        if "byte_history" in c:
            h = BHist.from_json(c["byte_history"])
            h.source = "corpus:" + c["_file"]
            out.append(h)
    return out


# ---- entry points ----------------------------------------------------------------------------


def _not_utf8(b: bytes) -> bool:
    try:
        b.decode()
    except UnicodeDecodeError:
        return True
    return False


def run(corr, ctx) -> None:
    hists = corpus_histories() + targeted(ctx.tier)
    rng = lib.rng_for(ctx.seed, "c03-bytepipe")
    for i in range(150 if ctx.tier == "quick" else 3000):
        hists.append(random_history(rng, lib.VERSIONS[i % 5], rng.randint(8, 40), i))
    runs = []

    async def go():
        with _Patched():
            for h in hists:
                done, obs = await run_history(h, corr)
                runs.append((h, done, obs))
    asyncio.run(go())
    for h, done, obs in runs:
        corr.count("pipeline:histories:" + h.source.split(":")[0])
        state = hashlib.sha1()
        for s, o in zip(done, obs):
            kind = s[0]
            corr.count("pipeline:step:" + kind)
            corr.count("pipeline:outcome:" + out_class(o["out"]))
            bad = kind == "line" and _not_utf8(s[1])
            if bad:
                corr.count("pipeline:lines-not-utf8")
            if kind == "line" and o["writes"]:
                corr.count("pipeline:line-steps-with-writes")
                if any(not w.isascii() for w, _ in o["writes"]):
                    corr.count("pipeline:line-steps-writing-non-ascii")
            key = (h.version, kind, repr(s[1:]), state.hexdigest())
            nt = bad or not o["out"].startswith("ok") or any(not w.isascii() for w, _ in o["writes"])
            corr.case(hash(key), nt, {"transport": FLAVOURS[h.flavour], "version": h.version, "step": [kind, shown(s[1]) if kind == "line" else str(s[1:])],
                                      "outcome": o["out"], "written": [shown(w) for w, _ in o["writes"]]} if nt and kind == "line" and o["writes"] else None)
            state.update(repr((s, o["out"])).encode())
    if ctx.model_ok:
        compare_with_models(corr, runs)
    else:
        corr.notes.append("byte histories on the stream gateway: judged by the oracle alone (the models did not build)")
    corr.notes.append("byte histories on a stream gateway (harness/props/bytepipe.py): real StreamTransport (direct/tcp/serial) + real "
                      "Gateway, undecodable and odd bytes in payloads and header fields of every kind of line, later reqs / sweeps / "
                      "wakes / forwarded payloads making the gateway write back what it stored; oracle = only library errors from "
                      "listen() (write side included), probe line after every error; model = DriverStream (framing, decoding) "
                      "composed in front of Driver (gateway), class view")


def replay(case: dict) -> None:
    h = BHist.from_json(case["byte_history"])

    async def go():
        with _Patched():
            return await run_history(h, None)
    done, obs = asyncio.run(go())
    for i, (s, o) in enumerate(zip(done, obs)):
        what = shown(s[1]) if s[0] == "line" else " ".join(str(x) for x in s[1:])
        print(f"step {i + 1}: {s[0]} {what}")
        print("   outcome:", o["out"], "| written:", [shown(w) + ("" if ok else " (failed)") for w, ok in o["writes"]])
