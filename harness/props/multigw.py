"""C05 with several gateways alive in one process.

The property speaks about "the release version THE gateway reported": which protocol is in force is a fact about one
gateway.  A controller may well run several `Gateway` objects in one process (a serial gateway on an old sketch next to
an MQTT gateway on 2.3.2); every one of them must follow its own reports, whatever the others were told and whenever
they were constructed.  A single gateway per process - every history of the other C05 scenarios - cannot see whether
the "which protocol is active" state is really kept per gateway.  This module runs schedules over 2-4 real `Gateway`
objects (each with its own in-memory transport) that live in the same process and the same event loop:

* steps are "construct gateway g" (at any position of the schedule: before anything was reported anywhere, after
  another gateway learned its version, between two reports; a name may be constructed again = the controller replaces
  that gateway object) and "operation on gateway g" (version replies / gateway presentations with different strings
  per gateway, rejected reports, type-gate probes at both sides of the end of every version's Internal / Stream table,
  ordinary node traffic, sends), interleaved in all orders (systematic block: every ordered pair of the six reference
  releases, every order of three gateways' reports; random block: random interleavings);
* after EVERY step EVERY live gateway is observed (`protocol_version`, `protocol.VERSION`), not only the one the step
  was about.

Oracle (the property restated per gateway; nothing of the implementation is consulted): for every `Gateway` object the
reference value "last accepted version report seen by THIS object" starts at None when the object is constructed and
changes only at a version reply / gateway presentation received by THIS object whose string selects a protocol.  After
every step, for every live gateway, `protocol_version` must be its own reference value and `protocol.VERSION` the
protocol the property selects for it (1.4 for None); internal / stream types received by a gateway are refused as
unsupported exactly when they do not exist in the protocol selected for THAT gateway's reference value in force when
the line arrives; a rejected report is an invalid-message error and changes nothing anywhere.

Model: the Lean gateway model describes ONE gateway; it has no operation for a second one.  The interleaving (what a
step on one gateway does to the others) is therefore judged by the oracle alone.  In addition every gateway object's
own projection of the schedule (its construction = `gnew` with version unknown, then its own operations in order) is a
history of the model and is compared with it on the version view, as for the ordinary histories.
"""

from __future__ import annotations

import asyncio
import itertools
import json

from .. import gw, lib
from ..gw import Hist
from . import versessions as vs

Gateway, Config, Message = gw.Gateway, gw.Config, gw.Message

NAMES = "ABCD"
# one release per supported protocol, plus the statement's second example for 2.2 (2.2.0 and 2.3.2 select 2.2,
# 2.1.1 selects 2.1, 2.0.0 selects 2.0, 1.5.x selects 1.5, anything older 1.4)
RELEASES = ["2.3.2", "2.2.0", "2.1.1", "2.0.0", "1.5.1", "1.4.9"]
NOT_SELECTABLE = ["garbage", "", "2.0-beta", "2..1"]


# ---- schedules --------------------------------------------------------------------------------
# a schedule: {"steps": [("new", g, metric) | ("op", g, op)]}, op as in gw.Hist.ops (recv / send)


def _recv(line):
    return ("recv", line, (), gw.DEFAULT_TIME)


def _new(g, metric=True):
    return ("new", g, metric)


def _report(g, s, reply=True):
    return ("op", g, _recv(f"0;255;3;0;2;{s}" if reply else f"0;255;0;0;18;{s}"))


def _present(g, node=1):
    """Node 1 presents itself to gateway g (the stream gate is only judged for nodes the gateway knows)."""
    return ("op", g, _recv(f"{node};255;0;0;17;2.0"))


def _sweep(g, short=False):
    ops = vs.gate_sweep()
    if short:
        ops = [ops[k] for k in (1, 2, 3, 4, 5, 6, 7, 8, 10)]      # 14|15, 17|18, 28|29, 33|34 and one stream type
    return [("op", g, o) for o in ops]


def steps_to_json(steps):
    return [[s[0], s[1], s[2]] if s[0] == "new" else ["op", s[1], list(s[2])] for s in steps]


def steps_from_json(steps):
    out = []
    for s in steps:
        if s[0] == "new":
            out.append(("new", s[1], bool(s[2])))
        else:
            out.append(("op", s[1], vs.ops_from_json([s[2]])[0]))
    return out


def well_formed(steps) -> bool:
    alive = set()
    for s in steps:
        if s[0] == "new":
            alive.add(s[1])
        elif s[1] not in alive:
            return False
    return bool(steps)


def pair_schedules(pairs):
    """Two gateways, each on its own release.  Even k: B is constructed AFTER A learned its version; odd k: both are
    constructed before anything is reported.  Every phase is followed by gate sweeps on both gateways."""
    out = []
    for k, (va, vb) in enumerate(pairs):
        vc = RELEASES[(RELEASES.index(va) + 2 + k) % len(RELEASES)]
        reply = k % 3 != 0
        st = [_new("A", True)]
        if k % 2:
            st += [_new("B", k % 4 == 1), _present("A"), _present("B")] + _sweep("A", True) + _sweep("B", True)
            st += [_report("A", va, reply)] + _sweep("A") + _sweep("B")
        else:
            st += [_present("A")] + _sweep("A", True) + [_report("A", va, reply)] + _sweep("A")
            st += [_new("B", k % 4 == 0)] + _sweep("A") + [_present("B")] + _sweep("B")
        st += [_report("B", vb, not reply)] + _sweep("A") + _sweep("B")
        st += [_report("A", vc, True)] + _sweep("B", True) + _sweep("A", True)
        st += [_report("B", NOT_SELECTABLE[k % len(NOT_SELECTABLE)], reply)] + _sweep("A", True) + _sweep("B", True)
        out.append({"steps": st, "kind": "pair"})
    return out


def triple_schedules():
    """Three gateways constructed up front report 2.3.2 / 1.5.1 / 2.0.0 in every order, a short sweep on all three
    after each report; then a fourth gateway is constructed, everything is swept again, and it reports 2.1.1."""
    out = []
    vers = {"A": "2.3.2", "B": "1.5.1", "C": "2.0.0"}
    for k, order in enumerate(itertools.permutations("ABC")):
        st = [_new(g, g != "B") for g in "ABC"] + [_present(g) for g in "ABC"]
        for g in order:
            st.append(_report(g, vers[g], (k + ord(g)) % 2 == 0))
            for x in "ABC":
                st += _sweep(x, True)
        st += [_new("D")]
        for x in "ABC":
            st += _sweep(x, True)
        st += [_present("D")] + _sweep("D", True) + [_report("D", "2.1.1")]
        for x in "ABCD":
            st += _sweep(x, True)
        out.append({"steps": st, "kind": "triple"})
    return out


def random_schedules(rng, n, grid, short, fields_of):
    out = []
    for _ in range(n):
        names = NAMES[: rng.randint(2, 4)]
        strings = {g: [rng.choice(RELEASES) if rng.random() < 0.5 else rng.choice(grid) if rng.random() < 0.7 else rng.choice(short)
                       for _ in range(3)] for g in names}
        st = [_new(names[0], rng.random() < 0.7)]
        alive = [names[0]]
        for _ in range(rng.randint(12, 45)):
            r = rng.random()
            waiting = [g for g in names if g not in alive]
            if waiting and r < 0.12:
                st.append(_new(waiting[0], rng.random() < 0.7))
                alive.append(waiting[0])
                continue
            if r < 0.02:
                st.append(_new(rng.choice(alive), rng.random() < 0.7))      # the controller replaces a gateway object
                continue
            g = rng.choice(alive)
            r = rng.random()
            if r < 0.3:
                st.append(("op", g, vs.report_op(rng, rng.choice(strings[g]))))
            elif r < 0.6:
                st.append(("op", g, vs.gate_probe(rng)))
            elif r < 0.9:
                st.append(("op", g, _recv(gw.gen_line(rng, "2.2"))))
            else:
                st.append(("op", g, gw.gen_send(rng, "2.2")))
        out.append({"steps": st, "kind": "random"})
    return out


# ---- running a schedule on the implementation ---------------------------------------------------


async def _run_schedule(sc, idx=0):
    """Per step: {"acted": observation of the gateway the step was about, "all": {g: {"pv", "proto"}} of every live one}."""
    live: dict = {}
    res = []
    for step in sc["steps"]:
        g = step[1]
        if step[0] == "new":
            old = live.pop(g, None)
            if old is not None and old["listener"] is not None:
                await old["listener"].aclose()
            tr = gw.FaultTransport()
            gateway = Gateway(tr, Config(metric=step[2]))
            live[g] = {"gw": gateway, "tr": tr, "listener": None, "persistent": (idx + len(live)) % 3 != 0}
            acted = vs._obs(gateway, "init", [])
        else:
            slot = live[g]
            gateway, tr, op = slot["gw"], slot["tr"], step[2]
            tr.attempts = []
            if op[0] == "recv":
                _, line, faults, now = op
                tr.lines = [line]
                tr.faults = list(faults)
                gw.TIME_STUB.now = tuple(now)
                if slot["listener"] is None or not slot["persistent"]:
                    if slot["listener"] is not None:
                        await slot["listener"].aclose()
                    slot["listener"] = gateway.listen()
                try:
                    out = gw.render_msg(await anext(slot["listener"]))
                except BaseException as e:  # noqa: BLE001
                    out = gw.render_exc(e)
                    slot["listener"] = None
            else:
                _, fields, buffer, faults = op
                tr.faults = list(faults)
                obj = Message(*fields) if fields is not None else "not a message"
                try:
                    await gateway.send(obj, message_buffer=buffer)
                    out = "ok"
                except BaseException as e:  # noqa: BLE001
                    out = gw.render_exc(e)
            acted = vs._obs(gateway, out, tr.attempts)
        res.append({"acted": acted, "all": {x: {"pv": s["gw"].protocol_version, "proto": s["gw"].protocol.VERSION}
                                            for x, s in live.items()}})
    for s in live.values():
        if s["listener"] is not None:
            await s["listener"].aclose()
    return res


async def _run_all(scs):
    return [await _run_schedule(sc, i) for i, sc in enumerate(scs)]


def run_schedules(scs):
    return asyncio.run(_run_all(scs))


# ---- oracle --------------------------------------------------------------------------------------


def _short(s):
    return None if s is None else str(s)[:60]


def judge(sc, res, corr, violate, want_of, fields_of, tables, tag=0):
    """The property's oracle over one schedule.  Returns the per-gateway-object projections for the model:
    [{"g", "metric", "first", "ops", "obs", "steps" (index of the schedule step of every observation)}]."""
    ref: dict = {}                  # gateway name -> last accepted version report seen by that Gateway object
    cur: dict = {}
    items = []

    def active(r):
        return "1.4" if r is None else want_of(r)

    for i, (step, r) in enumerate(zip(sc["steps"], res)):
        g, o = step[1], r["acted"]
        rejected, f, faults, ref_before, before = False, None, (), None, None
        if step[0] == "new":
            ref[g] = None
            cur[g] = {"g": g, "metric": step[2], "ops": [], "obs": [o], "steps": [i]}
            items.append(cur[g])
            corr.count(f"multigw:step:construct:other-gateways-alive={len(r['all']) - 1}"
                       + (":after-another-gateway-learned-its-version" if any(v is not None for x, v in ref.items() if x != g) else ""))
        else:
            op = step[2]
            before = cur[g]["obs"][-1]
            ref_before = ref[g]
            f = fields_of(op[1]) if op[0] == "recv" else None
            faults = op[2] if op[0] == "recv" else op[3]
            if vs.is_report(f) and not faults:
                if want_of(f[5]) is None:
                    rejected = True
                else:
                    ref[g] = f[5]
            cur[g]["ops"].append(op)
            cur[g]["obs"].append(o)
            cur[g]["steps"].append(i)
            others = {active(v) for x, v in ref.items() if x != g}
            corr.count("multigw:step:" + ("report" if vs.is_report(f) else op[0])
                       + (":another-gateway-on-a-different-protocol" if others - {active(ref[g])} else ""))
        nt = step[0] == "new" or rejected or ref[g] != ref_before or "unsupported" in o["out"]
        corr.case(("multigw", tag, i, json.dumps(steps_to_json(sc["steps"][: i + 1]))), nt,
                  {"gateways_in_one_process": sorted(r["all"]), "step": list(steps_to_json([step])[0]), "outcome": o["out"],
                   "reported_per_gateway": {x: _short(v) for x, v in ref.items()},
                   "active_per_gateway": {x: s["proto"] for x, s in r["all"].items()}} if nt else None)
        case = {"multi": {"steps": steps_to_json(sc["steps"][: i + 1])}, "step": i, "gateway": g, "outcome": o["out"],
                "gateways": {x: {"reported_by_this_gateway": _short(ref[x]), "protocol_version": _short(s["pv"]),
                                 "active": s["proto"], "want_active": active(ref[x])} for x, s in r["all"].items()}}
        # every live gateway, the one the step was about first
        for x in [g] + [y for y in r["all"] if y != g]:
            s = r["all"][x]
            if s["pv"] == ref[x] and s["proto"] == active(ref[x]):
                continue
            c = {**case, "violating_gateway": x}
            if x != g:
                verb = "the construction of" if step[0] == "new" else "an operation on"
                if s["pv"] != ref[x]:
                    violate(f"{verb} another gateway in the same process changed this gateway's reported version "
                            "(it is no longer the last version THIS gateway reported)", c)
                else:
                    violate(f"{verb} another gateway in the same process changed the protocol in force for this gateway: "
                            "its reported version and its active protocol disagree", c)
            elif ref[x] is None and s["pv"] is not None:
                violate("no version has been reported to this gateway object, but a version counts as reported", c)
            elif ref[x] is None:
                violate("no version has been reported to this gateway object, but its active protocol is not 1.4 "
                        "(other gateways in the process have reported versions)", c)
            elif s["pv"] != ref[x]:
                violate("after this operation the reported version is not the last version this gateway reported", c)
            else:
                violate("after this operation the reported version and the active protocol of this gateway disagree", c)
            return items
        if step[0] == "new":
            continue
        if rejected and o["out"] != "err invalidMessage":
            violate("a rejected version report is not an invalid-message error", case)
            return items
        if f is not None and not faults and f[1] == 255 and f[2] in (3, 4) and (f[2] == 3 or f[0] in before["nodes"]):
            kind = "internal" if f[2] == 3 else "stream"
            exists = str(f[4]) in tables(active(ref_before))[kind]
            others = {active(v) for x, v in ref.items() if x != g}
            corr.count(f"multigw:gate:{kind}:" + ("exists" if exists else "absent")
                       + (":another-gateway-on-a-different-protocol" if others - {active(ref_before)} else ""))
            if exists == (o["out"] == "err unsupported"):
                violate(f"{kind} type gate of this gateway: a type of the protocol in force for it ({active(ref_before)}, selected "
                        "by the version THIS gateway reported) refused, or one that does not exist in it accepted", case)
                return items
    return items


def shrink(sc, what, want_of, fields_of, tables, budget=160):
    """Greedy one-step removal: the shortest schedule found on which the oracle still fails with the same finding."""
    steps = list(sc["steps"])

    def finding(st):
        if not well_formed(st):
            return None
        cand = {"steps": st}
        got: list = []
        judge(cand, run_schedules([cand])[0], lib.Corr("C05", ""), lambda w, c: got.append({"what": w, **c}), want_of, fields_of, tables)
        return got[0] if got and got[0]["what"] == what else None

    best = None
    i = len(steps) - 2              # the last step is where it shows
    while i >= 0 and budget > 0:
        cand = steps[:i] + steps[i + 1:]
        budget -= 1
        v = finding(cand)
        if v is not None:
            steps, best = cand, v
        i -= 1
    return best


def compare_with_model(entries, corr, project):
    """entries: [(schedule, projection)].  Version view, one gateway object at a time."""
    todo = []
    for sc, it in entries:
        if any(op[0] == "recv" and lib.has_surrogate(op[1]) for op in it["ops"]):
            continue
        todo.append((sc, it, Hist(None, it["metric"], [], list(it["ops"]))))
    if not todo:
        return 0
    lines = []
    for _, _, h in todo:
        lines.extend(gw.model_lines(h))
    outs = lib.run_model(lines)
    pos = 0
    for sc, it, h in todo:
        n = gw.n_model_lines(h)
        mo = gw.model_obs(h, outs[pos:pos + n])
        pos += n
        for i, (o, (mout, mstate)) in enumerate(zip(it["obs"], mo)):
            iout = o["out"] + gw.render_writes(o["writes"]) if i else "init W"
            a, bb = project("version", iout, o["state"]), project("version", mout, mstate)
            if a != bb:
                k = it["steps"][i]
                corr.disagree("version view, one of several gateways alive in one process (its own construction and operations "
                              "as a history of the one-gateway model)",
                              {"multi": {"steps": steps_to_json(sc["steps"][: k + 1])}, "step": k, "gateway": it["g"],
                               "view": "version", "impl": list(a), "model": list(bb)})
                break
    return len(todo)


def run(corr, ctx, grid, short, want_of, fields_of, tables, project):
    rng = lib.rng_for(ctx.seed, "c05-multigw")
    pairs = list(itertools.permutations(RELEASES, 2))
    if ctx.tier == "quick":
        # every unordered pair in one of its orders (rotating with the seed), both construction orders
        ix = RELEASES.index
        pairs = [p for p in pairs if (ix(p[0]) < ix(p[1])) == ((ix(p[0]) + ix(p[1]) + ctx.seed) % 2 == 0)]
    scs = pair_schedules(pairs) + triple_schedules() + random_schedules(rng, 60 if ctx.tier == "quick" else 1200, grid, short, fields_of)
    results = run_schedules(scs)
    entries, shrunk = [], 0
    for tag, (sc, res) in enumerate(zip(scs, results)):
        corr.count("multigw:schedule:" + sc["kind"])
        found: list = []
        for it in judge(sc, res, corr, lambda w, c: found.append((w, c)), want_of, fields_of, tables, tag):
            entries.append((sc, it))
        for what, case in found:
            if shrunk < 3:
                shrunk += 1
                cut = {"steps": steps_from_json(case["multi"]["steps"])}
                small = shrink(cut, what, want_of, fields_of, tables)
                if small is not None:
                    small.pop("what")
                    case = {**small, "shrunk_from_steps": len(cut["steps"])}
            corr.violate(what, case)
    compared = compare_with_model(entries, corr, project) if ctx.model_ok else 0
    corr.notes.append(
        "several gateways alive in one process (harness/props/multigw.py): the gateway model describes one gateway and has no "
        "operation for a second one; what a step on one gateway (its construction, a version report, any traffic) does to the "
        "OTHER live gateways is judged by the property's oracle alone (per Gateway object: reference = the last accepted version "
        "report seen by that object, None from its construction; after every step every live gateway must show that version and "
        "the protocol selected for it, and its type gates follow it); each gateway object's own projection of the schedule is "
        f"additionally compared with the model as gnew(version unknown) + its own operations on the version view ({compared} "
        f"gateway objects in {len(scs)} schedules)")


# ---- replay ---------------------------------------------------------------------------------------


def replay(case) -> None:
    from .gateway import fields_of, proto_tables, want_protocol

    sc = {"steps": steps_from_json(case["multi"]["steps"])}
    res = run_schedules([sc])[0]
    ref: dict = {}
    print(f"{len({s[1] for s in sc['steps']})} gateways in one process, {len(sc['steps'])} steps"
          + (f" (shrunk from {case['shrunk_from_steps']})" if "shrunk_from_steps" in case else ""))
    for i, (step, r) in enumerate(zip(sc["steps"], res)):
        g, o = step[1], r["acted"]
        if step[0] == "new":
            ref[g] = None
            print(f"step {i}: gateway {g}: a new Gateway object is constructed (metric={step[2]})")
        else:
            op = step[2]
            f = fields_of(op[1]) if op[0] == "recv" else None
            if vs.is_report(f) and not (op[2] if op[0] == "recv" else op[3]) and want_protocol(f[5]) is not None:
                ref[g] = f[5]
            print(f"step {i}: gateway {g}: {op}")
            print(f"      impl: {o['out']} writes={[w[0] for w in o['writes']]}")
        for x, s in r["all"].items():
            want = "1.4" if ref[x] is None else want_protocol(ref[x])
            bad = s["pv"] != ref[x] or s["proto"] != want
            print(f"      gateway {x}: protocol_version={_short(s['pv'])!r} active={s['proto']}   "
                  f"[reported by this gateway: {_short(ref[x])!r}, the property selects {want}]" + ("   <-- VIOLATED" if bad else ""))
    judge(sc, res, lib.Corr("C05", ""), lambda w, c: print("oracle:", w, "(gateway " + str(c.get("violating_gateway", c.get("gateway"))) + ")"),
          want_protocol, fields_of, proto_tables)
