"""C01 at `Gateway.send` vs `Transport.write` when sends are CONCURRENT and a write really suspends.

The property's observation points include "Gateway.send vs transport write": what `Gateway.send(m)` hands to the
transport is the encoding of `m` - exactly one line `node;child;command;ack;type;payload` with a single newline at the
end - and that text decodes back to `m`.  The other parts of run_c01 (codec.py, codecstates.py) call `send` one call at
a time over transports whose `write` returns without ever suspending, so at most one call is ever on its way to the
transport.  An application does not work like that: several tasks send through one Gateway (`asyncio.gather`, a user
command racing the reply a handler writes while `Gateway.listen` processes a line, held commands released at a wake)
while an earlier write is still waiting - a slow link, stream back-pressure, an MQTT publish waiting for the broker.

Here every `Transport.write` (for the library's `MQTTTransport`: every `_publish`) SUSPENDS at a gate until the case's
schedule lets it return (or fail).  A case is

    version, transport kind (plain `Transport` / the library's `MQTTTransport` with a gated `_publish`), registry,
    `before`:   sends made one after the other before anything is concurrent (commands held for sleeping nodes),
    `tasks`:    application tasks, each a list of `send` calls (every command, buffered and unbuffered) made in turn,
    `schedule`: ["start", i]  task i is created            ["line", text]  the transport delivers a line to the task that
                ["rel", k]    the k-th suspended write returns             runs `async for ... in gateway.listen()`
                ["fail", k]   the k-th suspended write raises TransportFailedError

After every choice the event loop runs until nothing can move (no sleeps, no timing: the loop's ready queue is empty);
after the schedule the remaining writes are let through oldest first.  Nothing can hang: a case that does not come to
an end within its bound is recorded (a disagreement with the model, in which a send returns once its write has), never
waited for.

The oracle is the property restated for this setting, on the real trace:

  1. every argument of `Transport.write` - whoever wrote it - is exactly one newline-terminated line that is the
     encoding of a well-formed message, and `MessageSchema.load` decodes it back to that message;
  2. call by call: when `Gateway.send(m)` comes to its end (returns, or raises because the write failed), `encode(m)` has
     been handed to the transport during the call, in a write of its own - nothing for a set command that is held for a
     sleeping node; no write is left over that no call accounts for (when nothing but send calls writes); the messages
     one task sends one after the other reach the transport in that order; `send` does not raise unless the transport
     did.  (Which task makes the write is not judged.)
  3. a message yielded by `Gateway.listen` meanwhile has the field values its line spells;
  4. over MQTT: what a peer on the broker sees for every publish (topic levels + payload) is the line that was written.

The Lean model's `enc` / `dec` (Codec.encode / decode) are compared on the same data: the text each call handed to the
transport against `enc` of its message, `dec` of every written text against `MessageSchema.load`.
(Theorems: `C01.joined_newlines`, `C01.one_write_one_message` - a text made of k encodings has k newlines, so it is the
one-line form iff k = 1, and then it is the encoding of that very message.)
"""

from __future__ import annotations

import asyncio
import itertools

from .. import gw, lib
from .codec import Message, impl_load, model_dec, parse_model_dec, ref_accepts, schema_for
from .codecstates import CHILD_IDS, VALUE_TYPES, _fields, one_line_encoding, pay

from aiomysensors.exceptions import AIOMySensorsError, TransportFailedError  # noqa: E402
from aiomysensors.transport import Transport  # noqa: E402
from aiomysensors.transport.mqtt import MQTTTransport  # noqa: E402

LISTENER = "L"
PREFIX_TASK = "pre"
SETTLE_MAX = 400


def line_of(f) -> str:
    return "%d;%d;%d;%d;%d;%s\n" % tuple(f)


# ---- transports whose write really suspends -------------------------------------------------------------------------


class Gates:
    """The bookkeeping shared by the gated transports: one record per `Transport.write` call, in order of entry."""

    def __init__(self) -> None:
        self.calls: list[dict] = []
        self.pending: list[dict] = []      # writes that have not returned yet, oldest first
        self.auto = True                   # the sequential prefix: a write returns at once
        self.activity = 0
        self.call_of: dict = {}            # task name -> (task name, k) of the send call it is executing
        self.events: list = []
        self.max_pending = 0

    def enter(self, text) -> dict:
        t = asyncio.current_task()
        name = t.get_name() if t is not None else "?"
        rec = {"text": text, "task": name, "call": self.call_of.get(name), "end": None, "ev": None, "fail": False,
               "behind": len(self.pending)}
        self.calls.append(rec)
        self.events.append(("write", len(self.calls) - 1))
        self.activity += 1
        return rec

    async def hold(self, rec: dict) -> None:
        if self.auto:
            rec["end"] = "returned"
            return
        rec["ev"] = asyncio.Event()
        self.pending.append(rec)
        self.max_pending = max(self.max_pending, len(self.pending))
        try:
            await rec["ev"].wait()
        except asyncio.CancelledError:
            rec["end"] = "cancelled"
            if rec in self.pending:
                self.pending.remove(rec)
            raise
        self.activity += 1
        self.events.append(("write-ends", self.calls.index(rec), "fails" if rec["fail"] else "returns"))
        if rec["fail"]:
            rec["end"] = "failed"
            raise TransportFailedError("scripted write failure")
        rec["end"] = "returned"

    def release(self, k: int, fail: bool) -> bool:
        if not self.pending:
            return False
        rec = self.pending.pop(k % len(self.pending))
        rec["fail"] = fail
        rec["ev"].set()
        return True


class PlainGated(Transport):
    kind = "plain"

    def __init__(self) -> None:
        self.gates = Gates()
        self.readq: asyncio.Queue = asyncio.Queue()
        self.publishes: list = []

    async def connect(self) -> None:
        pass

    async def disconnect(self) -> None:
        pass

    async def read(self) -> str:
        return await self.readq.get()

    async def write(self, decoded_message: str) -> None:
        await self.gates.hold(self.gates.enter(decoded_message))

    def deliver(self, line: str) -> None:
        self.readq.put_nowait(line)

    def idle(self) -> bool:
        return self.readq.empty()


class MqttGated(MQTTTransport):
    """The library's MQTT transport; the broker is a list, and a publish waits until the schedule lets it return."""

    kind = "mqtt"

    def __init__(self) -> None:
        super().__init__()
        self.gates = Gates()
        self.publishes: list = []          # (topic, payload, qos, index of the write call it belongs to)
        self._cur: dict = {}

    async def _connect(self) -> None:
        pass

    async def _disconnect(self) -> None:
        pass

    async def _subscribe(self, topic: str, qos: int) -> None:
        pass

    async def write(self, decoded_message: str) -> None:
        rec = self.gates.enter(decoded_message)
        t = asyncio.current_task()
        self._cur[t] = rec
        try:
            await super().write(decoded_message)
        finally:
            self._cur.pop(t, None)
        if rec["end"] is None:
            rec["end"] = "returned without a publish"

    async def _publish(self, topic: str, payload: str, qos: int) -> None:
        rec = self._cur.get(asyncio.current_task())
        if rec is None:
            rec = self.gates.enter(None)           # a publish outside any write call
        self.publishes.append((topic, payload, qos, self.gates.calls.index(rec)))
        await self.gates.hold(rec)

    def deliver(self, line: str) -> None:
        *levels, payload = line.rstrip("\n").split(";", 5)
        self._receive(self.in_prefix + "/" + "/".join(levels), payload)

    def idle(self) -> bool:
        return self._incoming_messages.empty()


TRANSPORTS = {"plain": PlainGated, "mqtt": MqttGated}


async def settle(gates: Gates) -> None:
    """Run the event loop until nothing can move: the ready queue is empty when this task is resumed (twice in a row),
    or - on a loop that does not show its queue - nothing has happened for a number of iterations."""
    ready = getattr(asyncio.get_running_loop(), "_ready", None)
    need = 2 if ready is not None else 8
    quiet = 0
    for _ in range(SETTLE_MAX):
        mark = gates.activity
        await asyncio.sleep(0)
        if gates.activity == mark and (ready is None or len(ready) == 0):
            quiet += 1
            if quiet >= need:
                return
        else:
            quiet = 0


# ---- one case on the real gateway -----------------------------------------------------------------------------------


async def run_case(case: dict) -> dict:
    h = gw.Hist(case["version"], case.get("metric", True), [tuple(p) for p in case["preload"]], [])
    tr = TRANSPORTS[case["transport"]]()
    G = tr.gates
    g, _ = gw.build_gateway(h, tr)
    gw.TIME_STUB.now = gw.DEFAULT_TIME
    await g.__aenter__()
    calls: list[dict] = []
    heard: list = []
    delivered: list[str] = []
    skipped: list = []
    loop = asyncio.get_running_loop()

    async def do_send(name, k, fields, buffer):
        G.call_of[name] = (name, k)
        rec = {"task": name, "k": k, "fields": tuple(fields), "buffer": buffer, "outcome": None}
        calls.append(rec)
        G.events.append(("call", name, k))
        G.activity += 1
        try:
            await g.send(Message(*fields), message_buffer=buffer)
            rec["outcome"] = ("ok",)
        except asyncio.CancelledError:
            rec["outcome"] = ("cancelled",)
            raise
        except Exception as e:  # noqa: BLE001
            rec["outcome"] = ("raised", type(e).__name__, isinstance(e, TransportFailedError))
        finally:
            G.call_of.pop(name, None)
        G.events.append(("return", name, k, rec["outcome"][0]))
        G.activity += 1

    me = asyncio.current_task()
    old_name = me.get_name()
    me.set_name(PREFIX_TASK)
    G.auto = True
    for k, (fields, buffer) in enumerate(case["before"]):
        await do_send(PREFIX_TASK, k, fields, buffer)
    G.auto = False
    me.set_name(old_name)

    async def sender(i):
        for k, (fields, buffer) in enumerate(case["tasks"][i]):
            await do_send(f"s{i}", k, fields, buffer)

    n_lines = sum(1 for t in case["schedule"] if t[0] == "line")

    async def listener():
        for _ in range(n_lines + 2):
            try:
                async for m in g.listen():
                    heard.append(("yield", _fields(m)))
                    G.events.append(("yield", len(heard) - 1))
                    G.activity += 1
            except asyncio.CancelledError:
                raise
            except Exception as e:  # noqa: BLE001
                heard.append(("raised", type(e).__name__, isinstance(e, AIOMySensorsError)))
                G.events.append(("listen-raised", type(e).__name__))
                G.activity += 1
            await asyncio.sleep(0)

    tasks: dict = {}
    ltask = None

    def start(i):
        tasks[i] = loop.create_task(sender(i), name=f"s{i}")

    for tok in case["schedule"]:
        kind = tok[0]
        ok = True
        if kind == "start":
            if tok[1] in tasks or not 0 <= tok[1] < len(case["tasks"]):
                ok = False
            else:
                start(tok[1])
        elif kind in ("rel", "fail"):
            ok = G.release(tok[1], kind == "fail")
        elif kind == "line":
            if ltask is None:
                ltask = loop.create_task(listener(), name=LISTENER)
            tr.deliver(tok[1])
            delivered.append(tok[1])
        else:
            ok = False
        if not ok:
            skipped.append(list(tok))
            continue
        G.events.append(("schedule", list(tok)))
        await settle(G)
    for i in range(len(case["tasks"])):
        if i not in tasks:
            start(i)
            G.events.append(("schedule", ["start", i]))
            await settle(G)
    stuck = False
    for _ in range(1000):
        if G.pending:
            G.release(0, False)
            G.events.append(("schedule", ["rel", 0]))
            await settle(G)
            continue
        if all(t.done() for t in tasks.values()) and tr.idle():
            break
        waiting = [t for t in tasks.values() if not t.done()] + ([ltask] if ltask is not None and not tr.idle() else [])
        # nothing is suspended in a write and yet something has not come to its end: give timers a moment, once
        if waiting:
            await asyncio.wait(waiting, timeout=0.3)
        await settle(G)
        if not G.pending and (not all(t.done() for t in tasks.values()) or not tr.idle()):
            stuck = True
            break
    rest = [t for t in list(tasks.values()) + ([ltask] if ltask is not None else []) if not t.done()]
    for t in rest:
        t.cancel()
    await asyncio.gather(*tasks.values(), *([ltask] if ltask is not None else []), return_exceptions=True)
    try:
        await g.__aexit__(None, None, None)
    except Exception:  # noqa: BLE001
        pass
    return {"writes": [{k: r[k] for k in ("text", "task", "call", "end", "behind")} for r in G.calls], "calls": calls,
            "heard": heard, "delivered": delivered, "skipped": skipped, "stuck": stuck, "events": G.events,
            "publishes": list(tr.publishes), "max_pending": G.max_pending}


def run_cases(cases):
    async def all_of_them():
        return [await run_case(c) for c in cases]
    return asyncio.run(all_of_them())


# ---- the oracle ------------------------------------------------------------------------------------------------------


def sleeping_nodes(case) -> set:
    return {p[1] for p in case["preload"] if p[0] == "node" and p[9]}


def expected_of_call(case, c) -> list[str]:
    """What `Gateway.send` of this call hands to the transport: the message's line; nothing when the command is held."""
    f = c["fields"]
    if f[2] == 1 and c["buffer"] and f[0] in sleeping_nodes(case):
        return []
    return [line_of(f)]


def verdict(case, obs, schemas):
    """What is wrong with the observed trace with respect to C01, or (None, {})."""
    sch = schemas[case["version"]]
    for i, w in enumerate(obs["writes"]):
        text = w["text"]
        if not one_line_encoding(text):
            inside = [l for l in text.split("\n") if l] if type(text) is str else []
            return ("a text handed to Transport.write while sends were concurrent is not exactly one encoded message "
                    "(one newline-terminated line node;child;command;ack;type;payload)",
                    {"write": text, "write_number": i + 1, "written_by": w["task"], "lines_inside": inside,
                     "writes_suspended_at_that_moment": w["behind"]})
        back = impl_load(sch, text)
        if back != ("ok", ref_accepts(text[:-1])):
            return ("a text handed to Transport.write does not decode back to the message it spells",
                    {"write": text, "decoded": repr(back)})
    # which write carried which call's message: a write accounts for a call when its text is the line of the call's message
    # and it was entered between the call and its return - whichever task made it (the earliest-ending call first)
    at = {}
    for i, e in enumerate(obs["events"]):
        if e[0] in ("call", "return"):
            at[(e[0], e[1], e[2])] = i
        elif e[0] == "write":
            at[("write", e[1])] = i
    ended = [c for c in obs["calls"] if c["outcome"] is not None and c["outcome"][0] != "cancelled"]
    # (a call that did not come to an end within the case's bound is recorded as `stuck`, not judged)
    waiting = [c for c in ended if expected_of_call(case, c)]
    carried = {}           # index of the write -> the call it accounts for
    for i, w in enumerate(obs["writes"]):
        t = at[("write", i)]
        fit = [c for c in waiting if line_of(c["fields"]) == w["text"]
               and at[("call", c["task"], c["k"])] < t < at.get(("return", c["task"], c["k"]), len(obs["events"]))]
        if fit:
            c = min(fit, key=lambda c: at.get(("return", c["task"], c["k"]), len(obs["events"])))
            carried[i] = c
            waiting.remove(c)
    all_writes = [(w["task"], w["text"]) for w in obs["writes"]]
    for c in waiting:
        return ("Gateway.send(m) came to its end, but the one-line encoding of m had not been handed to the transport "
                "during the call (concurrent sends, a write that suspends)",
                {"message": list(c["fields"]), "buffered": c["buffer"], "task": c["task"], "call": c["k"] + 1,
                 "outcome": c["outcome"][0], "want_write": line_of(c["fields"]), "all_writes": all_writes})
    if not obs["delivered"]:
        # nobody but the send calls writes: every write must be accounted for (with a listening task the handlers'
        # replies and the released commands are written too; what those are is C06's / C07's, not judged here)
        for i, w in enumerate(obs["writes"]):
            if i not in carried:
                return ("a text was handed to the transport that no Gateway.send call accounts for (a message written "
                        "twice, or for a held command)", {"write": w["text"], "write_number": i + 1, "all_writes": all_writes,
                                                          "sent": [list(c["fields"]) for c in obs["calls"]]})
    last = {}
    for i in sorted(carried):
        c = carried[i]
        if c["task"] in last and last[c["task"]]["k"] > c["k"]:
            return ("the messages one task sent one after the other reached the transport in another order",
                    {"task": c["task"], "first_written": list(last[c["task"]]["fields"]), "then": list(c["fields"]),
                     "all_writes": all_writes})
        last[c["task"]] = c
    any_failed = any(w["end"] == "failed" for w in obs["writes"])
    for c in ended:
        if c["outcome"][0] == "raised" and not (c["outcome"][2] and any_failed):
            return ("Gateway.send raised on a well-formed message although the transport did not fail",
                    {"message": list(c["fields"]), "exc": c["outcome"][1], "task": c["task"], "call": c["k"] + 1})
    for line, ev in zip(obs["delivered"], obs["heard"]):
        want = ref_accepts(line)
        if ev[0] == "yield" and want is not None and ev[1] != ("ok", want):
            return ("Gateway.listen yielded a message whose field values are not the ones the transport line spells",
                    {"line": line, "want": list(want), "yielded": repr(ev[1])})
    for topic, payload, _qos, idx in obs["publishes"]:
        # the peer's reading of a publish, by the MQTT convention itself (prefix/node/child/command/ack/type : payload) -
        # not through a private helper of the library, which a refactoring may move (DESIGN 13, false alarm 15)
        seen = ";".join(topic.split("/")[-5:] + [payload]) + "\n"
        if seen != obs["writes"][idx]["text"]:
            return ("what a peer on the broker sees for a publish (topic levels + payload) is not the line that was written",
                    {"topic": topic, "payload": payload, "write": obs["writes"][idx]["text"]})
    return None, {}


def show(case, obs) -> list[str]:
    out = []
    for e in obs["events"]:
        if e[0] == "schedule":
            out.append(f"schedule {e[1]}")
        elif e[0] == "call":
            c = next(c for c in obs["calls"] if (c["task"], c["k"]) == (e[1], e[2]))
            out.append(f"    {e[1]}: send({list(c['fields'])}, message_buffer={c['buffer']}) is called")
        elif e[0] == "return":
            out.append(f"    {e[1]}: send call {e[2] + 1} ends: {e[3]}")
        elif e[0] == "write":
            w = obs["writes"][e[1]]
            out.append(f"    {w['task']}: Transport.write({w['text']!r}) is entered (write {e[1] + 1}; {w['behind']} suspended before it)")
        elif e[0] == "write-ends":
            out.append(f"    write {e[1] + 1} {e[2]}")
        else:
            out.append(f"    listener: {e}")
    return out


# ---- generators ------------------------------------------------------------------------------------------------------

NODES = [1, 2, 3, 7]


def registry(rng):
    """Nodes 1, 2, 3, 7 with children and some stored values; node 7 never sleeps, at least one of 1-3 does."""
    pre = []
    sleepers = set(rng.sample([1, 2, 3], rng.choice([1, 2, 3])))
    for n in NODES:
        pre.append(("node", n, 17, rng.choice(["2.0", "1.4", "2.2"]), "", "", rng.choice([0, 55]), 0, False, n in sleepers))
        for c in (0, 1, 2):
            pre.append(("child", n, c, c, 6, f"child {c}"))
            for t in rng.sample(VALUE_TYPES, rng.choice([0, 1, 2])):
                pre.append(("val", n, c, t, pay(rng) or "0"))
    return pre, sleepers


def rand_message(rng, version):
    """A well-formed message of any command: set / req / presentation / internal (incl. the id-request exception) / stream."""
    n = rng.choice(NODES * 3 + [0, 9, 254, 255])
    c = rng.choice(CHILD_IDS)
    r = rng.random()
    if r < 0.45:
        return (n, c, 1, rng.choice([0, 0, 1]), rng.choice(VALUE_TYPES), pay(rng))
    if r < 0.57:
        return (n, c, 2, rng.choice([0, 0, 1]), rng.choice(VALUE_TYPES), "")
    if r < 0.67:
        return (n, rng.choice([c, 255]), 0, 0, rng.choice([6, 17, 18, 3, 38]), rng.choice(["", "desc", "a;b", "2.0"]))
    if r < 0.72:
        return (n, rng.choice([5, 0, 254]), 3, 0, rng.choice([3, 4]), rng.choice(["", "9"]))
    if r < 0.92:
        t = rng.choice([13, 18, 19, 2, 6, 1, 4, 8, 14, 22, 32, 40, -5, 2 + 2**16, 10**20])
        return (n, 255, 3, rng.choice([0, 0, 1]), t, rng.choice(["", "", pay(rng)]))
    return (n, 255, 4, 0, rng.choice([0, 1, 2, 3, 7]), rng.choice(["0A0B", "fw;0102", ""]))


def held_message(rng, sleepers):
    n = rng.choice(sorted(sleepers))
    return (n, rng.choice([0, 1, 2]), 1, rng.choice([0, 1]), rng.choice(VALUE_TYPES), pay(rng))


def wake_line(version, n, rng):
    if version == "2.2":
        return f"{n};255;3;0;32;{rng.choice(['500', '100'])}"
    return f"{n};255;3;0;22;{rng.choice(['500', '7'])}"


def rand_lines(rng, version, sleepers, preload):
    """Lines whose handlers write replies and leave the sleeping flags as they are: wakes of sleeping nodes (held commands
    are released, one write each), requests for the time / the configuration / a stored value, an id request, a log line."""
    out = []
    stored = [(p[1], p[2], p[3]) for p in preload if p[0] == "val"]
    for _ in range(rng.choice([1, 1, 2, 3])):
        r = rng.random()
        n = rng.choice(NODES)
        if r < 0.45 and version in ("2.0", "2.1", "2.2"):
            out.append(wake_line(version, rng.choice(sorted(sleepers)), rng))
        elif r < 0.6:
            out.append(f"{n};255;3;0;1;")
        elif r < 0.72:
            out.append(f"{n};255;3;0;6;{rng.choice(['', '0'])}")
        elif r < 0.87 and stored:
            a, b, t = rng.choice(stored)
            out.append(f"{a};{b};2;0;{t};")
        elif r < 0.93:
            out.append("255;255;3;0;3;")
        else:
            out.append("0;255;3;0;9;log;with;delimiters")
    return out


def rand_schedule(rng, n_tasks, lines, n_sends, faults):
    """The order in which tasks start, lines arrive and suspended writes end.  Three styles: everything piles up behind the
    first write before anything is let through; a random interleaving in which writes end rarely; writes end eagerly."""
    style = rng.choice(["pile-up", "pile-up", "random", "random", "eager"])
    starts = [["start", i] for i in range(n_tasks)]
    rng.shuffle(starts)
    arrivals = [["line", l] for l in lines]

    def ending():
        k = rng.choice([0, 0, 0, 1, 2, -1])
        return ["fail" if faults and rng.random() < 0.15 else "rel", k]

    if style == "pile-up":
        first = starts + arrivals
        rng.shuffle(first)
        sched = first + [ending() for _ in range(rng.randint(0, n_sends + len(lines)))]
    else:
        p_end = 0.25 if style == "random" else 0.6
        todo = starts + arrivals
        rng.shuffle(todo)
        sched = []
        while todo:
            if rng.random() < p_end:
                sched.append(ending())
            else:
                sched.append(todo.pop(0))
        sched += [ending() for _ in range(rng.randint(0, n_sends))]
    return sched, style


def rand_case(rng, version, k):
    preload, sleepers = registry(rng)
    transport = "mqtt" if k % 3 == 2 else "plain"
    with_listener = rng.random() < 0.45
    before = []
    if rng.random() < (0.8 if with_listener else 0.3):
        before = [(held_message(rng, sleepers), True) for _ in range(rng.choice([1, 2, 3, 4]))]
        if rng.random() < 0.3:
            before.insert(rng.randrange(len(before) + 1), (rand_message(rng, version), rng.random() < 0.5))
    tasks = []
    for _ in range(rng.choice([1, 2, 2, 3, 3, 4, 5])):
        sends = []
        for _ in range(rng.choice([1, 1, 2, 2, 3, 4])):
            m = rand_message(rng, version)
            sends.append((m, rng.random() < 0.7))
        tasks.append(sends)
    lines = rand_lines(rng, version, sleepers, preload) if with_listener else []
    sched, style = rand_schedule(rng, len(tasks), lines, sum(len(t) for t in tasks), faults=rng.random() < 0.3)
    return {"version": version, "transport": transport, "metric": rng.random() < 0.7, "preload": [list(p) for p in preload],
            "before": [[list(m), b] for m, b in before], "tasks": [[[list(m), b] for m, b in t] for t in tasks],
            "schedule": sched, "style": style}


def exhaustive_cases(version, transport, depth):
    """Three tasks (two sends, one send, one send: a set with a delimiter payload, a req, an internal, a stream message) and
    a wake that releases two held commands: every schedule of `depth` choices over start-next / line / oldest write ends /
    newest write ends."""
    pre = [["node", 1, 17, "2.0", "", "", 0, 0, False, True], ["child", 1, 0, 0, 6, "c"], ["child", 1, 1, 1, 6, "c"],
           ["node", 2, 17, "2.0", "", "", 0, 0, False, False], ["child", 2, 0, 0, 6, "c"]]
    before = [[[1, 0, 1, 0, 2, "1"], True], [[1, 1, 1, 0, 49, "55.7;12.5;22"], True]]
    tasks = [[[[2, 0, 1, 0, 49, "1.5;2.5;3"], True], [[2, 0, 2, 0, 2, ""], True]],
             [[[1, 255, 3, 0, 13, ""], True]],
             [[[1, 0, 1, 1, 3, "55"], False]]]
    wake = wake_line(version, 1, lib.rng_for(0, "x")) if version in ("2.0", "2.1", "2.2") else "1;255;3;0;1;"
    out = []
    for choice in itertools.product(("next", "line", "old", "new"), repeat=depth):
        if choice.count("line") > 1:
            continue
        started = 0
        sched = []
        for ch in choice:
            if ch == "next":
                if started >= len(tasks):
                    break
                sched.append(["start", started])
                started += 1
            elif ch == "line":
                sched.append(["line", wake])
            else:
                sched.append(["rel", 0 if ch == "old" else -1])
        else:
            out.append({"version": version, "transport": transport, "metric": True, "preload": pre, "before": before,
                        "tasks": tasks, "schedule": sched, "style": "exhaustive"})
    return out


# ---- shrinking ----------------------------------------------------------------------------------------------------------


def _variants(case):
    """Smaller cases: a task less, a send less, a prefix send less, a schedule choice less, the plain transport, a node less."""
    for i in range(len(case["tasks"])):
        sched = []
        for t in case["schedule"]:
            if t[0] == "start":
                if t[1] == i:
                    continue
                t = ["start", t[1] - 1 if t[1] > i else t[1]]
            sched.append(t)
        yield {**case, "tasks": case["tasks"][:i] + case["tasks"][i + 1:], "schedule": sched}
    for i, t in enumerate(case["tasks"]):
        for j in range(len(t)):
            if len(t) > 1:
                yield {**case, "tasks": case["tasks"][:i] + [t[:j] + t[j + 1:]] + case["tasks"][i + 1:]}
    for j in range(len(case["before"])):
        yield {**case, "before": case["before"][:j] + case["before"][j + 1:]}
    for j in range(len(case["schedule"]) - 1, -1, -1):
        yield {**case, "schedule": case["schedule"][:j] + case["schedule"][j + 1:]}
    if case["transport"] != "plain":
        yield {**case, "transport": "plain"}
    nodes = [p[1] for p in case["preload"] if p[0] == "node"]
    for n in nodes:
        yield {**case, "preload": [p for p in case["preload"] if p[1] != n]}


def shrink(case, what, schemas):
    def fails(c):
        try:
            obs = run_cases([c])[0]
        except Exception:  # noqa: BLE001
            return None
        v = verdict(c, obs, schemas)
        return (obs, v) if v[0] == what else None
    best = fails(case)
    if best is None:
        return case, None
    for _ in range(400):
        # choices of the schedule that had no effect (nothing was suspended, the task was running already) go first
        idle = best[0]["skipped"]
        if idle:
            cand = {**case, "schedule": [t for t in case["schedule"] if t not in idle]}
            r = fails(cand)
            if r is not None and not r[0]["skipped"]:
                case, best = cand, r
                continue
        for cand in _variants(case):
            r = fails(cand)
            if r is not None:
                case, best = cand, r
                break
        else:
            break
    return case, best


# ---- the run ----------------------------------------------------------------------------------------------------------------


def corpus_cases():
    return [c["concurrent"] for c in lib.load_corpus("C01") if "concurrent" in c]


def run(corr, ctx):
    """Runs the cases on the implementation and judges them; returns the operations for the Lean driver (`enc` of every
    message sent, `dec` of every text written) and the function that compares the driver's answers (the caller sends them
    along with its own batch: starting the driver costs more than these operations)."""
    rng = lib.rng_for(ctx.seed, "c01-concurrent")
    quick = ctx.tier == "quick"
    cases = list(corpus_cases())
    for k in range(600 if quick else 12000):
        cases.append(rand_case(rng, lib.VERSIONS[k % 5], k))
    for v, tk in (("2.1", "plain"), ("2.2", "mqtt")) if quick else [(v, tk) for v in lib.VERSIONS for tk in ("plain", "mqtt")]:
        cases += exhaustive_cases(v, tk, 5 if quick else 6)
    schemas = {v: schema_for(v) for v in lib.VERSIONS}
    observed = run_cases(cases)
    model_ops, model_for = [], []
    for case, obs in zip(cases, observed):
        kind = case.get("style", "corpus")
        corr.count(f"concurrent:cases:{kind}")
        corr.count(f"concurrent:transport:{case['transport']}")
        corr.count(f"concurrent:most-writes-suspended-at-once:{min(obs['max_pending'], 5)}{'+' if obs['max_pending'] >= 5 else ''}")
        if obs["skipped"]:
            corr.count("concurrent:schedule-choices-without-effect", len(obs["skipped"]))
        by_call = {}
        for w in obs["writes"]:
            by_call.setdefault(w["call"], []).append(w)
            if w["task"] == LISTENER:
                corr.count("concurrent:writes-by-the-listening-task (replies, released commands)")
            if w["end"] == "failed":
                corr.count("concurrent:writes-that-failed")
        for c in obs["calls"]:
            if c["task"] == PREFIX_TASK:
                continue
            mine = by_call.get((c["task"], c["k"]), [])
            waited = any(w["behind"] > 0 for w in mine)
            label = "held" if not mine and c["outcome"] == ("ok",) else \
                    "written-while-other-writes-were-suspended" if waited else "written"
            corr.count(f"concurrent:send:{label}")
            corr.count(f"concurrent:send:cmd:{c['fields'][2]}:{'buffered' if c['buffer'] else 'unbuffered'}")
            corr.case(("concurrent-send", case["version"], case["transport"], c["fields"], c["buffer"], waited, obs["max_pending"]),
                      waited or obs["max_pending"] > 1,
                      {"version": case["version"], "via": "Gateway.send, concurrent", "message": list(c["fields"]),
                       "transport": case["transport"], "writes_suspended_before_its_write": max([w["behind"] for w in mine] or [0])}
                      if waited and len(corr.samples) < 6 and c["fields"][2] != 1 else None)
        if obs["stuck"]:
            corr.disagree("a concurrent send did not come to an end although every write had returned (in the model a send "
                          "returns once its write has)", {"concurrent": case})
        what, det = verdict(case, obs, schemas)
        if what is not None:
            if len(corr.violations) < 50:
                small, best = (shrink(case, what, schemas) if sum(1 for v in corr.violations if "concurrent" in v) < 3
                               else (case, None))
                if best is not None:
                    det = best[1][1]
                    obs = best[0]
                corr.violate(what, {"version": small["version"], "via": "Gateway.send -> Transport.write, concurrent sends",
                                    **det, "trace": show(small, obs), "concurrent": small})
            continue
        # the model's view: Codec.encode of every message that was sent, Codec.decode of every text that was written
        for c in obs["calls"]:
            if c["outcome"] is None or c["outcome"][0] == "cancelled" or not expected_of_call(case, c):
                continue
            n, ch, cmd, ack, t, p = c["fields"]
            model_ops.append(f"enc {n} {ch} {cmd} {ack} {t} {lib.enc(p)}")
            # (the verdict above has matched a write with exactly this text to the call)
            model_for.append(("enc", case, c, line_of(c["fields"])))
        for w in obs["writes"]:
            model_ops.append(model_dec(case["version"], w["text"]))
            model_for.append(("dec", case, w, None))
    distinct = list(dict.fromkeys(model_ops))

    def finish(outs) -> None:
        answer = dict(zip(distinct, outs))
        for (kind, case, x, texts), op in zip(model_for, model_ops):
            o = answer[op]
            if kind == "enc":
                if texts != lib.dec(o):
                    corr.disagree("encode, at Transport.write under concurrent sends",
                                  {"concurrent": case, "message": list(x["fields"]), "impl": texts, "model": lib.dec(o)})
            else:
                f = ref_accepts(x["text"][:-1])
                md = parse_model_dec(o)
                if md != ("ok", f):
                    corr.disagree("decode of a text written under concurrent sends",
                                  {"concurrent": case, "write": x["text"], "impl": repr(("ok", f)), "model": repr(md)})

    return distinct, finish


def replay(case: dict) -> int:
    """Re-execute a replay case on the implementation and print the trace and the oracle's verdict."""
    c = case["concurrent"]
    print(f"version {c['version']}, transport {c['transport']}, tasks {c['tasks']}, before {c['before']}")
    obs = run_cases([c])[0]
    for line in show(c, obs):
        print(line)
    schemas = {v: schema_for(v) for v in lib.VERSIONS}
    what, det = verdict(c, obs, schemas)
    if what is None:
        print("NOT reproduced: the trace satisfies the property")
    else:
        print("reproduced:", what)
        for k, v in det.items():
            print(f"   {k}: {v!r}")
    return 0
