"""C03 when the far end of a stream gateway is SLOW: a peer that keeps talking but reads late, or not at all.

C03 says "whatever ... arrive[s] from a gateway ... and whatever state the controller is in, asking for the next
message either yields a message or raises an error derived from the library's base exception class".  The state of
the connection is part of that state: on a serial line or a TCP connection the controller's answers (id response,
config, time, presentation request, version query, the value a `req` asks for, the commands parked for a node that
wakes) go into a socket buffer, and when the far end does not read, `StreamWriter.drain()` does not return - for
milliseconds, seconds, minutes, or never - and then returns after all, or the connection is reset, or the
application gives up and cancels.  Likewise the next line may be a long time coming (`readuntil` pending), and
closing a connection whose buffer is full may take time (`wait_closed` pending).

bytepipe.py's and props/gateway.py's writers return from `drain` at once (or raise at once).  Here every awaited
call of the stream pair can stay PENDING FOR A STRETCH OF VIRTUAL TIME - 0, a millisecond, 1 s, just under / at /
just over round numbers, minutes, hours, a day, for ever - on an event loop whose clock is virtual (the loop of the
C16/C17 engines), so that whatever timer the code under test arms anywhere (asyncio.timeout, wait_for, call_later,
sleep) fires as it would in real time, without waiting.  A case:

    transport flavour (direct / tcp / serial)  x  protocol version known or not  x
    what is asked: the next message after a line whose handler answers (every answering kind), or Gateway.send  x
    which awaited call is slow (the read; the drain of the k-th write)  x  for how long  x
    how the stretch ends (the call completes / raises a class of the OSError family / the connection is lost /
    the asking task is cancelled by its owner at some time)

Oracle (C03's words only): what leaves `anext(gateway.listen())` (and `Gateway.send`, the same write path) is a
message, an exception derived from AIOMySensorsError, or the CancelledError of a cancellation the caller itself
requested.  How LONG the library waits is not judged (nothing in C03 bounds it): a call that is still pending when
the stretch has no end is ended by the harness (the connection is lost) and judged then.  Afterwards the gateway is
still usable: once the peer reads again a well-formed probe line is yielded - also after the application has left the
context and entered it again while `wait_closed` of the old connection was slow.

Model: a slow call that completes is a call that completes, one that ends in an OSError is the gateway model's failed
write (Driver, class view): the outcome classes of the finite, uncancelled cases are compared with the Lean model.
"""

from __future__ import annotations

import asyncio

from .. import gw, lib
from ..gw import Hist
from . import stream as st

lib.use_repo()

from aiomysensors import exceptions as exc  # noqa: E402
from aiomysensors.model.message import Message  # noqa: E402
from aiomysensors.transport import serial as serial_mod  # noqa: E402
from aiomysensors.transport.serial import SerialTransport  # noqa: E402
from aiomysensors.transport.tcp import TCPTransport  # noqa: E402

VirtualTimeLoop = st.VirtualTimeLoop

LIMIT = 1 << 16
FLAVOURS = ["direct", "tcp", "serial"]
PROBE = b"0;255;3;0;9;still alive\n"
PROBE_OUT = "ok 0 255 3 0 9 " + lib.enc("still alive")
HORIZON = 2.0 * 10 ** 5       # virtual seconds after which a stretch without end is ended by the harness
LOOP_AGE = 3.0 * 10 ** 6      # a loop whose virtual clock is older than this is replaced (float resolution of timers)
# how long a call stays pending (virtual seconds); None = until the harness ends it
DELAYS = [0, 0.001, 0.5, 1, 2, 5, 9, 9.999, 10, 10.001, 11, 15, 29.999, 30, 30.001, 60, 120, 300, 900, 3600, 10 ** 4, 86400, None]
ENDS = ["ok", "lost"] + st.IO_FAULTS          # how a stretch ends: completes / connection lost / raises this class

# a known node 1 with children and values, one sleeping node 2 with something parked for it (see `prepare`)
PRELOAD = [("node", 1, 17, "2.0", "Sk", "1.0", 55, 0, False, False), ("child", 1, 1, 1, 6, "temp"), ("val", 1, 1, 0, "21.5"),
           ("node", 2, 17, "2.0", "Sk", "1.0", 55, 0, False, True), ("child", 2, 1, 1, 3, "light")]
# every kind of line whose handler answers (or, with the version unknown, any line: the version is asked for first)
ANSWERED = [
    ("id-request", b"255;255;3;0;3;\n"), ("config-request", b"1;255;3;0;6;0\n"), ("time-request", b"1;255;3;0;1;\n"),
    ("req", b"1;1;2;0;0;\n"), ("set-unknown-node", b"9;1;1;0;0;5\n"), ("set-unknown-child", b"1;7;1;0;0;5\n"),
    ("presentation-of-child-unknown-node", b"8;1;0;0;6;x\n"), ("wake-heartbeat", b"2;255;3;0;22;7\n"),
    ("wake-pre-sleep", b"2;255;3;0;32;500\n"), ("gateway-ready", b"0;255;3;0;14;ready\n"), ("log", b"0;255;3;0;9;hello\n"),
    ("set-known", b"1;1;1;0;0;22.5\n"), ("version-report", b"0;255;3;0;2;2.2\n"), ("malformed", b"1;2;3\n"),
]
SENDS = [((1, 1, 1, 0, 0, "5"), True), ((2, 1, 1, 0, 2, "1"), True), ((2, 1, 1, 0, 2, "1"), False), ((1, 255, 3, 0, 13, ""), True)]


class SlowWriter(st.WriterShape):
    """Stands in for asyncio.StreamWriter on a connection whose far end reads when it pleases.  `slow` maps the index
    of a write call (0 = the next one) to (delay, end): the `drain` after that write stays pending for `delay`
    virtual seconds (None: until `finish_all`), then returns or raises; `slow_close` is the same for `wait_closed`."""

    def __init__(self, reader: asyncio.StreamReader, log) -> None:
        self.reader, self.log = reader, log
        self.attempts: list[bytes] = []
        self.slow: dict[int, tuple] = {}
        self.slow_close: tuple | None = None
        self.n_writes = 0
        self.closed = False
        self.lost = False
        self.waiting: list[asyncio.Future] = []       # stretches without end
        self.ended: list[str] = []                      # how every stretch ended: "completed" | "raised X" | "cancelled"
        self._pending_stall: tuple | None = None

    def arm(self, slow: dict) -> None:
        self.slow, self.n_writes, self.attempts = dict(slow), 0, []

    def write(self, data: bytes) -> None:
        if not isinstance(data, (bytes, bytearray)):
            raise TypeError("write() needs bytes")
        self._pending_stall = self.slow.pop(self.n_writes, None)
        self.n_writes += 1
        if not self.lost:
            self.attempts.append(bytes(data))

    async def _stretch(self, what: str, stall: tuple) -> None:
        delay, end = stall
        self.log(f"{what} is pending" + (" (no end in sight)" if delay is None else f" for {delay:g} s"))
        try:
            if delay is None:
                fut = asyncio.get_running_loop().create_future()
                self.waiting.append(fut)
                end = await fut
            else:
                await asyncio.sleep(delay)
        except asyncio.CancelledError:
            self.ended.append("cancelled")
            self.log(f"{what} is cancelled while pending")
            raise
        if end == "ok":
            self.ended.append("completed")
            self.log(f"{what} returns")
            return
        if end == "lost":
            self.lost = True
            end = "ConnectionResetError"
        self.ended.append("raised " + end)
        self.log(f"{what} raises {end}")
        raise st.FAULTS[end]("injected")

    async def drain(self) -> None:
        stall, self._pending_stall = self._pending_stall, None
        if self.lost:
            raise ConnectionResetError("Connection lost")
        if stall is not None:
            await self._stretch("drain()", stall)

    def finish_all(self, end: str) -> None:
        """The harness ends every stretch that has no end of its own."""
        for fut in self.waiting:
            if not fut.done():
                fut.set_result(end)
        self.waiting = []

    def close(self) -> None:
        self.closed = True
        self.release_stand_ins()

    async def wait_closed(self) -> None:
        stall, self.slow_close = self.slow_close, None
        if stall is not None:
            await self._stretch("wait_closed()", stall)


class _Open:
    last = None
    log = None


async def _open(**kw):
    reader = asyncio.StreamReader(limit=LIMIT)
    _Open.last = (reader, st.shaped(SlowWriter(reader, _Open.log), kw))
    return _Open.last


def _transport(flavour: int):
    if flavour == 0:
        return lib.direct_stream_transport(_open) or TCPTransport("direct.example", 5003)
    if flavour == 1:
        return TCPTransport("gw.example", 5003)
    return SerialTransport("/dev/ttyFAKE", 57600)


class _Patched:
    """The concrete transports' open functions (the seams the library's tests patch) replaced by the in-memory pair."""

    def __enter__(self):
        self.saved = asyncio.open_connection, serial_mod.open_serial_connection
        asyncio.open_connection = lambda **kw: _open(**kw)
        serial_mod.open_serial_connection = lambda **kw: _open(**kw)

    def __exit__(self, *a):
        asyncio.open_connection, serial_mod.open_serial_connection = self.saved


def t_text(d) -> str:
    return "no end" if d is None else f"{d:g} s"


async def run_case(case: dict, corr=None) -> dict:
    """One case on the real transport + gateway, on the running (virtual-time) loop.  Returns the observation; with
    `corr`, C03's oracle is applied."""
    loop = asyncio.get_running_loop()
    t0 = loop.time()
    history: list[str] = []

    def log(text: str) -> None:
        history.append(f"t={round(loop.time() - t0, 3):g}: {text}")

    res = {"out": None, "probe": None, "session": None, "writes": [], "cancelled_by_caller": False, "history": history,
           "ended_by_harness": False}
    flagged = False

    def bad(what: str, **kw) -> None:
        nonlocal flagged
        if corr is not None and not flagged:
            corr.violate(what, {"stall": case, "timeline": list(history), **kw})
        flagged = True
        res["violation"] = what

    flavour = FLAVOURS.index(case["transport"])
    _Open.log = log
    tr = _transport(flavour)
    g, _ = gw.build_gateway(Hist(case["version"], True, [tuple(p) for p in PRELOAD]), tr)
    gw.TIME_STUB.now = gw.DEFAULT_TIME
    await g.__aenter__()
    reader, writer = tr.reader, tr.writer
    if reader is not _Open.last[0] or not isinstance(writer, SlowWriter):
        raise RuntimeError("the transport did not install the opened reader/writer")     # C17's business
    # something is parked for the sleeping node 2 (through the library's own send; nothing is written for it now)
    for k in range(case.get("parked", 0)):
        await g.send(Message(2, 1, 1, 0, 2 + k, "1"), message_buffer=True)
    parked_writes = list(writer.attempts)

    async def ask(make, cancel_at, what: str, judged: bool = True) -> str:
        """Run one call of the application; its owner may cancel it at `cancel_at`.  A call that is still pending at
        the horizon waits on a stretch without end: the harness ends that (connection lost) and goes on waiting."""
        task = asyncio.ensure_future(make())
        log(f"the application {what}")
        cancelled = False

        def owner_cancels() -> None:
            nonlocal cancelled
            if not task.done():
                log("the application cancels its own task")
                cancelled = task.cancel() or cancelled
        handle = None if cancel_at is None else loop.call_later(cancel_at, owner_cancels)
        await asyncio.wait({task}, timeout=HORIZON)
        if not task.done():
            log("still pending: the far end drops the connection")
            res["ended_by_harness"] = True
            writer.finish_all("lost")
            reader.feed_eof()
            await asyncio.wait({task}, timeout=HORIZON)
        if handle is not None:
            handle.cancel()
        if not task.done():
            log("still pending although nothing it could wait for is pending")
            task.cancel()
            await asyncio.wait({task}, timeout=HORIZON)
            return "hang"
        res["cancelled_by_caller"] = res["cancelled_by_caller"] or cancelled
        if task.cancelled():
            out = "foreign CancelledError"
        else:
            e = task.exception()
            out = gw.render_exc(e) if e is not None else (gw.render_msg(task.result()) if isinstance(task.result(), Message) else "ok")
        log(f"-> {out}" + (f"   [{type(e).__module__}.{type(e).__qualname__}: {str(e)[:80]}]" if not task.cancelled() and e is not None else ""))
        if judged and out.startswith("foreign") and not (out == "foreign CancelledError" and cancelled):
            bad(f"{what}: an exception that is not derived from the library's base class escaped while the far end of the "
                "stream was slow", outcome=out)
        return out

    # ---- the slow stretch
    writer.arm({int(k): tuple(v) for k, v in case.get("slow_writes", {}).items()})
    if case["op"] == "listen":
        line = bytes.fromhex(case["line"])
        rd = case.get("read_delay", 0)
        arrival, arrived = None, [rd == 0]

        def arrives(r=reader) -> None:
            arrived[0] = True
            log("the line arrives")
            r.feed_data(line)
        if rd == 0:
            reader.feed_data(line)
        elif rd is not None:
            arrival = loop.call_later(rd, arrives)
        else:
            log("no line arrives")
        listener = g.listen()
        res["out"] = await ask(lambda: anext(listener), case.get("cancel_at"), f"asks for the next message ({lib.safe_repr(line)[2:-1]})")
        if arrival is not None and not arrived[0]:
            arrival.cancel()
            log("the line is not sent after all")
        # a request that ended without a message may have ended before it took the line off the stream (given up by its
        # owner, or by the library, at the moment the line arrived): the line is then still ahead of the probe
        leftover = arrived[0] and not res["out"].startswith("ok")
        if not res["out"].startswith("ok"):
            await listener.aclose()
            listener = None
    else:
        f, buffered = case["send"]
        listener, leftover = None, False
        res["out"] = await ask(lambda: g.send(Message(*f), message_buffer=buffered), case.get("cancel_at"), f"calls send{tuple(f)}")
    res["writes"] = [w.decode("utf-8", "replace") for w in writer.attempts]
    res["stretches"] = list(writer.ended)

    # ---- afterwards: the far end reads again (or the application reconnects); the gateway must still be usable
    writer.arm({})
    writer.finish_all("ok")
    if case.get("session") is not None or writer.lost or reader.at_eof():
        if listener is not None:
            await listener.aclose()
            listener = None
        if case.get("session") is not None:
            writer.slow_close = tuple(case["session"])
        try:
            res["session"] = await ask(lambda: g.__aexit__(None, None, None), None, "leaves the context", judged=False)   # what leaving may raise is C16's matter
            if res["session"] == "ok":
                res["session"] = await ask(lambda: g.__aenter__(), None, "enters the context again", judged=False)
        except BaseException as e:  # noqa: BLE001
            res["session"] = gw.render_exc(e)
        reader, writer, leftover = tr.reader, tr.writer, False
        if res["session"] != "ok" or not isinstance(writer, SlowWriter) or writer.closed:
            res["probe"] = "skipped"
            return res
    if res["out"] == "hang":
        res["probe"] = "skipped"
        return res
    reader.feed_data(PROBE)
    if listener is None:
        listener = g.listen()
    flagged_before = flagged
    res["probe"] = await ask(lambda: anext(listener), None, "asks for the next message (the probe line)")
    if res["probe"] != PROBE_OUT and leftover and res["probe"] != "hang" and not flagged:
        res["leftover"] = res["probe"]
        if not res["probe"].startswith("ok"):
            await listener.aclose()
            listener = g.listen()
        res["probe"] = await ask(lambda: anext(listener), None, "asks for the next message (that was the late line; now the probe line)")
    if res["probe"] != PROBE_OUT and not flagged_before and not flagged:
        bad("after a slow stretch on the stream the next well-formed line was not processed normally", outcome=res["probe"])
    await listener.aclose()
    try:
        await g.__aexit__(None, None, None)
    except exc.AIOMySensorsError:
        pass
    res["parked_writes"] = parked_writes
    return res


# ---- generator -------------------------------------------------------------------------------


def cases(rng, tier: str) -> list[dict]:
    delays = DELAYS
    out: list[dict] = []
    i = 0

    def add(**kw) -> None:
        nonlocal i
        kw.setdefault("transport", FLAVOURS[i % 3])
        out.append(kw)
        i += 1

    # (A) every answering kind of line x every delay on the drain of its first (and, where there are several, a later)
    #     write x the ways a stretch ends, rotating; the version known and unknown
    ends = list(ENDS)
    for ai, (name, line) in enumerate(ANSWERED):
        for di, d in enumerate(delays):
            for vi, version in enumerate(("2.2", None)):
                v = version if version is None else lib.VERSIONS[(ai + di) % 5]
                end = "ok" if d is None or (ai + di + vi) % 2 == 0 else ends[(ai * 7 + di) % len(ends)]
                which = 0 if (ai + di) % 3 else (ai + di) % 4
                add(kind=name, op="listen", version=v, line=line.hex(), parked=(2 if name.startswith("wake") else 0),
                    slow_writes={str(which): [d, end]})
    # (B) the same with the owner of the task giving up: before, at and after round numbers, and on a stretch with no end
    for ai, (name, line) in enumerate(ANSWERED[:9]):
        for d, c in ((None, 5), (None, 12), (60, 30), (10 ** 4, 9.5), (None, 10 ** 4), (30, 30), (1, 2)):
            if tier == "quick" and (ai + int(c)) % 3:
                continue
            add(kind=name, op="listen", version=lib.VERSIONS[ai % 5] if ai % 4 else None, line=line.hex(),
                parked=(2 if name.startswith("wake") else 0), slow_writes={"0": [d, "ok"]}, cancel_at=c)
    # (C) the line itself is a long time coming (and its answer may be slow as well); no line at all, given up by the owner
    for ai, (name, line) in enumerate(ANSWERED):
        for di, d in enumerate(delays):
            if tier == "quick" and (ai + di) % 4:
                continue
            if d is None:
                add(kind=name, op="listen", version="2.1", line=line.hex(), read_delay=None, cancel_at=[5, 3600, 10 ** 5][ai % 3])
            else:
                sw = {} if di % 2 else {"0": [delays[(di + ai) % (len(delays) - 1)], ends[(ai + di) % len(ends)]]}
                add(kind=name, op="listen", version=lib.VERSIONS[(ai + di) % 5], line=line.hex(), read_delay=d, slow_writes=sw,
                    parked=(2 if name.startswith("wake") else 0))
    # (D) Gateway.send over the same write path
    for si, (f, buffered) in enumerate(SENDS):
        for di, d in enumerate(delays):
            if tier == "quick" and (si + di) % 2:
                continue
            end = "ok" if d is None else ends[(si + di) % len(ends)]
            add(kind="send", op="send", version=lib.VERSIONS[(si + di) % 5], send=[list(f), buffered], slow_writes={"0": [d, end]},
                **({"cancel_at": 7} if d is None and si % 2 else {}))
    # (E) the application reconnects afterwards while closing the old connection is slow
    for di, d in enumerate(delays):
        if d is None:
            continue
        name, line = ANSWERED[di % len(ANSWERED)]
        add(kind=name, op="listen", version="2.2", line=line.hex(), slow_writes={"0": [delays[(di * 5) % (len(delays) - 1)], ends[di % len(ends)]]},
            session=[d, ["ok", "ConnectionResetError", "BrokenPipeError", "OSError"][di % 4]])
    # (F) random combinations
    for _ in range(40 if tier == "quick" else 1500):
        name, line = rng.choice(ANSWERED)
        sw = {str(rng.randrange(3)): [rng.choice(DELAYS[:-1]) if rng.random() < 0.85 else None, rng.choice(ends)] for _ in range(rng.randint(1, 2))}
        for k, (d, e) in list(sw.items()):
            if d is None:
                sw[k] = [None, "ok"]
        kw = {}
        if rng.random() < 0.3:
            kw["cancel_at"] = rng.choice([0.5, 5, 9.9, 10.5, 45, 700, 20000])
        if rng.random() < 0.3:
            kw["read_delay"] = rng.choice(DELAYS[:-1])
        add(kind=name, op="listen", version=rng.choice(lib.VERSIONS + [None]), line=line.hex(), parked=rng.randrange(3), slow_writes=sw, **kw)
    return out


# ---- the Lean gateway model on the finite, uncancelled cases --------------------------------------


def compare_with_model(corr, runs) -> None:
    glines, spans = [], []
    for case, res in runs:
        if case["op"] == "send":
            f, buffered = case["send"]
            op = ("send", tuple(f), buffered, None)
        else:
            op = ("recv", bytes.fromhex(case["line"]).decode()[:-1], None, gw.DEFAULT_TIME)
        n = max([int(k) for k in case.get("slow_writes", {})] + [-1]) + 1
        faults = tuple(case["slow_writes"].get(str(k), [0, "ok"])[1] != "ok" for k in range(n))
        op = (op[0], op[1], faults, op[3]) if op[0] == "recv" else (op[0], op[1], op[2], faults)
        hist = Hist(case["version"], True, [tuple(p) for p in PRELOAD])
        for k in range(case.get("parked", 0)):
            hist.ops.append(("send", (2, 1, 1, 0, 2 + k, "1"), True, ()))
        hist.ops.append(op)
        gl = gw.model_lines(hist)
        spans.append((hist, len(glines), len(gl)))
        glines += gl
    gouts = lib.run_model(glines)
    for (case, res), (hist, a, n) in zip(runs, spans):
        mo = gw.model_obs(hist, gouts[a:a + n])
        want = mo[len(hist.ops)][0].split(" W")[0]
        want = "ok" if want.startswith("ok") else " ".join(want.split(" ")[:2])
        got = "ok" if res["out"].startswith("ok") else " ".join(res["out"].split(" ")[:2])
        corr.count("slow-peer:cases-compared-with-the-model")
        if got != want:
            corr.disagree("outcome class of a request for the next message / a send while the far end of the stream is slow "
                          "(gateway model: a stretch that ends in an OSError is a failed write, one that completes is a write)",
                          {"stall": case, "impl": got, "model": want, "timeline": res["history"]})


# ---- entry points ----------------------------------------------------------------------------


def _run_all(todo: list[dict], corr) -> list[tuple[dict, dict]]:
    runs: list[tuple[dict, dict]] = []
    todo = list(todo)

    async def batch():
        loop = asyncio.get_running_loop()
        with _Patched():
            while todo and loop.time() < LOOP_AGE:
                case = todo.pop(0)
                runs.append((case, await run_case(case, corr)))
    while todo:
        asyncio.run(batch(), loop_factory=VirtualTimeLoop)
    return runs


def run(corr, ctx) -> None:
    rng = lib.rng_for(ctx.seed, "c03-slow-peer")
    todo = [c["stall"] for c in lib.load_corpus("C03") if "stall" in c] + cases(rng, ctx.tier)
    runs = _run_all(todo, corr)
    comparable = []
    for case, res in runs:
        corr.count("slow-peer:cases")
        corr.count("slow-peer:op:" + case["op"])
        corr.count("slow-peer:outcome:" + ("ok" if res["out"].startswith("ok") else " ".join(res["out"].split(" ")[:2])))
        for e in res.get("stretches", []):
            corr.count("slow-peer:stretch-" + e.split(" ")[0])
        if res["ended_by_harness"]:
            corr.count("slow-peer:stretches-without-end-ended-by-the-harness")
        if res["probe"] == PROBE_OUT:
            corr.count("slow-peer:probe-yielded-afterwards")
        if res["session"] is not None:
            corr.count("slow-peer:reconnect:" + ("ok" if res["session"] == "ok" else " ".join(res["session"].split(" ")[:2])))
        longest = max([0] + [10 ** 9 if v[0] is None else v[0] for v in case.get("slow_writes", {}).values()]
                      + [10 ** 9 if case.get("read_delay", 0) is None else case.get("read_delay", 0)])
        corr.case(("slow-peer", repr(sorted(case.items(), key=lambda kv: kv[0]))), longest >= 1 or not res["out"].startswith("ok"), None)
        finite = all(v[0] is not None for v in case.get("slow_writes", {}).values()) and case.get("read_delay", 0) is not None
        if finite and case.get("cancel_at") is None and not res["cancelled_by_caller"] and "violation" not in res and res["out"] != "hang":
            comparable.append((case, res))
    if ctx.model_ok and comparable:
        compare_with_model(corr, comparable)
    corr.notes.append("slow far end of a stream gateway (harness/props/stall.py): real StreamTransport (direct/tcp/serial) + real "
                      "Gateway on an event loop with a virtual clock; the drain of an answer's write, the arrival of the line, "
                      "wait_closed pending for 0 s ... a day ... for ever, ending by completing / an OSError class / connection "
                      "lost / the owner's cancellation; oracle = only library errors (or the caller's own cancellation) from "
                      "listen()/send(), probe line afterwards; finite uncancelled cases compared with the gateway model (class view)")


def replay(case: dict) -> int:
    verdict = lib.Corr("C03", "replay")
    (c, res), = _run_all([case["stall"]], verdict)
    for k, v in c.items():
        print(f"{k}: {v!r}")
    for h in res["history"]:
        print("  ", h)
    print("outcome:", res["out"], "| written:", res["writes"], "| reconnect:", res["session"], "| probe:", res["probe"])
    if verdict.violations:
        print("reproduced:", verdict.violations[0]["what"], "-", verdict.violations[0].get("outcome"))
    else:
        print("NOT reproduced: C03's oracle finds nothing wrong on this run")
    return 0
