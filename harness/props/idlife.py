"""C11 over the whole life of a controller that has a persistence file: ONE Gateway object entered several times,
and a controller that is started again (a NEW Gateway object on the same file).

The property quantifies over "all registry contents ... and all sequences of id requests interleaved with
presentations", and it names three ways an id gets into the registry: *restored from persistence*, presented,
handed out earlier.  The ordinary C11 histories start from a registry that is simply there.  Here the registry
is what an application really gets: a Gateway with `Config(persistence_file=...)` that is entered, left and entered
again (every enter restores the file into the registry the object already holds), whose final save may fail (the
volume holding the file is away when the session ends), whose file may be replaced, deleted or damaged between
sessions, and into which other node files are merged through the public `Persistence.load(path)`.

A *life* is a list of such operations.  The oracle is the property's statement over the life of the object:
every id handed out lies in 1..254, differs from every id present in the registry when it is requested, from
every id this gateway object ever had registered (restored by a load that succeeded, presented, or seen in the
registry at any earlier point) and from every id it handed out before; it is registered when the answer has been
written; the answer is addressed like the request; the too-many-nodes error writes and registers nothing and is
raised only when no id above the highest registered id is free.  Nothing here says how `load` has to combine
the file with the registry - only what id requests may answer afterwards.

A session is a real `async with gateway:` statement running in a task of its own, and it ends in every way such a
statement can end: the body ends normally; an exception leaves the body - a library error raised by the listen loop
(the connection drops: the read fails; a line that cannot be handled; the write of an answer fails) which the
application does not handle inside the block, or an exception of the application's own code (several classes, one of
them not an `Exception`); the task is cancelled while the body waits (in `listen()` for the next line, or in an await
of its own).  After the end the controller may be started again: a new Gateway object with the same persistence file
(`restart`).  "Two requests never receive the same id" then rests on the file: whatever the gateway had registered when
a session ended is restored by the next start, PROVIDED the context statement did not report a failure of its own (the
final save fails when the volume is away: the statement then ends with the persistence write error and the application
knows that the file is stale - nothing is promised about ids registered since the last save that succeeded) and nobody
else put another registry there in between.  The oracle keeps, next to what the current object has had
registered, what the library's own successful writes have put into the file (`on_file`): replaced whenever the library
writes the file without reporting an error, and added to what must not be handed out again whenever an object loads its
file successfully.

What `on_file` is worth after the file was touched depends on what the file IS when a session starts on it, not on who
touched it (the library cannot see who; the property does not say).  A file that loads in full, an empty file and no
file at all ARE the persisted registry as they stand (C14: a missing file is created, an empty one is an empty registry):
when someone else put that there - a backup, an edited file, nothing - the earlier content is not promised any more and
`on_file` is dropped (this includes a file cut down to nothing: the hole of the truncating save, C15's known finding).
A file that was DAMAGED IN PLACE - cut short at any offset, bytes spoilt, text inserted, wrapped into another shape, one
record made invalid, the path unreadable for a while - is nobody's other registry: it is exactly what an interrupted save
of the library itself (C15: `open(path, "w")`, then the write) or a failing medium leaves of the only durable copy of the
ids that were handed out.  `on_file` stands.  The library may refuse to start on such a file (the context statement
raises the persistence read error: nothing is handed out, the application is told, nothing is judged); if a load reports
success on it, the ids handed out afterwards must still differ from what the library had saved there ("two requests never
receive the same id") and from the id of every well-formed record the file still holds, wherever it stands ("differs from
every id ... restored from persistence": what a load that reports success has restored is what the file holds).

Model: sessions, volumes and files are not operations of the gateway model.  Its state (registry, version,
buffers) is unaffected by enter/exit, and what a *successful* load does to the registry is expressed with the
driver's `gnode` operation, one per entry the harness itself read from the file just before the load (the
registry after a load = the registry before, with the file's entries set in file order).  A restart is a fresh model
gateway (`gnew`).  Received lines are `grecv` as everywhere.  Compared on the ids view.  Lives containing a load the harness cannot express that way
(a file whose valid entries are followed by an invalid one, or a file the harness and the implementation judge
differently) are compared up to that load and judged by the oracle alone afterwards.
"""

from __future__ import annotations

import asyncio
import json
import os
import shutil
import tempfile
from concurrent.futures import ThreadPoolExecutor
from dataclasses import dataclass, field

from .. import gw, lib
from ..lib import Corr, enc
from .codec import ref_accepts

KINDS = ("enter", "exit", "restart", "offline", "online", "file", "load", "reload", "save", "recv")

# the ways an `async with gateway:` statement ends (("exit", how); how defaults to "clean")
#   clean              the body ends normally
#   drop               the connection drops: `transport.read()` fails, the library error leaves `listen()` and the block
#   cancel             the task is cancelled while the body waits in `listen()` for the next line
#   cancel-app         the task is cancelled while the body waits in an await of the application's own
#   raise:<Class>      the application's code in the body raises <Class>
# (a received line whose error the application does not handle inside the block: ("recv", ..., True))


class AppError(Exception):
    """An error of the application's own."""


class AppStop(BaseException):
    """The application's way to unwind (not an `Exception`, like KeyboardInterrupt / SystemExit / GeneratorExit)."""


FOREIGN = {"RuntimeError": RuntimeError, "KeyError": KeyError, "OSError": OSError, "TimeoutError": TimeoutError,
           "ValueError": ValueError, "AppError": AppError, "AppStop": AppStop}
ENDS = ("clean", "drop", "cancel", "cancel-app") + tuple("raise:" + n for n in FOREIGN)


# ---- a life ------------------------------------------------------------------------------------
#
# ops:  ("enter",)                      a task starts `async with gateway:`; the operation ends when the body is reached
#                                       or the enter has failed                       (skipped when already inside)
#       ("exit",) / ("exit", how)       the statement ends in the way `how` (above)  (skipped when not inside)
#       ("restart",)                    the controller is started again: a NEW Gateway object (and transport) on the same
#                                       persistence file; the old one is dropped      (skipped when inside a session)
#       ("offline",) / ("online",)      the directory holding the persistence file goes away / comes back
#       ("file", spec)                  the persistence file is replaced by someone else (backup restored, edited, deleted)
#       ("load", spec)                  `await gateway.persistence.load(other_path)`, other_path holding `spec`
#       ("reload",)                     `await gateway.persistence.load()`
#       ("save",)                       `await gateway.persistence.save()`
#       ("recv", line, faults, time)    one received line through `gateway.listen()` in the body (only inside a session);
#                                       an error is handled by the application inside the block (the listen loop is
#                                       started again)
#       ("recv", line, faults, time, True)   the same, but the application does not handle errors inside the block: an
#                                       exception leaves the body and ends the session
# spec: a list of node ids (a well-formed file with these nodes, in this order) | None (no file)
#       | {"bad": "garbage" | "list" | "entry"} (a file that cannot be loaded, nothing valid in it)
#       | {"half": [ids]} (well-formed entries followed by one that is not)
#       | {"half": [ids], "at": k} (the entry that is not well-formed stands before the k-th well-formed one)
#       | {"damage": kind, ...}: ("file", ...) only - the file AS IT STANDS is damaged in place, the way an interrupted
#         save of the library itself, a failing medium or a careless tool leaves it (no other registry is put there):
#           {"damage": "cut", "at": a}        cut short at offset a (a strict prefix of what was there; a = 0: emptied)
#           {"damage": "bytes", "at": a}      two bytes at offset a overwritten with bytes that are not UTF-8
#           {"damage": "insert", "at": a, "what": "text" | "deep"}   foreign text / a deep nesting inserted at offset a
#           {"damage": "wrap"}                the object wrapped into an array (JSON of the wrong shape, every record there)
#           {"damage": "entry", "which": j, "how": h}   the j-th node record made invalid (ENTRY_DAMAGE), the others kept
#           {"damage": "unreadable", "as": "dir" | "loop"}   the path cannot be read for the time being (the file is kept
#                                             aside; a directory / a symbolic link onto itself stands in its place)
#           {"damage": "heal"}                the path can be read again (the file kept aside is back, untouched)
#         offsets: an int (negative: from the end) or a float (fraction of the length)


@dataclass
class Life:
    version: str | None
    metric: bool = True
    file0: object = None                # spec of the persistence file before anything happens
    ops: list = field(default_factory=list)

    def to_json(self):
        return {"version": self.version, "metric": self.metric, "file0": self.file0, "ops": [list(o) for o in self.ops]}

    @staticmethod
    def from_json(j):
        return Life(j["version"], j.get("metric", True), j.get("file0"),
                    [(o[0], o[1], tuple(o[2]), tuple(o[3]), *o[4:]) if o[0] == "recv" else tuple(o) for o in j["ops"]])

    def prefix(self, n: int) -> "Life":
        return Life(self.version, self.metric, self.file0, self.ops[:n])


def node_entry(nid: int) -> dict:
    """A node in the format of the persistence file."""
    return {"battery_level": 0, "children": {}, "heartbeat": 0, "node_id": nid, "node_type": 18 if nid == 0 else 17,
            "protocol_version": "2.0", "sketch_name": "", "sketch_version": "", "sleeping": False}


def spec_text(spec) -> str | None:
    if spec is None:
        return None
    if isinstance(spec, (list, tuple)):
        return json.dumps({str(n): node_entry(n) for n in spec}, indent=2)
    if "half" in spec:
        ids = list(spec["half"])
        at = spec.get("at", len(ids))
        data = {str(n): node_entry(n) for n in ids[:at]}
        data["broken"] = {"node_id": "not a number", "node_type": 17, "protocol_version": "2.0"}
        data.update({str(n): node_entry(n) for n in ids[at:]})
        return json.dumps(data, indent=2)
    return {"garbage": "{\"1\": {\"node_id\": 1, \"node_ty", "list": "[1, 2, 3]", "entry": "{\"1\": 5}"}[spec["bad"]]


def _remove(path: str) -> None:
    """Whatever stands at the path (a file, a symbolic link, a directory) is removed."""
    if os.path.islink(path) or os.path.isfile(path):
        os.unlink(path)
    elif os.path.isdir(path):
        shutil.rmtree(path)


def write_spec(path: str, spec) -> None:
    """Someone else puts a file (or no file) there: whatever stood at the path, or was kept aside, is gone."""
    text = spec_text(spec)
    _remove(path)
    _remove(path + ".aside")
    if text is None:
        return
    os.makedirs(os.path.dirname(path), exist_ok=True)
    with open(path, "w", encoding="utf-8") as f:
        f.write(text)


# the ways one node record of a file is made invalid: what stands in its place / what is done to it
ENTRY_DAMAGE = ("number", "null", "list", "id", "missing", "extra", "pv")
NODE_FIELDS = {"node_id", "node_type", "protocol_version", "children", "sketch_name", "sketch_version", "battery_level",
               "heartbeat", "sleeping", "sensor_id", "type"}


def _offset(at, n: int) -> int:
    k = int(n * at) if isinstance(at, float) else (at if at >= 0 else n + at)
    return max(0, min(n, k))


def damage_file(path: str, spec) -> None:
    """The file as it stands is damaged in place (see the spec table above).  Nothing happens when there is no file."""
    kind, aside = spec["damage"], path + ".aside"
    if kind == "heal":
        if os.path.isfile(aside):
            _remove(path)
            os.rename(aside, path)
        return
    if os.path.islink(path) or not os.path.isfile(path):
        return
    if kind == "unreadable":
        os.rename(path, aside)
        if spec.get("as", "dir") == "dir":
            os.mkdir(path)
        else:
            os.symlink(os.path.basename(path), path)
        return
    with open(path, "rb") as f:
        data = f.read()
    k = _offset(spec.get("at", 0.5), len(data))
    if kind == "cut":
        data = data[:k]
    elif kind == "bytes":
        data = data[:k] + b"\xff\xfe" + data[k + 2:]
    elif kind == "insert":
        data = data[:k] + {"text": b"bad content", "deep": b"[" * 5000}[spec.get("what", "text")] + data[k:]
    elif kind == "wrap":
        data = b"[" + data + b"]"
    elif kind == "entry":
        try:
            obj = json.loads(data.decode("utf-8") or "{}")
        except ValueError:
            return
        if not isinstance(obj, dict) or not obj:
            return
        key = list(obj)[spec.get("which", 0) % len(obj)]
        rec, how = obj[key], spec.get("how", "id")
        if how not in ENTRY_DAMAGE:
            raise ValueError(f"unknown way to damage a node record: {how!r}")
        if how in ("number", "null", "list") or not isinstance(rec, dict):
            obj[key] = {"number": 5, "null": None, "list": []}.get(how, 5)
        elif how == "id":
            rec["node_id"] = "not a number"
        elif how == "missing":
            rec.pop("node_type", None)
            rec.pop("type", None)
        elif how == "extra":
            rec["colour"] = "red"
        elif how == "pv":
            rec["protocol_version"] = None
        data = json.dumps(obj, indent=2).encode("utf-8")
    else:
        raise ValueError(f"unknown damage {spec!r}")
    with open(path, "wb") as f:
        f.write(data)


def _read_text(path: str):
    """(status, text): "missing" | "unreadable" (the path cannot be read, or holds bytes that are no text) | "text"."""
    try:
        with open(path, encoding="utf-8") as f:
            return "text", f.read()
    except FileNotFoundError:
        return "missing", ""
    except (OSError, ValueError):
        return "unreadable", ""


def _entry(v):
    """One node record as the harness reads it: ("ok", entry) | ("bad", None) | ("unknown", id or None) - well-formed as
    far as the harness can tell, but the gnode translation below cannot carry it."""
    if not isinstance(v, dict) or set(v) - NODE_FIELDS:
        return "bad", None
    nid = v.get("node_id", v.get("sensor_id"))
    ntype = v.get("node_type", v.get("type"))
    if type(nid) is not int or not 0 <= nid <= 255 or type(ntype) is not int or not isinstance(v.get("protocol_version"), str):
        return "bad", None
    if v.get("children"):
        return "unknown", nid              # not produced here; the gnode translation below does not carry children
    e = {"id": nid, "type": ntype, "pv": v["protocol_version"], "sn": v.get("sketch_name") or "",
         "sv": v.get("sketch_version") or "", "bat": v.get("battery_level", 0), "hb": v.get("heartbeat", 0),
         "sleeping": bool(v.get("sleeping", False))}
    if type(e["bat"]) is not int or type(e["hb"]) is not int or not isinstance(e["sn"], str) or not isinstance(e["sv"], str):
        # (the file may be one the library's own save wrote from whatever its registry held: an entry the gnode
        # translation cannot carry is not a crash of the harness - the life is judged by the oracle from there)
        return "unknown", nid
    return "ok", e


def read_store(path: str):
    """What a node file holds, read by the harness itself (not with the library): (status, entries).
    status: "missing" | "ok" (every entry well-formed) | "bad" (entries = the well-formed entries before the first
    that is not) | "unreadable" (the path cannot be read at all: nothing can be restored from it) | "unknown"."""
    status, text = _read_text(path)
    if status != "text":
        return status, []
    try:
        data = json.loads(text or "{}")
    except (ValueError, RecursionError):
        return "bad", []
    if not isinstance(data, dict):
        return "bad", []
    entries = []
    for v in data.values():
        st, e = _entry(v)
        if st != "ok":
            return st, entries
        entries.append(e)
    return "ok", entries


def held_ids(path: str) -> list:
    """The ids of ALL node records of the file that are well-formed, wherever they stand (also behind a record that is
    not): what the file holds, whether or not a load gets that far.  Nothing for a file that is no JSON object."""
    status, text = _read_text(path)
    if status != "text":
        return []
    try:
        data = json.loads(text or "{}")
    except (ValueError, RecursionError):
        return []
    if not isinstance(data, dict):
        return []
    out = []
    for v in data.values():
        st, e = _entry(v)
        if st == "ok":
            out.append(e["id"])
        elif st == "unknown" and e is not None:
            out.append(e)
    return out


# ---- running a life on the implementation ------------------------------------------------------


async def _settle(g, path: str) -> None:
    """Let the scheduled save, started by the enter, write the file, so that it is not in the middle of writing when
    the harness (or the next operation) reads or replaces the file: every life is then reproducible, and what the
    harness reads from a file just before a load is what the load reads.  The file operations of the library run
    on a one-thread executor here, so a no-op sent through it returns after everything submitted before it; a save
    is a chain of such operations, hence several rounds, then until the file holds the registry."""
    loop = asyncio.get_running_loop()
    for i in range(400):
        await loop.run_in_executor(None, int)
        if i >= 6:
            status, entries = read_store(path)
            if status == "ok" and {e["id"] for e in entries} == set(g.nodes):
                return
            if i >= 60 and (status == "unreadable" or not os.path.isdir(os.path.dirname(path))):
                return


class LifeTransport(gw.FaultTransport):
    """The scripted transport, with a connection that can be idle (nothing arrives: the reader waits) or dropped."""

    def __init__(self) -> None:
        super().__init__()
        self.dropped = False
        self.waiting = asyncio.Event()      # set once a read waits for a line that does not come

    async def read(self) -> str:
        if self.lines:
            return self.lines.pop(0)
        if self.dropped:
            raise gw.exc.TransportFailedError("connection lost")
        self.waiting.set()
        await asyncio.Event().wait()        # until the reader is cancelled
        raise AssertionError("unreachable")


class Session:
    """One `async with gateway:` statement, in a task of its own.  Its body does what the life says next: receive a
    line through `listen()` (handling an error inside the block, or not), raise, wait, or end."""

    def __init__(self, g, tr: LifeTransport) -> None:
        self.g, self.tr = g, tr
        self.entered = asyncio.get_running_loop().create_future()
        self.todo: asyncio.Queue = asyncio.Queue()
        self.idle = asyncio.Event()         # set once the body waits in an await of its own
        self.listener = None
        self.body_exc = None                # what left the body (None: it ended normally)
        self.stmt_exc = None                # what left the statement
        self.task = asyncio.create_task(self._statement())

    async def _statement(self) -> None:
        try:
            async with self.g:
                self.entered.set_result(None)
                try:
                    await self._body()
                except BaseException as e:
                    self.body_exc = e
                    raise
        except BaseException as e:  # noqa: BLE001
            self.stmt_exc = e
            if not self.entered.done():
                self.entered.set_exception(e)
        finally:
            if self.listener is not None:       # nothing is left to the garbage collector
                listener, self.listener = self.listener, None
                await listener.aclose()

    async def _body(self) -> None:
        while True:
            what, done = await self.todo.get()
            if what == "leave":
                return
            if what == "wait":
                self.idle.set()
                await asyncio.Event().wait()
            if isinstance(what, BaseException):
                raise what
            # ("listen", uncaught)
            if self.listener is None:
                self.listener = self.g.listen()
            try:
                msg = await anext(self.listener)
            except BaseException as e:  # noqa: BLE001
                self.listener = None            # the generator is finished
                done.set_result(e)
                if what[1]:
                    raise
            else:
                done.set_result(msg)

    async def receive(self, uncaught: bool):
        """The body takes the next message from `listen()`: the message, or the exception raised there."""
        done = asyncio.get_running_loop().create_future()
        self.todo.put_nowait((("listen", bool(uncaught)), done))
        res = await done
        if uncaught and isinstance(res, BaseException):
            await asyncio.wait([self.task])
        return res

    async def end(self, how: str) -> None:
        """The statement ends in the way `how`; returns when it has ended."""
        self.tr.lines = []
        if how == "clean":
            self.todo.put_nowait(("leave", None))
        elif how == "drop":
            self.tr.dropped = True
            self.todo.put_nowait((("listen", True), asyncio.get_running_loop().create_future()))
        elif how in ("cancel", "cancel-app"):
            if how == "cancel":
                self.todo.put_nowait((("listen", True), asyncio.get_running_loop().create_future()))
                reached = asyncio.ensure_future(self.tr.waiting.wait())
            else:
                self.todo.put_nowait(("wait", None))
                reached = asyncio.ensure_future(self.idle.wait())
            await asyncio.wait([self.task, reached], return_when=asyncio.FIRST_COMPLETED)
            reached.cancel()
            self.task.cancel()
        elif how.startswith("raise:") and how[6:] in FOREIGN:
            self.todo.put_nowait((FOREIGN[how[6:]]("the application's code failed"), None))
        else:
            raise ValueError(f"unknown way to end a session: {how!r}")
        await asyncio.wait([self.task])

    def ended(self) -> dict:
        """How the statement ended.  `exit_ok`: `__aexit__` completed - what left the statement is what left the body
        (nothing, when the body ended normally); otherwise `__aexit__` raised something of its own."""
        ok = self.stmt_exc is self.body_exc
        return {"left_by": None if self.body_exc is None else gw.render_exc(self.body_exc), "exit_ok": ok,
                "exit_out": "ok" if ok else gw.render_exc(self.stmt_exc)}


async def _run_life(life: Life, root: str):
    from aiomysensors.gateway import Config, Gateway

    vol, other = os.path.join(root, "vol"), os.path.join(root, "other")
    off = vol + ".offline"
    os.makedirs(vol)
    os.makedirs(other)
    path = os.path.join(vol, "nodes.json")

    def where() -> str:         # where the file lives right now (someone may edit it while the volume is detached)
        return path if os.path.isdir(vol) else os.path.join(off, "nodes.json")

    def start():
        tr = LifeTransport()
        g = Gateway(tr, Config(metric=life.metric, persistence_file=path))
        if life.version is not None:
            g.protocol_version = life.version
        return tr, g

    write_spec(path, life.file0)
    tr, g = start()
    sess, n_other = None, 0
    obs = []
    for op in life.ops:
        tr.attempts, tr.faults = [], []
        before = list(g.nodes)
        o = {"kind": op[0], "out": "ok", "skipped": False}
        kind = op[0]
        if kind not in KINDS:
            raise ValueError(f"unknown life operation {op!r}")
        try:
            if kind == "recv":
                if sess is None:
                    o["skipped"], o["out"] = True, "skipped (not inside a session)"
                else:
                    line, faults, now = op[1:4]
                    uncaught = len(op) > 4 and bool(op[4])
                    tr.lines, tr.faults = [line], list(faults)
                    gw.TIME_STUB.now = tuple(now)
                    res = await sess.receive(uncaught)
                    if isinstance(res, BaseException):
                        o["out"] = gw.render_exc(res)
                        if uncaught:
                            o["ended"] = sess.ended()
                            sess = None
                    else:
                        o["out"] = gw.render_msg(res)
            elif kind == "enter":
                if sess is not None:
                    o["skipped"], o["out"] = True, "skipped (already inside)"
                else:
                    o["file"], o["held"] = read_store(path), held_ids(path)
                    o["load_ok"] = False
                    s = Session(g, tr)
                    try:
                        await s.entered
                    except BaseException:
                        await asyncio.wait([s.task])
                        raise
                    o["load_ok"], sess = True, s
                    await _settle(g, path)
            elif kind == "exit":
                if sess is None:
                    o["skipped"], o["out"] = True, "skipped (not inside a session)"
                else:
                    s, sess = sess, None
                    await s.end(op[1] if len(op) > 1 else "clean")
                    o["ended"] = s.ended()
                    o["out"] = o["ended"]["exit_out"]
            elif kind == "restart":
                if sess is not None:
                    o["skipped"], o["out"] = True, "skipped (inside a session)"
                else:
                    tr, g = start()
            elif kind == "offline":
                if os.path.isdir(vol):
                    os.rename(vol, off)
            elif kind == "online":
                if os.path.isdir(off):
                    os.rename(off, vol)
            elif kind == "file":
                if isinstance(op[1], dict) and "damage" in op[1]:
                    damage_file(where(), op[1])
                else:
                    write_spec(where(), op[1])
                o["file_after"] = read_store(where())[0]     # what the file is now, as the harness reads it
            elif kind == "load":
                n_other += 1
                p = os.path.join(other, f"nodes-{n_other}.json")
                write_spec(p, op[1])
                o["file"], o["held"] = read_store(p), held_ids(p)
                o["load_ok"] = False
                await g.persistence.load(p)
                o["load_ok"] = True
            elif kind == "reload":
                o["file"], o["held"] = read_store(path), held_ids(path)
                o["load_ok"] = False
                await g.persistence.load()
                o["load_ok"] = True
            elif kind == "save":
                await g.persistence.save()
        except BaseException as e:  # noqa: BLE001
            o["out"] = gw.render_exc(e)
        o.update(before=before, after=list(g.nodes), writes=list(tr.attempts), inside=sess is not None, state=gw.render_state(g))
        obs.append(o)
    # leave nothing running
    if os.path.isdir(off):
        os.rename(off, vol)
    if sess is not None:
        await sess.end("clean")
    return obs


async def _run_lives(lives):
    loop = asyncio.get_running_loop()
    loop.set_default_executor(ThreadPoolExecutor(max_workers=1))
    base = tempfile.mkdtemp(prefix="c11-life-", dir=lib.scratch())
    out = []
    try:
        for k, life in enumerate(lives):
            root = os.path.join(base, str(k))
            os.makedirs(root)
            out.append(await _run_life(life, root))
            shutil.rmtree(root, ignore_errors=True)
    finally:
        shutil.rmtree(base, ignore_errors=True)
    return out


def run_lives(lives):
    return asyncio.run(_run_lives(lives))


# ---- the oracle: the property over the life of the object --------------------------------------


def _describe(life: Life, obs, upto: int) -> list[str]:
    out = []
    for i, (op, o) in enumerate(zip(life.ops[:upto], obs[:upto]), 1):
        what = op[0] if op[0] != "recv" else f"recv {op[1]!r}" + (f" faults={list(op[2])}" if op[2] else "") + (
            " (errors not handled inside the block)" if len(op) > 4 and op[4] else "")
        if op[0] in ("file", "load") or (op[0] == "exit" and len(op) > 1):
            what += f" {json.dumps(op[1])}"
        if "file" in o:
            what += f" [file read: {o['file'][0]}, ids {[e['id'] for e in o['file'][1]]}" + (
                f", well-formed records in it: {sorted(o['held'])}" if o["file"][0] == "bad" and o.get("held") else "") + "]"
        if "file_after" in o:
            what += f" [the file is now: {o['file_after']}]"
        wr = [w[0] for w in o["writes"]]
        end = o.get("ended")
        out.append(f"{i}: {what} -> {o['out']}" + (f" writes={wr}" if wr else "") + (
            f" [session ended: body left by {end['left_by'] or 'its end'}, __aexit__ -> {end['exit_out']}]" if end else "")
            + f" registry={lib.key_sorted(o['after'])}")
    return out


def judge(corr: Corr, life: Life, obs) -> bool:
    """The property restated over one life.  True: held."""
    ever: set = set()        # every id the current gateway object has had registered so far
    handed: list = []        # every id handed out so far that must not be handed out again, in order
    earlier: set = set()     # those of `handed` that an earlier gateway object handed out (known through the file)
    saved: set = set()       # those of `ever` known only through what the library saved in the file
    held: set = set()        # ids of well-formed records of a file that could not be loaded in full, on which a load of
    #                          the current object nevertheless reported success
    on_file = None           # (ids, handed): what the library's own successful writes have put into the persistence
    #                          file and nobody else has replaced since; None: nothing can be said about the file
    spoilt = blocked = False  # that file has been damaged in place since (its content / it cannot be read for the time
    #                           being) and still is what the library wrote, damaged

    def written():
        """The library has written the registry to the file and reported no failure."""
        nonlocal on_file, spoilt, blocked
        on_file, spoilt, blocked = (set(ever), list(handed)), False, False

    for i, (op, o) in enumerate(zip(life.ops, obs)):
        before, after = set(o["before"]), set(o["after"])
        if op[0] == "restart" and not o["skipped"]:
            # a new gateway object: it has had nothing registered and has handed out nothing; what the old one knew
            # lives on in the file only
            ever, handed, earlier, saved, held = set(), [], set(), set(), set()
            continue
        if op[0] == "file":
            # What counts is what the file IS when a session starts on it, not who touched it.  A file that can be loaded
            # in full, an empty file and no file are, as they stand, the persisted registry (C14): when someone else put
            # that there, nothing is promised about what the file held before.  A file damaged in place (cut short, bytes
            # or one record spoilt, unreadable for the time being) is no other registry: it is what an interrupted save of
            # the library itself or a failing medium leaves of the registry the library wrote, and a load that reports
            # success on it is held to what the library wrote there.
            spec = op[1]
            in_place = isinstance(spec, dict) and "damage" in spec
            if in_place and spec["damage"] in ("unreadable", "heal"):
                blocked = o.get("file_after") == "unreadable"                         # (the content is untouched)
            elif in_place and o.get("file_after") not in ("ok", "missing"):
                spoilt = True
            else:
                on_file, spoilt, blocked = None, False, False   # replaced or deleted by someone else (or cut down to nothing)
        ever |= before                                   # present in the registry
        if "file" in o and o.get("load_ok"):
            if o["file"][0] == "ok":
                ever |= {e["id"] for e in o["file"][1]}  # restored from persistence
            else:
                # the load reported success although the file cannot be loaded in full: the records the file does hold
                # are "restored from persistence" all the same
                held |= set(o.get("held", ())) - ever
                ever |= set(o.get("held", ()))
        if op[0] in ("enter", "reload") and o.get("load_ok") and on_file is not None:
            saved |= on_file[0] - ever
            ever |= on_file[0]                           # restored from persistence: what the library saved there
            earlier |= {n for n in on_file[1] if n not in handed}
            handed += [n for n in on_file[1] if n not in handed]
        f = ref_accepts(op[1]) if op[0] == "recv" and not o["skipped"] else None
        if f is not None and f[2] == 0 and f[1] == 255 and o["out"].startswith("ok"):
            ever.add(f[0])                               # presented
        if f is None or not (f[2] == 3 and f[4] == 3):
            ever |= after
            if (op[0] == "save" and o["out"] == "ok") or (o.get("ended") and o["ended"]["exit_ok"]):
                written()
            continue

        damaged = on_file is not None and (spoilt or blocked)

        def case():
            return {"life": life.prefix(i + 1).to_json(), "step": i + 1, "outcome": o["out"],
                    "writes": [list(w) for w in o["writes"]], "registry_keys": lib.key_sorted(before),
                    "handed_out_earlier": list(handed), "ever_registered": lib.key_sorted(ever),
                    "file_damaged_in_place": damaged,
                    "trace": _describe(life, obs, i + 1)}

        resp = [w for w in o["writes"] if w[0].split(";")[2:5] == ["3", "0", "4"]]
        # (registry keys are whatever the real registry holds: keys that are not numbers do not make the registry full)
        full = any(type(x) is int and x >= 254 for x in before)
        failed_query = any(not w[1] for w in o["writes"])   # the version query after the error may itself fail
        if o["out"] == "err tooManyNodes" or (full and o["out"] in ("err transportFailed", "foreign CancelledError") and failed_query):
            if resp or after != before:
                corr.violate("too-many-nodes error but something was written or registered", case())
                return False
            if not full:
                corr.violate("too-many-nodes error while an id above the highest registered id was still free", case())
                return False
            ever |= after
            if o.get("ended") and o["ended"]["exit_ok"]:
                written()
            continue
        if len(resp) != 1:
            corr.violate("an id request did not get exactly one id response", case())
            return False
        parts = resp[0][0].rstrip("\n").split(";")
        try:
            nid = int(parts[5])
        except ValueError:
            corr.violate("the id response does not carry an id", case())
            return False
        if not (1 <= nid <= 254) or nid in before or nid not in after:
            corr.violate("the id handed out is not fresh, not in 1..254, or not registered before the answer", case())
            return False
        since = ("(every session since has ended without a failure reported by the context statement; the file was then "
                 "damaged in place - what an interrupted save or a failing medium leaves, no other registry was put there - "
                 "and a session started on it all the same instead of reporting the read error)" if damaged else
                 "(every session since has ended without a failure reported by the context statement, nobody else touched "
                 "the file)")
        if nid in earlier:
            corr.violate(f"id {nid} was handed out twice: first in an earlier run of the controller on this persistence file "
                         f"{since}, now again after a restart", case())
            return False
        if nid in handed:
            corr.violate(f"id {nid} was handed out twice by the same gateway object", case())
            return False
        if nid in saved:
            corr.violate(f"id {nid} was handed out although it was registered (presented or restored) in an earlier run of the "
                         f"controller on this persistence file {since}", case())
            return False
        if nid in held:
            corr.violate(f"id {nid} was handed out although the persistence file this gateway object loaded holds a well-formed "
                         "node record with that id (the file cannot be loaded in full, yet the load reported success: what it "
                         "holds counts as restored from persistence)", case())
            return False
        if nid in ever:
            corr.violate(f"id {nid} was handed out although this gateway object had it registered before (restored from "
                         "persistence or presented)", case())
            return False
        if parts[0] != str(f[0]) or parts[1] != str(f[1]) or parts[2] != "3":
            corr.violate("the id response is not addressed like the request", case())
            return False
        handed.append(nid)
        ever.add(nid)
        ever |= after
        if o.get("ended") and o["ended"]["exit_ok"]:
            written()
    return True


# ---- the same life as model operations ---------------------------------------------------------


def model_plan(life: Life, obs):
    """(driver lines, per-op plan, number of ops that can be compared).  plan[i] = (number of gnode lines, is_recv)."""
    lines = [f"gnew {enc(life.version) if life.version is not None else '-'} {gw.b(life.metric)}", "gdump"]
    plan = []
    for op, o in zip(life.ops, obs):
        if op[0] == "recv" and not o["skipped"]:
            line, faults, now = op[1:4]
            lines.append(f"grecv {enc(line)} {gw.faults_tok(faults)} " + " ".join(str(x) for x in now))
            lines.append("gdump")
            plan.append((0, True))
            continue
        n = 0
        if op[0] == "restart" and not o["skipped"]:
            lines.append(lines[0])      # a new gateway object
            n = 1
        if "file" in o:
            status, entries = o["file"]
            ok = o.get("load_ok")
            if ok and status in ("ok", "missing"):
                for e in entries:
                    lines.append(f"gnode {e['id']} {e['type']} {enc(e['pv'])} {enc(e['sn'])} {enc(e['sv'])} {e['bat']} {e['hb']} 0 "
                                 f"{gw.b(e['sleeping'])}")
                n = len(entries)
            elif not ok and status in ("missing", "bad", "unreadable") and not entries:
                pass        # nothing could be restored: a file that is not there, cannot be read, or holds nothing valid
            elif not ok and status == "bad":
                # the load raised at the first record that is not well-formed: the records before it are in the registry
                # (the loop stores each record as it goes; the except clause does not undo that)
                for e in entries:
                    lines.append(f"gnode {e['id']} {e['type']} {enc(e['pv'])} {enc(e['sn'])} {enc(e['sv'])} {e['bat']} {e['hb']} 0 "
                                 f"{gw.b(e['sleeping'])}")
                n = len(entries)
            else:
                break       # not expressible: oracle only from here
        lines.append("gdump")
        plan.append((n, False))
    return lines, plan


def _ids_of_state(state: str) -> str:
    from . import gateway as G
    return G.project("ids", "ok W", state)[2]


def compare_model(corr: Corr, lives, all_obs) -> int:
    """Run every life through the Lean driver and compare on the ids view.  Returns the number of compared ops."""
    from . import gateway as G
    lines, plans = [], []
    for life, obs in zip(lives, all_obs):
        l, p = model_plan(life, obs)
        lines.extend(l)
        plans.append((len(l), p))
    outs = lib.run_model(lines)
    pos, compared = 0, 0
    for life, obs, (n_lines, plan) in zip(lives, all_obs, plans):
        mo = outs[pos:pos + n_lines]
        pos += n_lines
        if mo[0] != "ok":
            raise lib.ModelError(f"model rejected a setup operation: {mo[0]}")
        k = 2
        for i, (n_gnode, is_recv) in enumerate(plan):
            o = obs[i]
            if is_recv:
                mout, mstate = mo[k], mo[k + 1]
                k += 2
                a = G.project("ids", o["out"] + gw.render_writes(o["writes"]), o["state"])
                bb = G.project("ids", mout, mstate)
            else:
                bad = [x for x in mo[k:k + n_gnode] if x != "ok"]
                if bad:
                    raise lib.ModelError(f"model rejected a gnode operation: {bad[0]}")
                mstate = mo[k + n_gnode]
                k += n_gnode + 1
                a, bb = (_ids_of_state(o["state"]),), (_ids_of_state(mstate),)
            compared += 1
            if a != bb:
                corr.disagree("ids view over the life of a gateway with a persistence file (a successful load = the file's "
                              "entries set in the registry)",
                              {"life": life.prefix(i + 1).to_json(), "step": i + 1, "view": "ids", "impl": list(a), "model": list(bb),
                               "trace": _describe(life, obs, i + 1)})
                break
    return compared


# ---- generators --------------------------------------------------------------------------------


def req(faults=(), node=255, child=255, uncaught=False):
    return ("recv", f"{node};{child};3;0;3;", tuple(faults), gw.DEFAULT_TIME, *((True,) if uncaught else ()))


def present(n: int):
    return ("recv", f"{n};255;0;0;17;2.0", (), gw.DEFAULT_TIME)


# the ways a file is damaged in place, one of each kind `Persistence.load` tells apart: no text at all, a strict prefix of
# the JSON at every kind of offset (inside the first key, between records, just before the end), bytes that are no UTF-8,
# text that is no JSON, JSON nested too deeply, JSON of the wrong shape, one record that is not a node among records that
# are (each way, in each position), a path that cannot be read (two classes of OSError)
DAMAGES = (
    [{"damage": "cut", "at": a} for a in (1, 0.3, 0.6, -1, 0.85, -2, 0)]
    + [{"damage": "bytes", "at": 0.5}, {"damage": "bytes", "at": 0}]
    + [{"damage": "insert", "at": 0, "what": "text"}, {"damage": "insert", "at": 0.5, "what": "text"},
       {"damage": "insert", "at": 0, "what": "deep"}, {"damage": "wrap"}]
    + [{"damage": "entry", "which": j, "how": h} for j, h in ((0, "id"), (1, "number"), (-1, "extra"), (0, "null"), (1, "missing"),
                                                             (2, "pv"), (1, "list"))]
    + [{"damage": "unreadable", "as": "dir"}, {"damage": "unreadable", "as": "loop"}])


def rand_damage(rng):
    r = rng.random()
    if r < 0.4:
        return {"damage": "cut", "at": rng.choice((0, 1, 2, -1, -2, -3, rng.randint(3, 400), round(rng.random(), 3)))}
    if r < 0.5:
        return {"damage": "bytes", "at": rng.choice((0, -1, round(rng.random(), 3)))}
    if r < 0.6:
        return {"damage": "insert", "at": rng.choice((0, -1, round(rng.random(), 3))), "what": rng.choice(("text", "text", "deep"))}
    if r < 0.65:
        return {"damage": "wrap"}
    if r < 0.88:
        return {"damage": "entry", "which": rng.randint(0, 8), "how": rng.choice(ENTRY_DAMAGE)}
    return {"damage": "unreadable", "as": rng.choice(("dir", "loop"))}


def damage_lives(tier: str, files, mk, k: int) -> int:
    """The persistence file is damaged between (or during) the runs of a controller, in every way a load tells apart; then
    the controller is started again, or the same object is entered again, and ids are requested.  A session that starts
    on such a file must not hand out what earlier runs handed out and saved; a context statement that reports the read
    error hands out nothing (the requests are skipped), after which the file is repaired and the life goes on."""
    thorough = tier == "thorough"
    # (registries whose ids a run that has forgotten them reaches again within a few requests; thorough: the sparse ones too)
    small = [None, [], [0, 1], [3, 1, 2], [0], [2]]
    for j, d in enumerate(DAMAGES):
        repair = [("file", {"damage": "heal"})] if d["damage"] == "unreadable" else []
        for f0 in (small + [f for f in files if f not in small] if thorough else [small[j % len(small)]]):
            back = ("file", list(f0 or []) + [60])
            # the file is damaged after a run of the controller has ended (each way of ending in turn): what a crash in a
            # later save, or the medium, leaves; restart; then the file is repaired (healed, or a backup) and entered again
            mk(k, f0, [("enter",), req(), req(), *([present(40)] if j % 2 else []), ("exit", ENDS[j % len(ENDS)]), ("file", d),
                       ("restart",), ("enter",), req(), req(), req(), req(), *(repair or [back]), ("enter",), req()])
            k += 1
            if thorough or j % 2 == 0:
                # the damage happens during the second run (its scheduled save is interrupted), whose final save fails as
                # well (the volume is away: reported); third run on what is left
                mk(k, f0, [("enter",), req(), ("exit",), ("restart",), ("enter",), req(), ("file", d), ("offline",), ("exit",),
                           ("online",), ("restart",), ("enter",), req(), req(), req(), req(), *(repair or [back]), ("enter",), req()])
                k += 1
            if thorough or j % 2 == 1:
                # the same object is entered again on the damaged file (it still holds its registry), then a restart
                mk(k, f0, [("enter",), req(), req(), ("exit",), ("file", d), ("enter",), req(), ("exit",), *(repair or [back]), ("restart",),
                           ("enter",), req(), req()])
                k += 1
    # someone else puts a file there in which a record that is not a node stands among records that are (in each position)
    for j, (ids, at) in enumerate((([0, 1, 2, 3], 1), ([1, 2, 5], 0), ([0, 1, 2, 3, 4], 2), ([3, 1, 2], 1), ([0, 2], 2))):
        mk(k, files[j % len(files)], [("enter",), req(), ("exit",), ("file", {"half": ids, "at": at}), ("restart",), ("enter",), req(),
                                      req(), req(), ("file", ids), ("enter",), req()])
        k += 1
    return k


def systematic_lives(tier: str):
    """The shapes the property's 'restored from persistence' clause asks for, each over several file contents."""
    lives = []
    files = [None, [], [0, 1], [0, 5, 9], [3, 1, 2], [0, 251, 252]]
    if tier == "thorough":
        files += [[0], [1, 2, 3], [0, 250], list(range(0, 40)), [7], [0, 253], [0, 100, 200], [2, 0, 1], [0, 254], [255]]
    versions = lib.VERSIONS

    def mk(k, file0, ops, unknown=False):
        lives.append(Life(None if unknown else versions[k % 5], True, file0, list(ops)))

    k = 0
    for f0 in files:
        for n_first in ((1, 3) if tier == "thorough" else (2,)):
            first = [req() for _ in range(n_first)]
            # the final save of a session fails (the volume is away at exit); the volume comes back; second session
            mk(k, f0, [("enter",), *first, ("offline",), ("exit",), ("online",), ("enter",), req(), req()])
            k += 1
            # ... with a presentation in the first session as well
            mk(k, f0, [("enter",), *first, present(40), ("offline",), ("exit",), ("online",), ("enter",), req(), req()])
            k += 1
            # the file is replaced between two sessions by what it was before the first (a backup is restored)
            mk(k, f0, [("enter",), *first, ("exit",), ("file", f0), ("enter",), req(), req()])
            k += 1
            # the file is deleted between two sessions
            mk(k, f0, [("enter",), *first, ("exit",), ("file", None), ("enter",), req(), req()])
            k += 1
            # the file is damaged between two sessions: the enter fails, the file is repaired from a backup, enter again
            for bad in ({"bad": "garbage"}, {"half": [0, 1]}):
                mk(k, f0, [("enter",), *first, ("exit",), ("file", bad), ("enter",), ("file", f0), ("enter",), req(), req()])
                k += 1
            # another node file is merged into the running session: empty, older, disjoint, overlapping, superset
            for extra in ([], [0, 1], [30, 31], [1, 2, 3, 4], list(range(0, 12))):
                mk(k, f0, [("enter",), *first, ("load", extra), req(), req(), ("exit",), ("enter",), req()], unknown=k % 7 == 0)
                k += 1
            # the own file is read again in the running session after it was replaced
            mk(k, f0, [("enter",), *first, ("file", f0), ("reload",), req(), req()])
            k += 1
            # three sessions, the second one's final save fails
            mk(k, f0, [("enter",), *first, ("exit",), ("enter",), req(), ("offline",), ("exit",), ("online",), ("enter",), req(), req()])
            k += 1
    # the controller is started again on the same file after a session that ended in each way a context statement can end
    ends = ENDS if tier == "thorough" else None
    for j, f0 in enumerate(files):
        first = [req(), req()]
        mine = ends or [ENDS[(4 * j + d) % len(ENDS)] for d in range(4)]
        for how in mine:
            mk(k, f0, [("enter",), *first, ("exit", how), ("restart",), ("enter",), req(), req()])
            k += 1
        h1, h2, h3 = (ENDS[(3 * j + d) % len(ENDS)] for d in range(3))
        # the error that leaves the block comes from the listen loop while an id request is answered (the write fails, or
        # the task is cancelled there: the id is registered already), or from a line that cannot be handled
        mk(k, f0, [("enter",), req(), req((True,), uncaught=True), ("restart",), ("enter",), req(), req()])
        k += 1
        mk(k, f0, [("enter",), req(), present(40), req((gw.CANCEL,), uncaught=True), ("restart",), ("enter",), req(), req()])
        k += 1
        mk(k, f0, [("enter",), *first, present(40), ("recv", "not a message", (), gw.DEFAULT_TIME, True), ("restart",), ("enter",),
                   req(), req()])
        k += 1
        # three runs of the controller, each ending differently
        mk(k, f0, [("enter",), req(), ("exit", h1), ("restart",), ("enter",), req(), present(41), ("exit", h2), ("restart",),
                   ("enter",), req(), req()])
        k += 1
        # the same object entered again after such an end, then a restart
        mk(k, f0, [("enter",), req(), ("exit", h2), ("enter",), req(), ("exit", h3), ("restart",), ("enter",), req(), req()])
        k += 1
        # the final save fails as well (the volume is away when the session ends): the statement reports it, nothing is
        # promised about the ids of that session; the volume comes back, restart
        mk(k, f0, [("enter",), *first, ("exit", h3), ("restart",), ("enter",), req(), ("offline",), ("exit", h1), ("online",),
                   ("restart",), ("enter",), req(), req()])
        k += 1
        # someone else restores a backup between the runs: nothing is promised either
        mk(k, f0, [("enter",), *first, ("exit", h1), ("file", f0), ("restart",), ("enter",), req(), req()])
        k += 1
    k = damage_lives(tier, files, mk, k)
    # around the upper bound: the ids run out in a later session
    for f0 in ([0, 251], [0, 252], [250], [0, 253]):
        mk(k, f0, [("enter",), req(), req(), ("offline",), ("exit",), ("online",), ("enter",), req(), req(), req()])
        k += 1
        mk(k, f0, [("enter",), req(), ("load", [0, 1]), req(), req(), req(), req()])
        k += 1
    return lives


FILE_SHAPES = [[], [0], [0, 1], [1, 2, 3], [0, 2, 4, 8], [5], [0, 1, 2, 3, 4, 5, 6, 7], [9, 3, 6], [0, 20], [0, 250, 251], [0, 252]]
RARE_SHAPES = [[0, 253], [254], [0, 255], [0, 1, 254]]


def gen_life(rng, version: str) -> Life:
    """A random life.  The generator keeps a rough picture of where things stand (inside a session? volume there?
    file loadable? which ids are probably registered?) only to steer towards lives in which requests follow loads."""
    def shape():
        r = rng.random()
        if r < 0.03:
            return list(rng.choice(RARE_SHAPES))
        if r < 0.45:
            return list(rng.choice(FILE_SHAPES))
        if r < 0.8 and reg:
            pool = sorted(reg)
            return rng.sample(pool, rng.randint(0, len(pool)))     # an older / partial copy of what is registered
        return rng.sample(range(0, 60), rng.randint(0, 6))

    reg: set = set()
    file0 = None if rng.random() < 0.25 else list(rng.choice(FILE_SHAPES))
    life = Life(version if rng.random() < 0.8 else None, rng.random() < 0.8, file0)
    inside, online = False, True
    fstate, fids = ("missing", set()) if file0 is None else ("good", set(file0))
    ops = life.ops

    aside = False           # the file is kept aside (the path cannot be read for the time being)

    def new_file():
        nonlocal fstate, fids, aside
        r = rng.random()
        if aside and r < 0.5:
            ops.append(("file", {"damage": "heal"}))
            fstate, aside = "good", False
            return
        if fstate == "good" and r < 0.22:
            # the file as it stands is damaged in place
            spec = rand_damage(rng)
            ops.append(("file", spec))
            aside = spec["damage"] == "unreadable"
            fstate = "bad"
            if not inside and online and rng.random() < 0.6:
                # the controller is started (or the object entered) on what is left, and ids are requested: the picture
                # here is that of a context statement that reports the read error (the requests are then skipped)
                if rng.random() < 0.6:
                    ops.append(("restart",))
                    reg.clear()
                ops.append(("enter",))
                ops.extend(req() for _ in range(rng.randint(1, 4)))
            return
        aside = False
        r = rng.random()
        if r < 0.12:
            spec = {"bad": rng.choice(["garbage", "list", "entry"])}
            fstate, fids = "bad", set()
        elif r < 0.18:
            spec = {"half": shape()}
            if rng.random() < 0.5:
                spec["at"] = rng.randint(0, len(spec["half"]))
            fstate, fids = "bad", set()
        elif r < 0.3:
            spec = None
            fstate, fids = "missing", set()
        else:
            spec = shape()
            fstate, fids = "good", set(spec)
        ops.append(("file", spec))

    def do_enter():
        nonlocal inside, fstate, fids, reg
        ops.append(("enter",))
        if online and fstate != "bad":
            inside = True
            if fstate == "missing":
                fstate, fids = "good", set(reg)
            reg |= fids

    def ended():
        nonlocal inside, fids, fstate
        inside = False
        if online:
            fstate, fids = "good", set(reg)

    def do_exit():
        ops.append(("exit",) if rng.random() < 0.45 else ("exit", rng.choice(ENDS)))
        ended()

    def do_req():
        faults = (rng.choice((False, True, gw.CANCEL)),) if rng.random() < 0.12 else ()
        uncaught = rng.random() < (0.5 if faults else 0.03)
        r = rng.random()
        ops.append(req(faults, uncaught=uncaught) if r < 0.85 else req(faults, rng.choice((255, 3)), rng.choice((255, 9)), uncaught))
        nxt = max(reg) + 1 if reg else 1
        if nxt <= 254:
            reg.add(nxt)
        elif uncaught:
            ended()
        if uncaught and faults and faults[0]:
            ended()

    for _ in range(rng.randint(6, 26)):
        r = rng.random()
        if not inside:
            if r < 0.55:
                if ops and rng.random() < 0.5:
                    ops.append(("restart",))        # the controller is started again
                    reg = set()
                if not online and rng.random() < 0.8:
                    ops.append(("online",))
                    online = True
                if fstate == "bad" and rng.random() < 0.7:
                    new_file()
                do_enter()
            elif r < 0.8:
                new_file()
            elif r < 0.9:
                ops.append(("online",) if not online else ("offline",))
                online = not online
            else:
                spec = shape()
                ops.append(("load", spec))
                reg |= set(spec)
        else:
            if r < 0.5:
                do_req()
            elif r < 0.62:
                n = rng.randint(1, 14) if rng.random() < 0.85 else rng.choice((0, 0, 30, 100, 100, 200, 200, 250, 253, 254, 255))
                ops.append(present(n))
                reg.add(n)
            elif r < 0.65:
                ops.append(("recv", f"0;255;3;0;2;{rng.choice(lib.VERSIONS)}", (), gw.DEFAULT_TIME))
            elif r < 0.78:
                if online and rng.random() < 0.45:
                    ops.append(("offline",))
                    online = False
                do_exit()
            elif r < 0.86:
                spec = shape() if rng.random() < 0.85 else {"half": shape()}
                ops.append(("load", spec))
                if isinstance(spec, list):
                    reg |= set(spec)
            elif r < 0.91:
                new_file()
            elif r < 0.95:
                ops.append(("reload",))
                if online and fstate == "good":
                    reg |= fids
            elif r < 0.97:
                ops.append(("save",))
            else:
                ops.append(("online",) if not online else ("offline",))
                online = not online
    # always end inside a session with requests after whatever was loaded last
    if not inside:
        if not online:
            ops.append(("online",))
            online = True
        if fstate == "bad":
            ops.append(("file", shape()))
            fstate = "good"
        do_enter()
    for _ in range(rng.randint(1, 3)):
        if not inside:
            do_enter()
        do_req()
    return life


def corpus_lives():
    return [(c, Life.from_json(c["life"])) for c in lib.load_corpus("C11") if "life" in c]


# ---- the scenario as a whole -------------------------------------------------------------------


def run(corr: Corr, ctx) -> None:
    rng = lib.rng_for(ctx.seed, "c11-life")
    lives = [l for _, l in corpus_lives()]
    lives += systematic_lives(ctx.tier)
    for i in range(120 if ctx.tier == "quick" else 2500):
        lives.append(gen_life(rng, lib.VERSIONS[i % 5]))
    all_obs = run_lives(lives)
    for life, obs in zip(lives, all_obs):
        judge(corr, life, obs)
        loaded_less = False          # a load has read a file lacking ids the registry held
        restarted = False            # the current gateway object is not the first one of this life
        for op, o in zip(life.ops, obs):
            corr.count("life-op:" + op[0] + (" (skipped)" if o["skipped"] else ""))
            if op[0] == "restart" and not o["skipped"]:
                restarted, loaded_less = True, False
            if o.get("ended"):
                e = o["ended"]
                corr.count("life-session-end: body left by " + (e["left_by"] or "its end") + ", __aexit__ -> "
                           + (e["exit_out"] if e["exit_ok"] else e["exit_out"].split(":")[-1]))
            if op[0] in ("enter", "exit", "load", "reload", "save") and not o["skipped"]:
                corr.count(f"life-outcome:{op[0]}:" + (o["out"] if o["out"] == "ok" else o["out"].split(":")[-1]))
            if op[0] == "file":
                spec = op[1]
                what = ("damaged in place: " + spec["damage"] + (" " + spec["how"] if "how" in spec else "")
                        if isinstance(spec, dict) and "damage" in spec else
                        "deleted" if spec is None else "replaced by a file that cannot be loaded" if isinstance(spec, dict) else "replaced")
                corr.count(f"life-file {what} -> read as {o.get('file_after')}")
            if op[0] in ("enter", "reload") and "file" in o and o["file"][0] not in ("ok", "missing"):
                corr.count(f"life:{op[0]} on a file that cannot be loaded in full -> "
                           + ("started / returned" if o.get("load_ok") else o["out"].split(":")[0]))
            lacks = False
            if "file" in o and o.get("load_ok"):
                lacks = bool(set(o["before"]) - {e["id"] for e in o["file"][1]})
                if lacks:
                    loaded_less = True
                    corr.count("life:load of a file that lacks registered ids")
            f = ref_accepts(op[1]) if op[0] == "recv" and not o["skipped"] else None
            is_req = f is not None and f[2] == 3 and f[4] == 3
            if is_req and loaded_less:
                corr.count("life:id request after such a load")
            if is_req and restarted:
                corr.count("life:id request after a restart of the controller")
            nt = lacks or (is_req and (loaded_less or restarted)) or bool(o.get("ended") and o["ended"]["left_by"]) or (
                op[0] in ("enter", "reload") and "file" in o and o["file"][0] not in ("ok", "missing"))
            key = ("life", life.version, op[0], str(op[1:3]), tuple(o["before"]), loaded_less, restarted,
                   o["file"][0] if "file" in o else None,
                   json.dumps(o.get("ended"), sort_keys=True))
            corr.case(hash(key), nt, {"life-op": list(op), "registry_before": lib.key_sorted(o["before"]), "outcome": o["out"],
                                      "writes": [w[0] for w in o["writes"]]} if nt and op[0] == "recv" else None)
    corr.count("lives", len(lives))
    if ctx.model_ok:
        n = compare_model(corr, lives, all_obs)
        corr.count("life-ops compared with the model", n)
    corr.notes.append(
        "lives of a controller with a persistence file (sessions - real `async with gateway:` statements in a task - entered "
        "again on the same Gateway object or, after a restart, on a new one; ended normally, by a library error or an exception "
        "of the application leaving the block, by cancellation of the task; final save failing because the volume is "
        "away, file replaced / deleted / damaged between sessions, other node files merged with Persistence.load): sessions, "
        "volumes and files are not operations of the gateway model; the model's state is unaffected by enter/exit, a restart "
        "is a fresh model gateway and a "
        "successful load is sent to the driver as one gnode per entry the harness read from the file, so these lives are "
        "compared on the ids view too; after a load that cannot be expressed that way (valid entries followed by an invalid "
        "one) the rest of the life is judged by the oracle alone")


def replay(case: dict) -> None:
    """Re-execute the life of a replay file on the implementation and print it step by step."""
    life = Life.from_json(case["life"])
    obs = run_lives([life])[0]
    for line in _describe(life, obs, len(life.ops)):
        print("  step", line)
    c = Corr("C11", "replay")
    held = judge(c, life, obs)
    print("oracle:", "held" if held else c.violations[0]["what"])
