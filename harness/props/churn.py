"""C16, fifth group of scenarios: a registry of realistic size that OTHER TASKS change while the context is entered,
lived in and left.

"entering the gateway context loads the file, saves the registry once entered and then at least every 15 minutes;
leaving the context ... at whatever moment relative to the background saver's progress ... writes the final registry to
the file and leaves no background task running" - the registry is the live `gateway.nodes` dict, and while the context
exists other tasks of the application change it: the listener registers a node that presents itself or asks for an id,
the application drops a node, a value arrives.  The other groups use a registry of two nodes that changes only at the
harness's own scheduling points.  Here:

  * the file holds `size` nodes when the context is entered (0, 1, ... up to the 254 a MySensors network can have);
  * the whole event loop runs on virtual time and counts its iterations (`SteppingLoop`); the file layer is the
    in-loop one of the gated scenarios (one suspension per file operation, no threads), so a run is deterministic;
  * a concurrent task (the "churner") waits for an anchor - the context statement begins / the saver wakes for its
    n-th periodic save / the body ends - and then, after k further loop iterations (k in a list: one k, or every k
    from 0 to the length of that phase as measured on this tree = "at every suspension point the library offers"),
    changes the registry: adds a node, removes one, replaces one, changes a value of one, lets `gateway.listen()`
    handle a presentation or an id request of an unknown node;
  * the body stays for at least one full save interval after the last change, then the context is left normally,
    by an exception or by cancellation;
  * judged by the property's oracle (`lifecycle.oracle`: cadence of the saves started, clean exit with the right
    exception, no task left, the file holds the registry as of exit) plus: after the last periodic save that began
    after the last change, the file holds the current registry.  "The registry as of exit" for changes made WHILE the
    context is being left: any state the registry went through between the end of the body and the completion of the
    statement (a snapshot taken during the exit cannot know what another task does afterwards), but a state it really
    was in - a file mixed from two states is not one.
"""

from __future__ import annotations

import asyncio
import json
import time
from unittest import mock

from . import lifecycle as lc
from .lifecycle import BodyBoom, Config, Gateway, Node, NodeSchema, pers_mod

ANCHORS = ("enter", "periodic", "exit")
ACTIONS = ("add", "remove", "replace", "update", "present", "id-request")
EXITS = ("normal", "raise", "cancel")
MAX_ID = 254
ITERATION_CAP = 200_000
# sizes on both sides of round numbers (batch sizes, powers of two) and the protocol's maximum
SIZE_BOX = (0, 1, 2, 7, 8, 9, 15, 16, 17, 24, 25, 26, 31, 32, 33, 49, 50, 51, 60, 63, 64, 65, 99, 100, 101, 127, 128, 129,
            253, 254)
SIZES_QUICK = (0, 1, 24, 25, 26, 60, 254)


class SteppingLoop(lc.VirtualTimeLoop):
    """The virtual-time loop, counting its iterations (one iteration = every task that is ready runs up to its next
    suspension point)."""

    def __init__(self) -> None:
        super().__init__()
        self.iterations = 0

    def _run_once(self) -> None:
        self.iterations += 1
        if self.iterations > ITERATION_CAP:
            raise RuntimeError("the event loop is spinning (iteration cap reached)")
        super()._run_once()


class LoopClock:
    """`.now` of the loop's virtual time, for the file layer's log."""

    def __init__(self, loop) -> None:
        self._loop = loop

    @property
    def now(self):
        t = self._loop.time()
        return int(t) if t == int(t) else t


class ChurnProxy(lc.AsyncioProxy):
    """Stands in for `asyncio` inside aiomysensors.persistence: records the saver task and when it goes to sleep for a
    stretch of time (due time, loop iteration); every sleep is the loop's own (virtual time)."""

    def __init__(self, clock, loop) -> None:
        super().__init__(clock)
        self.loop = loop
        self.due: list = []
        self.sleep_iter: list[int] = []
        self.slept = asyncio.Event()

    def sleep(self, delay, result=None):
        if delay > 0 and asyncio.current_task() in self.created:
            self.due.append(self.loop.time() + delay)
            self.sleep_iter.append(self.loop.iterations)
            self.slept.set()
        return asyncio.sleep(delay, result)


class FeedTransport(lc.FlakyTransport):
    """FlakyTransport whose `read` delivers what the harness puts into `incoming`."""

    def __init__(self, **kw) -> None:
        super().__init__(**kw)
        self.incoming: asyncio.Queue = asyncio.Queue()
        self.writes: list[str] = []

    async def read(self) -> str:
        return await self.incoming.get()

    async def write(self, decoded_message: str) -> None:
        self.writes.append(decoded_message)


def make_node(i: int, tag: str = "") -> Node:
    n = Node(i, 17, ("2.0", "2.1", "2.2", "1.5")[i % 4], sketch_name=f"node {i}{tag}", sketch_version=f"1.{i % 7}",
             battery_level=i % 101)
    if i % 3 == 0:
        n.add_child(1, 3, "relay", {2: str(i % 2)})
    if i % 5 == 0:
        n.add_child(2, 6, "temperature", {0: f"{i / 10}"})
    return n


def file_holds(path: str, canonicals: list):
    """Which of these registries (canonical texts) does the file hold, if any (else None)?  The registry a file holds is what loading it gives
    (`lifecycle.file_canon`); a file that is literally the dump of the registry needs no loading to tell."""
    try:
        with open(path, encoding="utf-8") as f:
            raw = json.loads(f.read())
        for c in canonicals:
            if raw == json.loads(c):
                return c
    except (OSError, ValueError):
        pass
    content = lc.file_canon(path)
    return content if content is not None and content in canonicals else None


def run_churn(path: str, size: int, anchor: str, at: list[int], actions: list[str], exit_how: str = "normal",
              wake: int = 1) -> dict:
    """One context statement on the real Gateway with `size` nodes in the file, the churner changing the registry
    `at` = [k, ...] loop iterations after `anchor` (`actions[j]` at `at[j]`); returns the observation."""
    at = sorted(at)
    plan = dict(zip(at, actions))
    interval = lc._interval()                       # noqa: SLF001
    # virtual seconds in the body: one full interval after the last change, and off the grid of the saves
    periods = (wake + 1) if anchor == "periodic" else 1
    stretch = periods * max(interval, lc.FIFTEEN_MINUTES) + 450

    async def main() -> dict:
        loop = asyncio.get_running_loop()
        schema = NodeSchema()
        nodes0 = {i: make_node(i) for i in range(1, size + 1)}
        with open(path, "w", encoding="utf-8") as f:
            f.write(json.dumps({str(k): schema.dump(n) for k, n in nodes0.items()}, sort_keys=True, indent=2))
        file0 = lc._dumped(lc.canon(nodes0))        # noqa: SLF001
        proxy = ChurnProxy(LoopClock(loop), loop)
        ctl = lc.Controller(proxy._clock, proxy)    # noqa: SLF001
        transport = FeedTransport()
        obs: dict = {"entered": False, "loaded_ok": None, "session": 0}
        marks: dict = {}
        changes: list[dict] = []            # what the churner did, where the saver was then
        touched: set[int] = set()
        states: list = []                   # registry states from the end of the body on
        flags = {"after_body": False, "statement_done": False}
        armed = asyncio.Event()
        body_parked = asyncio.Event()
        listeners: list = []
        churner_error: list = []
        exc: BaseException | None = None

        with mock.patch.object(pers_mod, "aiofiles", lc.FakeFiles(ctl)), mock.patch.object(pers_mod, "asyncio", proxy):
            gateway = Gateway(transport, Config(persistence_file=path))

            def fresh_id():
                for i in list(range(1, MAX_ID + 1)) + [0]:
                    if i not in gateway.nodes and str(i) not in file0:
                        return i
                return None

            async def through_listen(line: str) -> None:
                if not listeners:
                    listeners.append(gateway.listen())
                transport.incoming.put_nowait(line)
                await anext(listeners[0])

            async def act(k: int, action: str) -> None:
                nodes = gateway.nodes
                new = fresh_id()
                did = action
                if action in ("present", "id-request") and (new is None or new == 0 or (action == "id-request" and nodes and max(nodes) >= MAX_ID)):
                    action = did = "add"
                if action in ("remove", "replace", "update") and not nodes:
                    action = did = "add"
                if action in ("add", "replace") and new is None:
                    action = did = "remove"
                where = {"k": k, "action": did, "loop_iteration": loop.iterations - marks.get("anchor_iter", 0), "virtual_time": proxy._clock.now,  # noqa: SLF001
                         "file_operations_so_far": len(ctl.log), "last_file_operation": list(ctl.log[-1][:2]) if ctl.log else None,
                         "registry_size_before": len(nodes)}
                if action == "add":
                    nodes[new] = make_node(new, " (joined)")
                    touched.add(new)
                elif action == "remove":
                    victim = max(nodes) if k % 2 else min(nodes)
                    del nodes[victim]
                    touched.add(victim)
                elif action == "replace":
                    victim = min(nodes) if k % 2 else max(nodes)
                    del nodes[victim]
                    nodes[new] = make_node(new, " (replacement)")
                    touched.update((victim, new))
                elif action == "update":
                    victim = max(nodes) if k % 2 else min(nodes)
                    nodes[victim].battery_level = (nodes[victim].battery_level + 1 + k) % 101
                    nodes[victim].sketch_name = f"node {victim} (changed at k={k})"
                    touched.add(victim)
                elif action == "present":
                    touched.add(new)
                    await through_listen(lc.presentation_line(new))
                elif action == "id-request":
                    touched.add(max(nodes) + 1 if nodes else 1)
                    await through_listen("255;255;3;0;3;")
                changes.append(where)
                if flags["after_body"]:
                    states.append(lc.canon(nodes))

            async def churner() -> None:
                try:
                    await armed.wait()
                    if anchor == "periodic":
                        while len(proxy.due) < wake:
                            proxy.slept.clear()
                            await proxy.slept.wait()
                        fut = loop.create_future()
                        loop.call_at(proxy.due[wake - 1], lambda: fut.done() or fut.set_result(None))
                        await fut
                    marks["anchor_iter"] = loop.iterations
                    marks["anchor_time"] = proxy._clock.now      # noqa: SLF001
                    for k in range((at[-1] + 1) if at else 0):
                        if flags["statement_done"]:
                            break
                        if k in plan:
                            await act(k, plan[k])
                        await asyncio.sleep(0)
                except asyncio.CancelledError:
                    raise
                except Exception as e:  # noqa: BLE001  the harness's own task could not do what it wanted
                    churner_error.append(f"{type(e).__name__}: {e}"[:200])

            def untouched_loaded() -> bool:
                now = lc._dumped(lc.canon(gateway.nodes))       # noqa: SLF001
                return all(now.get(k) == v for k, v in file0.items() if int(k) not in touched)

            async def context() -> None:
                marks["enter_iter"] = loop.iterations
                if anchor != "exit":
                    armed.set()
                try:
                    async with gateway:
                        obs["entered"] = True
                        marks["body_iter"] = loop.iterations
                        obs["loaded_ok"] = untouched_loaded()
                        await asyncio.sleep(stretch)
                        marks["body_end_time"] = loop.time()
                        starts = [t for who, kind, t in ctl.log if who == "saver" and kind == "open:w"]
                        obs["starts_in_body"] = list(starts)
                        last_change = changes[-1]["virtual_time"] if changes else -1
                        if starts and starts[-1] > last_change:
                            obs["file_current_after_last_periodic_save"] = file_holds(path, [lc.canon(gateway.nodes)]) is not None
                        # the body's own change, as in the other groups
                        own = fresh_id()
                        if own is not None:
                            gateway.nodes[own] = make_node(own, " (added in the body)")
                        else:
                            del gateway.nodes[max(gateway.nodes)]
                        states.append(lc.canon(gateway.nodes))
                        flags["after_body"] = True
                        marks["exit_iter"] = loop.iterations
                        if exit_how == "cancel":
                            body_parked.set()
                            await asyncio.Event().wait()     # the task running the context is cancelled here
                        if anchor == "exit":
                            armed.set()
                        if exit_how == "raise":
                            raise BodyBoom("body")
                finally:
                    flags["statement_done"] = True
                    marks["done_iter"] = loop.iterations
                    if not states:
                        states.append(lc.canon(gateway.nodes))

            churn_task = asyncio.ensure_future(churner())
            before = asyncio.all_tasks()
            guard = stretch + 100_000           # virtual seconds: reached only if nothing is runnable any more
            task = asyncio.ensure_future(context())
            try:
                if exit_how == "cancel":
                    parked = asyncio.ensure_future(body_parked.wait())
                    await asyncio.wait([task, parked], timeout=guard, return_when=asyncio.FIRST_COMPLETED)
                    parked.cancel()
                    if not task.done():
                        if not body_parked.is_set():
                            raise TimeoutError
                        if anchor == "exit":
                            armed.set()
                        task.cancel()
                await asyncio.wait([task], timeout=guard)
                if not task.done():
                    raise TimeoutError
                if task.cancelled():
                    raise asyncio.CancelledError
                if task.exception() is not None:
                    raise task.exception()
            except BaseException as e:  # noqa: BLE001
                exc = e
            t_end = loop.time()
            for _ in range(5):
                await asyncio.sleep(0)
            leftovers = [t for t in asyncio.all_tasks() - before if t is not asyncio.current_task() and not t.done()]
            names = sorted({getattr(t.get_coro(), "__qualname__", "?") for t in leftovers})
            saver_state = ["running" if not t.done() else "cancelled" if t.cancelled() else
                           f"finished with {t.exception()!r}"[:200] if t.exception() is not None else "returned" for t in proxy.created]
            held = file_holds(path, states)
            in_window = held is not None
            content = held if in_window else lc.file_canon(path)
            saver_alive = any(not t.done() for t in proxy.created)
            for t in leftovers + [churn_task]:
                t.cancel()
            await asyncio.wait(leftovers + [churn_task], timeout=guard)
            for g in listeners:
                try:
                    await g.aclose()
                except BaseException:  # noqa: BLE001
                    pass
        for h in ctl.handles:
            try:
                h.close()
            except Exception:  # noqa: BLE001
                pass
        starts = [t for who, kind, t in ctl.log if who == "saver" and kind == "open:w"]
        obs.update({
            "outcome": lc.classify(exc), "error": None if exc is None else f"{type(exc).__name__}: {exc}"[:200],
            "disconnect_called": "disconnect" in transport.calls, "connect_called": "connect" in transport.calls,
            "started": bool(proxy.created), "saver_saves": ctl.saver_saves, "final_save_done": ctl.main_saves_done > 0,
            "file": "truncated" if content == "" else "unreadable" if content is None else
                    "holds the registry as of exit" if in_window else "other",
            "file_is_registry_at_exit": in_window,
            "nodes_in_file": None if not content else len(lc._dumped(content)),      # noqa: SLF001
            "nodes_in_registry": len(gateway.nodes),
            "registry_states_during_exit": len(states),
            "starts": starts, "vnow": int(marks.get("body_end_time", t_end)), "ended_at": t_end,
            "leftover_tasks": len(leftovers), "leftover_names": names, "saver_alive": saver_alive,
            "saver_task": saver_state, "changes": changes[:12] + ([{"more": len(changes) - 12}] if len(changes) > 12 else []),
            "changes_made": len(changes), "churner_error": churner_error[:1] or None,
            "calls": list(transport.calls),
        })
        # the length of each phase in loop iterations (used to size the range of k)
        if "anchor_iter" in marks and proxy.sleep_iter:
            after = [i for i in proxy.sleep_iter if i >= marks["anchor_iter"]]
            obs["phase_iterations"] = {
                "enter": max(marks.get("body_iter", 0), proxy.sleep_iter[0]) - marks["enter_iter"],
                "periodic": (after[0] - marks["anchor_iter"]) if after else None,
                "exit": marks["done_iter"] - marks["exit_iter"] if "exit_iter" in marks else None,
            }
        return obs

    return asyncio.run(main(), loop_factory=SteppingLoop)


def faults_of(exit_how: str) -> dict:
    return {"raise": {"body": True}, "cancel": {"cancel": True}}.get(exit_how, {})


def judge(corr, case: dict, obs: dict, exit_how: str) -> bool:
    """The property's oracle on a churn run; True = in order."""
    what = (f"registry of {case['churn']['size']} nodes "
            + ("that nothing but the body changes; the churn anchor would be " if not case['churn']['at'] else "changed by another task ")
            + ("" if not case['churn']['at'] else f"{case['churn']['at']} loop iteration(s) after " if len(case['churn']['at']) <= 3 else
               f"at each of {len(case['churn']['at'])} consecutive loop iterations after ")
            + {"enter": "the context statement began", "periodic": f"the saver woke for periodic save {case['churn'].get('wake', 1)}",
               "exit": "the body ended"}[case["churn"]["anchor"]])
    n0 = len(corr.violations)
    ok = lc.oracle(corr, what, case, obs, faults_of(exit_how), "churn")
    if ok and obs.get("file_current_after_last_periodic_save") is False:
        corr.violate(what + ": a periodic save began after the last change of the registry, and when it was over the file did not "
                     "hold the current registry", {**case, "observed": obs})
        ok = False
    return ok and len(corr.violations) == n0


def case_of(size, anchor, at, actions, exit_how, wake, origin) -> dict:
    return {"churn": {"size": size, "anchor": anchor, "at": list(at), "actions": list(actions), "exit_how": exit_how, "wake": wake},
            "origin": origin,
            "what_happens": f"the file holds {size} node(s); a concurrent task changes gateway.nodes ({', '.join(sorted(set(actions))) or 'nothing'}) "
                            f"k loop iterations after anchor '{anchor}' for k in {list(at)[:8]}{'...' if len(at) > 8 else ''}; the body stays one "
                            f"save interval longer and the context is left: {exit_how}"}


def run_case(path: str, c: dict) -> dict:
    return run_churn(path, c["size"], c["anchor"], list(c["at"]), list(c["actions"]), c.get("exit_how", "normal"), c.get("wake", 1))


def churn_group(corr, ctx, rng, path: str) -> None:
    """Generates, runs and judges the churn scenarios; called from lifecycle.run_c16."""
    quick = ctx.tier == "quick"
    t0 = time.monotonic()
    sizes = list(SIZES_QUICK)
    if quick:
        sizes.append(rng.choice([s for s in SIZE_BOX if s not in sizes]))
    else:
        sizes = sorted(set(SIZE_BOX) | {rng.randint(2, MAX_ID) for _ in range(4)})
    hangs = 0
    found: list[dict] = []          # violations of this group; the ones with the fewest changes are reported first
    plans: list[tuple] = []         # (size, anchor, at, actions, exit_how, wake, origin)
    for c in lc.lib.load_corpus("C16"):
        if "churn" in c:
            x = c["churn"]
            plans.append((x["size"], x["anchor"], x["at"], x["actions"], x.get("exit_how", "normal"), x.get("wake", 1), "corpus:" + c["_file"]))

    def execute(size, anchor, at, actions, exit_how, wake, origin, count=True):
        nonlocal hangs
        case = case_of(size, anchor, at, actions, exit_how, wake, origin)
        try:
            obs = run_churn(path, size, anchor, list(at), list(actions), exit_how, wake)
        except BaseException as e:  # noqa: BLE001
            corr.violate(f"churn scenario crashed: {type(e).__name__}: {e}"[:300], case)
            return None, False
        if obs["churner_error"]:
            corr.notes.append(f"churn scenario not judged, the concurrent task could not make its change: {obs['churner_error'][0]} ({case['what_happens']})"[:300])
            corr.count("churn:not-judged")
            return obs, True
        hangs += obs["outcome"] == "hang"
        return obs, None

    for size, anchor, at, actions, exit_how, wake, origin in plans:
        obs, settled = execute(size, anchor, at, actions, exit_how, wake, origin)
        if obs is None or settled:
            continue
        scratch_corr = lc.Corr("C16", "")
        judge(scratch_corr, case_of(size, anchor, at, actions, exit_how, wake, origin), obs, exit_how)
        found.extend(scratch_corr.violations)
        corr.count("churn:corpus")
        corr.case(("churn-corpus", origin), True, None)
    for turn, size in enumerate(sizes):
        if hangs >= 3:
            corr.count("churn:skipped-after-repeated-hangs")
            break
        # the undisturbed run: judged, and it tells how many loop iterations each phase takes on this tree
        obs, settled = execute(size, "periodic", [], [], "normal", 1, "churn-undisturbed")
        if obs is None:
            continue
        case = case_of(size, "periodic", [], [], "normal", 1, "churn-undisturbed")
        ok = judge(corr, case, obs, "normal")
        corr.count("churn:size:" + str(size))
        corr.case(("churn", size, "undisturbed"), size > 2, {"size": size, "undisturbed": True, "phases": obs.get("phase_iterations"), "ok": ok})
        phases = obs.get("phase_iterations") or {}
        for a, anchor in enumerate(ANCHORS):
            n = (phases.get(anchor) or 8) + 2          # every iteration of the phase, and a little beyond
            ks = list(range(n + 1))
            todo = []
            if quick:
                off = rng.randrange(len(ACTIONS))
                todo.append((ks, [ACTIONS[(off + k) % len(ACTIONS)] for k in ks], EXITS[(turn + a) % 3] if anchor == "exit" else "normal",
                             1, "churn-every-iteration"))
                for k in rng.sample(ks, 2 if size <= 100 else 1):      # the large registries cost the most
                    todo.append(([k], [rng.choice(ACTIONS)], rng.choice(EXITS) if rng.random() < 0.4 else "normal",
                                 1 if rng.random() < 0.75 else 2, "churn-one-change"))
            else:
                for off in range(2):
                    todo.append((ks, [ACTIONS[(off * 3 + k) % len(ACTIONS)] for k in ks], EXITS[(turn + a + off) % 3], 1 + off % 2,
                                 "churn-every-iteration"))
                for k in ks:
                    for j, action in enumerate(ACTIONS):
                        todo.append(([k], [action], EXITS[(k + j) % 3] if anchor == "exit" or (k + j) % 4 == 0 else "normal",
                                     2 if anchor == "periodic" and (k + j) % 3 == 0 else 1, "churn-one-change"))
                for _ in range(6):
                    some = sorted(rng.sample(ks, min(len(ks), rng.randint(2, 4))))
                    todo.append((some, [rng.choice(ACTIONS) for _ in some], rng.choice(EXITS), rng.choice((1, 2)), "churn-some-changes"))
            for at, actions, exit_how, wake, origin in todo:
                if hangs >= 3:
                    break
                if anchor != "periodic":
                    wake = 1
                obs, settled = execute(size, anchor, at, actions, exit_how, wake, origin)
                if obs is None or settled:
                    continue
                case = case_of(size, anchor, at, actions, exit_how, wake, origin)
                scratch_corr = lc.Corr("C16", "")
                if judge(scratch_corr, case, obs, exit_how):
                    ok = True
                else:
                    ok = False
                    shrunk = shrink(path, size, anchor, at, actions, exit_how, wake, origin) if len(at) > 1 else None
                    found.extend((shrunk or scratch_corr).violations)
                corr.count("churn:anchor:" + anchor)
                corr.count("churn:" + origin)
                corr.count("churn:exit:" + exit_how)
                corr.count("churn:outcome:" + obs["outcome"])
                corr.count("churn:changes-made", obs["changes_made"])
                for ch in obs["changes"]:
                    if "action" in ch:
                        corr.count("churn:action:" + ch["action"])
                corr.case(("churn", size, anchor, tuple(at), tuple(actions), exit_how, wake), obs["changes_made"] > 0,
                          {"size": size, "anchor": anchor, "k": list(at)[:6], "actions": list(actions)[:6], "exit": exit_how,
                           "outcome": obs["outcome"], "file": obs["file"], "saves_started": len(obs["starts"]), "ok": ok})
    found.sort(key=lambda v: len(v["churn"]["at"]))
    for v in found:
        if len(corr.violations) < 50:
            corr.violations.append(v)
    corr.count("churn:wall-ms", int(1000 * (time.monotonic() - t0)))
    corr.notes.append("churn scenarios (a concurrent task changes a registry of 0..254 nodes k loop iterations after the statement began / "
                      "the saver woke / the body ended): judged by the oracle alone.  On the model's side the same class is the choice "
                      "`ChoiceC.churn` (a registry change in ANY state): `churn_exit_clean`, `churn_final_save_window` and "
                      "`churn_saver_survives` (Properties/C16.lean) hold for all schedules because a save snapshots the registry in one "
                      "atomic block; loop iterations are not mapped to model steps (the model's `load` is one step, the code's is three "
                      "suspensions), so there is no run-by-run comparison with the driver for this group")


def shrink(path: str, size: int, anchor: str, at, actions, exit_how: str, wake: int, origin: str):
    """A run with many changes failed: look for one change that fails by itself, else drop changes one at a time as long
    as the run still fails.  Returns the Corr holding the violation of the smallest failing run found (None: none smaller)."""
    origin = origin + " (shrunk from a run that changed the registry at every iteration)"
    budget = [60]

    def fails(pairs):
        if budget[0] <= 0:
            return None
        budget[0] -= 1
        ks, acts = [p[0] for p in pairs], [p[1] for p in pairs]
        try:
            obs = run_churn(path, size, anchor, ks, acts, exit_how, wake)
        except BaseException:  # noqa: BLE001
            return None
        if obs["churner_error"]:
            return None
        c = lc.Corr("C16", "")
        return None if judge(c, case_of(size, anchor, ks, acts, exit_how, wake, origin), obs, exit_how) else c

    pairs = list(zip(at, actions))
    for p in pairs:
        c = fails([p])
        if c is not None:
            return c
    best = None
    i = 0
    while i < len(pairs) and len(pairs) > 1:
        rest = pairs[:i] + pairs[i + 1:]
        c = fails(rest)
        if c is not None:
            pairs, best = rest, c
        else:
            i += 1
    return best


def replay(case: dict) -> int:
    """Re-executes a churn case on the implementation and prints what the oracle says."""
    import os
    c = case["churn"]
    path = os.path.join(lc.lib.scratch(), "c16-churn-replay.json")
    print("what happens:", case.get("what_happens"))
    obs = run_case(path, c)
    for k in ("outcome", "error", "entered", "loaded_ok", "starts", "vnow", "final_save_done", "file", "nodes_in_file",
              "nodes_in_registry", "leftover_tasks", "saver_task", "changes", "churner_error"):
        print(f"  {k}: {obs.get(k)!r}")
    corr = lc.Corr("C16", "")
    ok = judge(corr, {k: v for k, v in case.items() if k in ("churn", "origin", "what_happens")}, obs, c.get("exit_how", "normal"))
    for v in corr.violations:
        print("VIOLATED:", v["what"])
    print("reproduced" if not ok else "not reproduced: the oracle holds on this tree")
    return 0
