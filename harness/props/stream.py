"""C17: the stream transports.  Implementation vs Lean model (DriverStream.lean) vs an independent restatement.

The real ``StreamTransport.connect/read/write/disconnect`` (reached through three flavours: a direct
subclass, ``TCPTransport`` and ``SerialTransport`` with their ``open_*connection`` functions replaced by
fakes) run on a real ``asyncio.StreamReader(limit=L)`` that the harness feeds chunk by chunk, and on a
recording writer with scripted faults.  A case is a list of operations in the driver's line protocol.
Two further groups: several calls in flight on one connection (`run_concurrent`), and connection attempts that
take (virtual) time before they succeed, fail or are given up by the caller (`run_slow_connect`).
"""

from __future__ import annotations

import asyncio
import errno
import hashlib
import os
import re
import socket
import ssl

from .. import lib
from ..lib import Corr, enc

lib.use_repo()

import serial  # noqa: E402

from aiomysensors import exceptions as exc_mod  # noqa: E402
from aiomysensors import transport as tr_mod  # noqa: E402
from aiomysensors.transport import StreamTransport  # noqa: E402
from aiomysensors.transport import serial as serial_mod  # noqa: E402
from aiomysensors.transport import tcp as tcp_mod  # noqa: E402
from aiomysensors.transport.serial import SerialTransport  # noqa: E402
from aiomysensors.transport.tcp import TCPTransport  # noqa: E402

DRIVER = "DriverStream.lean"

# the model's exception vocabulary (Model/Vocab.lean: PyExn)
VOCAB = {"KeyError", "ValueError", "TypeError", "AttributeError", "OverflowError", "RecursionError",
         "UnicodeDecodeError", "OSError", "FileNotFoundError", "LimitOverrunError", "IncompleteReadError",
         "CancelledError", "RuntimeError", "Exception"}

# injected exception classes: the OSError family ("I/O errors") and two that are not
FAULTS = {
    "OSError": OSError, "ConnectionResetError": ConnectionResetError, "BrokenPipeError": BrokenPipeError,
    "TimeoutError": TimeoutError, "FileNotFoundError": FileNotFoundError, "gaierror": socket.gaierror,
    "SerialException": serial.SerialException, "ConnectionRefusedError": ConnectionRefusedError,
    "ValueError": ValueError, "RuntimeError": RuntimeError,
}
IO_FAULTS = [k for k, v in FAULTS.items() if issubclass(v, OSError)]
OTHER_FAULTS = [k for k, v in FAULTS.items() if not issubclass(v, OSError)]


def vocab_name(cls: type) -> str:
    """The nearest ancestor of an exception class that the model knows by name."""
    for k in cls.__mro__:
        if k.__name__ in VOCAB:
            return k.__name__
    return cls.__name__


def hexb(b: bytes) -> str:
    return ",".join(format(x, "x") for x in b) if b else "-"


# ---- fakes -------------------------------------------------------------------------------------


class StandInSocket:
    """What `get_extra_info("socket")` of a stand-in writer gives: the surface of asyncio's TransportSocket over a REAL
    TCP socket of this machine that is simply not connected (created when first touched, closed with the writer), so that
    socket options a library sets or reads at connect time (TCP_NODELAY, SO_KEEPALIVE, buffer sizes, SO_LINGER ...) are
    accepted, refused and reported back by the OS exactly as on a live connection.  The bytes of the stand-in stream do
    not travel through it - what socket options do to delivery is judged over real connections (`run_delivery`)."""

    def __init__(self, peername: tuple, sockname: tuple) -> None:
        self._peername, self._sockname = peername, sockname
        self._sock: socket.socket | None = None
        self._closed = False
        self.options: list[tuple] = []        # every setsockopt, in call order (evidence only)

    def _real(self) -> socket.socket:
        if self._sock is None:
            self._sock = socket.socket(socket.AF_INET, socket.SOCK_STREAM)
            self._sock.setblocking(False)
            if self._closed:
                self._sock.close()
        return self._sock

    family = property(lambda self: socket.AF_INET)
    type = property(lambda self: socket.SOCK_STREAM)
    proto = property(lambda self: 0)

    def fileno(self) -> int:
        return self._real().fileno()

    def dup(self):
        return self._real().dup()

    def get_inheritable(self) -> bool:
        return self._real().get_inheritable()

    def setsockopt(self, *args) -> None:
        self._real().setsockopt(*args)
        self.options.append(args)

    def getsockopt(self, *args):
        return self._real().getsockopt(*args)

    def getpeername(self):
        return self._peername

    def getsockname(self):
        return self._sockname

    def getsockbyname(self):
        return self._sockname

    def gettimeout(self) -> float:
        return 0.0

    def settimeout(self, value) -> None:
        if value != 0:
            raise ValueError("settimeout(): only 0 timeout is allowed on transport sockets")

    def setblocking(self, flag) -> None:
        if flag:
            raise ValueError("setblocking(): transport sockets cannot be blocking")

    def close_real(self) -> None:
        self._closed = True
        if self._sock is not None:
            self._sock.close()

    def __del__(self) -> None:
        try:
            self.close_real()
        except Exception:  # noqa: BLE001
            pass


class StandInTransport:
    """`writer.transport` of a stand-in writer: the asyncio.WriteTransport surface, delegating to the writer."""

    def __init__(self, writer) -> None:
        self._writer = writer
        self._limits = (16 * 1024, 64 * 1024)
        self._protocol = None

    def get_extra_info(self, name, default=None):
        return self._writer.get_extra_info(name, default)

    def is_closing(self) -> bool:
        return self._writer.is_closing()

    def close(self) -> None:
        self._writer.close()

    def abort(self) -> None:
        self._writer.close()

    def write(self, data) -> None:
        self._writer.write(data)

    def writelines(self, lines) -> None:
        self._writer.write(b"".join(lines))

    def can_write_eof(self) -> bool:
        return self._writer.can_write_eof()

    def write_eof(self) -> None:
        self._writer.write_eof()

    def get_write_buffer_size(self) -> int:
        return 0

    def get_write_buffer_limits(self) -> tuple:
        return self._limits

    def set_write_buffer_limits(self, high=None, low=None) -> None:
        if high is None:
            high = 64 * 1024 if low is None else 4 * low
        if low is None:
            low = high // 4
        if not high >= low >= 0:
            raise ValueError(f"high ({high!r}) must be >= low ({low!r}) must be >= 0")
        self._limits = (low, high)

    def get_protocol(self):
        return self._protocol

    def set_protocol(self, protocol) -> None:
        self._protocol = protocol

    def is_reading(self) -> bool:
        return not self._writer.is_closing()

    def pause_reading(self) -> None:
        pass

    def resume_reading(self) -> None:
        pass


class WriterShape:
    """The part of asyncio.StreamWriter's surface that is not write/drain/close/wait_closed, for every stand-in writer of
    the harness (this module's and harness/props/bytepipe.py's): a library may look at the connection it just opened -
    `writer.get_extra_info("socket")` / `("peername")` / `("serial")`, `writer.transport`, `writer.is_closing()` - and
    must meet what a live connection would show, not a harness that falls over.  `kind` is "tcp" (a socket, as a TCP
    connection or a socket pair has) or "serial" (pyserial-asyncio: a `serial` object, no socket)."""

    kind = "tcp"
    peer = ("127.0.0.1", 5003)
    _stand_in_socket = None
    _stand_in_serial = None
    _stand_in_transport = None
    eof_written = False

    def get_extra_info(self, name, default=None):
        if self.kind == "serial":
            if name != "serial":
                return default
            if self._stand_in_serial is None:
                self._stand_in_serial = stand_in_serial()
            return self._stand_in_serial if self._stand_in_serial is not None else default
        if name == "socket":
            if self._stand_in_socket is None:
                self._stand_in_socket = StandInSocket(self.peer, ("127.0.0.1", 49152))
                if getattr(self, "closed", False):
                    self._stand_in_socket.close_real()
            return self._stand_in_socket
        if name == "peername":
            return self.peer
        if name == "sockname":
            return ("127.0.0.1", 49152)
        return default

    @property
    def transport(self):
        if self._stand_in_transport is None:
            self._stand_in_transport = StandInTransport(self)
        return self._stand_in_transport

    def is_closing(self) -> bool:
        return bool(getattr(self, "closing", False) or getattr(self, "closed", False))

    def can_write_eof(self) -> bool:
        return self.kind == "tcp"

    def write_eof(self) -> None:
        self.eof_written = True

    def writelines(self, lines) -> None:
        self.write(b"".join(lines))

    def release_stand_ins(self) -> None:
        """The connection is closed: so are the OS objects behind the stand-ins."""
        if self._stand_in_socket is not None:
            self._stand_in_socket.close_real()
        if self._stand_in_serial is not None:
            try:
                self._stand_in_serial.close()
            except Exception:  # noqa: BLE001
                pass


def stand_in_serial():
    """A real pyserial object on a pseudo terminal of this machine (None where there are none): what
    `get_extra_info("serial")` of a pyserial-asyncio transport gives."""
    try:
        master, slave = os.openpty()
    except OSError:
        return None
    try:
        port = serial.Serial(os.ttyname(slave), 57600, timeout=0)
    except Exception:  # noqa: BLE001
        os.close(master)
        os.close(slave)
        return None
    os.close(slave)
    real_close = port.close

    def close() -> None:
        real_close()
        nonlocal master
        if master is not None:
            os.close(master)
            master = None
    port.close = close
    return port


class FakeWriter(WriterShape):
    """Stands in for asyncio.StreamWriter: records the bytes, raises the scripted fault once."""

    def __init__(self) -> None:
        self.data = bytearray()
        self.closed = False
        self.fault: tuple[str, BaseException] | None = None   # (method name, exception) for the next call
        self.calls: list[str] = []

    def _maybe(self, where: str) -> None:
        self.calls.append(where)
        if self.fault is not None and self.fault[0] == where:
            exc = self.fault[1]
            self.fault = None
            raise exc

    def write(self, data: bytes) -> None:
        self._maybe("write")
        if not isinstance(data, (bytes, bytearray)):
            raise TypeError("write() needs bytes")
        self.data += data

    async def drain(self) -> None:
        self._maybe("drain")

    def close(self) -> None:
        self._maybe("close")
        self.closed = True
        self.release_stand_ins()

    async def wait_closed(self) -> None:
        self._maybe("wait_closed")


class Opening:
    """What the next `_open_connection` does; shared by the three flavours' fakes."""

    limit = 64
    fault: BaseException | None = None
    last_kwargs: dict | None = None
    last_pair = None
    make_writer = None      # reader -> writer; None = a plain FakeWriter
    script = None           # a SlowOpen: every attempt to open takes (virtual) time; None = answers at once



async def fake_open(**kwargs):
    Opening.last_kwargs = kwargs
    if Opening.script is not None:
        return await Opening.script.attempt(kwargs)
    if Opening.fault is not None:
        exc, Opening.fault = Opening.fault, None
        raise exc
    reader = asyncio.StreamReader(limit=Opening.limit)
    pair = (reader, shaped(FakeWriter() if Opening.make_writer is None else Opening.make_writer(reader), kwargs))
    Opening.last_pair = pair
    return pair


def shaped(writer, kwargs: dict):
    """The stand-in writer shows the kind of connection that was asked for (see WriterShape)."""
    if "url" in kwargs:
        writer.kind = "serial"
    elif "port" in kwargs:
        writer.peer = ("127.0.0.1", kwargs["port"])
    return writer


class GatedWriter(FakeWriter):
    """A writer with flow control, shaped after asyncio.StreamWriter over a socket transport (CPython 3.12
    streams.py / selector_events.py): `write` hands the bytes to the stream at once (they reach the peer in
    that order); `drain` returns at once unless the stream is *blocked* (the peer is not reading and the send
    buffer is over the high-water mark), in which case it waits until the harness releases the stream or the
    connection is lost; `close` on a blocked stream closes only when the buffered bytes are flushed (released),
    and `wait_closed` waits for that; after the connection is lost `write` drops the bytes silently and `drain`
    raises ConnectionResetError; a loss with an exception wakes everything that waits with that exception and
    sets it on the reader, a clean loss feeds EOF to the reader.  The harness, not the implementation, holds the
    handles, so every step is a deterministic event-loop schedule (no sockets, no clocks)."""

    def __init__(self, reader: asyncio.StreamReader) -> None:
        super().__init__()
        self.reader = reader
        self.blocked = False
        self.closing = False
        self.lost = False
        self.lost_exc: BaseException | None = None
        self.drain_waiters: list[asyncio.Future] = []
        self.close_waiters: list[asyncio.Future] = []

    # -- what the implementation calls
    def write(self, data: bytes) -> None:
        self.calls.append("write")
        if not isinstance(data, (bytes, bytearray)):
            raise TypeError("write() needs bytes")
        if self.lost:
            return                                    # selector transports drop writes after connection_lost
        self.data += data

    async def drain(self) -> None:
        self.calls.append("drain")
        exc = self.reader.exception()
        if exc is not None:
            raise exc
        if self.closing:
            await asyncio.sleep(0)
        if self.lost:
            raise ConnectionResetError("Connection lost")
        if not self.blocked:
            return
        await self._wait(self.drain_waiters)

    def close(self) -> None:
        self.calls.append("close")
        self.closed = True
        self.release_stand_ins()
        if self.closing:
            return
        self.closing = True
        if not self.blocked:
            self.lose(None)

    async def wait_closed(self) -> None:
        self.calls.append("wait_closed")
        if not self.lost:
            await self._wait(self.close_waiters)
        elif self.lost_exc is not None:
            raise self.lost_exc

    async def _wait(self, queue: list) -> None:
        fut = asyncio.get_running_loop().create_future()
        queue.append(fut)
        try:
            await fut
        finally:
            if fut in queue:
                queue.remove(fut)

    # -- what the harness does to the stream
    def block(self) -> None:
        self.blocked = True

    def release(self) -> None:
        """The peer reads: the buffer empties, waiting drains return, a pending close completes."""
        self.blocked = False
        for fut in list(self.drain_waiters):
            if not fut.done():
                fut.set_result(None)
        if self.closing:
            self.lose(None)

    def lose(self, exc: BaseException | None) -> None:
        """connection_lost(exc)."""
        if self.lost:
            return
        self.lost, self.lost_exc = True, exc
        if exc is None:
            self.reader.feed_eof()
        else:
            self.reader.set_exception(exc)
        for fut in [*self.drain_waiters, *self.close_waiters]:
            if not fut.done():
                if exc is None:
                    fut.set_result(None)
                else:
                    fut.set_exception(exc)


def make_transport(flavour: int):
    if flavour == 0:
        # the base class driven directly through its abstract hook, while that hook has the shape the harness knows;
        # otherwise a second TCP transport (the hook is private; `lib.direct_stream_transport`)
        direct = lib.direct_stream_transport(lambda: fake_open(direct=True))
        if direct is not None:
            return direct, {"direct": True}
        return TCPTransport("direct.example", 5003), {"host": "direct.example", "port": 5003}
    if flavour == 1:
        return TCPTransport("gw.example", 5003 + flavour), {"host": "gw.example", "port": 5004}
    return SerialTransport("/dev/ttyFAKE", 57600), {"url": "/dev/ttyFAKE", "baudrate": 57600}


# ---- the property, restated -------------------------------------------------------------------


def available(data: bytes, eof: bool, limit: int):
    """C17's words: the results the reads must give for the bytes that arrived so far.

    Returns (results, forever): `results` = one entry per newline-terminated line, in order, decoded as
    UTF-8 or "err"; `forever` = every further read is a transport error (an over-long line, or the
    stream has ended); otherwise a further read has to wait for more data.
    """
    parts = data.split(b"\n")
    complete, tail = parts[:-1], parts[-1]
    out = []
    for body in complete:
        if len(body) > limit:
            return out, True
        try:
            out.append(("line", (body + b"\n").decode("utf-8", "strict")))
        except UnicodeDecodeError:
            out.append(("err",))
    if len(tail) > limit or eof:
        return out, True
    return out, False


def classify(exc: BaseException) -> str:
    if type(exc) is exc_mod.TransportReadError:
        return "err transportRead"
    if type(exc) is exc_mod.TransportFailedError:
        return "err transportFailed"
    if type(exc) is exc_mod.TransportError:
        return "err transportError"
    if isinstance(exc, exc_mod.TransportError):
        return f"err other:{type(exc).__name__}"
    return f"foreign {vocab_name(type(exc))}"


def is_transport_error(obs: str) -> bool:
    return obs.startswith("err ")


# ---- executing one case on the implementation ---------------------------------------------------

YIELDS = 3


class HangGuard:
    """The fakes never make a call wait unless the harness says so; a call of the implementation that still
    does not finish is reported, not waited for for ever.  Real time is only spent when something hangs."""

    seconds = 0.5
    hangs = 0

    @classmethod
    def hung(cls) -> None:
        cls.hangs += 1
        if cls.hangs >= 10:
            cls.seconds = 0.02       # enough evidence; keep the run short

    @classmethod
    async def call(cls, coro) -> str:
        """Await connect()/write()/disconnect() in the calling task (the schedule is the one of a plain await)."""
        try:
            async with asyncio.timeout(cls.seconds) as cm:
                r = await coro
            return "ok" if r is None else f"returned {r!r}"
        except Exception as e:  # noqa: BLE001
            if isinstance(e, TimeoutError) and cm.expired():
                cls.hung()
                return "hang"
            return classify(e)


class Runner:
    """Executes operation lists on the real transport and evaluates the oracle while doing so."""

    def __init__(self, corr: Corr) -> None:
        self.corr = corr

    async def run_case(self, ops: list[tuple], flavour: int, info: dict) -> tuple[list[tuple], list[str]]:
        """Returns the operations as executed and their observations.  While a read is waiting, every
        arrival (feed/eof/fail) is followed by an automatic `read` (the waiting coroutine is resumed by the
        arrival, exactly as in the model's schedules), so that the op-by-op protocol stays sequential."""
        corr = self.corr
        t = None
        expected_kwargs: dict = {}
        pending: asyncio.Task | None = None
        obs: list[str] = []
        # oracle state of the current connection
        st = {"connected": False, "data": b"", "eof": False, "limit": 0, "done": 0, "failed": None,
              "accepted": b"", "writer": None, "reader": None}

        def bad(what: str, **kw) -> None:
            corr.violate(what, {**info, "flavour": ["direct", "tcp", "serial"][flavour], "op_index": len(obs) - 1, **kw})

        async def settle(task: asyncio.Task) -> None:
            for _ in range(YIELDS):
                if task.done():
                    return
                await asyncio.sleep(0)

        async def drop_pending() -> None:
            nonlocal pending
            if pending is not None:
                pending.cancel()
                try:
                    await pending
                except BaseException:  # noqa: BLE001  CancelledError or the read's own outcome
                    pass
                pending = None

        todo = list(ops)
        done_ops: list[tuple] = []
        i = 0
        while i < len(todo):
            op = todo[i]
            i += 1
            done_ops.append(op)
            kind = op[0]
            if kind in ("feed", "eof", "fail") and pending is not None and st["connected"]:
                todo.insert(i, ("read",))
            if kind in ("tnew", "snew", "conn"):
                await drop_pending()
                if kind != "conn":
                    t, expected_kwargs = make_transport(flavour)
                    st.update(connected=False, data=b"", eof=False, done=0, failed=None, accepted=b"", writer=None, reader=None)
                if kind == "tnew":
                    obs.append("ok")
                    continue
                limit = op[1]
                fname = op[2] if kind == "conn" else None
                Opening.limit = limit
                Opening.fault = FAULTS[fname]("injected") if fname else None
                Opening.last_kwargs = None
                Opening.last_pair = None
                o = await HangGuard.call(t.connect())
                obs.append(o)
                if o == "hang":
                    bad("connect neither returned nor raised although the open function does not wait")
                    break
                if Opening.last_kwargs != expected_kwargs:
                    bad("_open_connection did not pass the configured address through",
                        got=repr(Opening.last_kwargs), want=repr(expected_kwargs))
                if fname is None:
                    if o != "ok":
                        bad("connect failed without a fault", got=o)
                    if Opening.last_pair is None:      # no connection was opened: nothing the case could go on with
                        if o == "ok":
                            bad("connect returned normally without calling the open function", got=o)
                        break
                    st.update(connected=True, data=b"", eof=False, limit=limit, done=0, failed=None, accepted=b"",
                              writer=Opening.last_pair[1], reader=Opening.last_pair[0])
                    if getattr(t, "reader", None) is not Opening.last_pair[0] or getattr(t, "writer", None) is not Opening.last_pair[1]:
                        bad("connect did not install the opened reader/writer")
                elif fname in IO_FAULTS and not is_transport_error(o):
                    bad("a failed connection attempt did not surface as a transport error", fault=fname, got=o)
            elif kind == "feed":
                if not st["connected"]:
                    obs.append("noconn")
                    continue
                st["reader"].feed_data(op[1])
                st["data"] += op[1]
                obs.append("ok")
            elif kind == "eof":
                if not st["connected"]:
                    obs.append("noconn")
                    continue
                st["reader"].feed_eof()
                st["eof"] = True
                obs.append("ok")
            elif kind == "fail":
                if not st["connected"]:
                    obs.append("noconn")
                    continue
                st["reader"].set_exception(FAULTS[op[1]]("injected"))
                st["failed"] = op[1]
                obs.append("ok")
            elif kind == "read":
                if pending is None:
                    pending = asyncio.ensure_future(t.read())
                await settle(pending)
                if not pending.done():
                    o = "wait"
                else:
                    task, pending = pending, None
                    try:
                        r = task.result()
                        o = "line " + enc(r) if type(r) is str else f"returned {type(r).__name__}"
                    except Exception as e:  # noqa: BLE001
                        o = classify(e)
                obs.append(o)
                # ---- oracle
                if o.startswith("foreign") and not (st["failed"] in OTHER_FAULTS):
                    bad("read raised something that is not a transport error", got=o)
                elif not st["connected"]:
                    if not is_transport_error(o):
                        bad("read before connect did not raise a transport error", got=o)
                elif st["failed"] is not None:
                    if st["failed"] in IO_FAULTS and not is_transport_error(o):
                        bad("an I/O error on the stream did not surface from read as a transport error", got=o)
                else:
                    res, forever = available(st["data"], st["eof"], st["limit"])
                    k = st["done"]
                    if k < len(res):
                        want = "line " + enc(res[k][1]) if res[k][0] == "line" else "err"
                    else:
                        want = "err" if forever else "wait"
                    ok = (o == want) if want != "err" else is_transport_error(o)
                    if not ok:
                        bad("read did not return the next line of the stream", got=o, want=want, read_number=k)
                    if o != "wait":
                        st["done"] += 1
            elif kind == "write":
                text, where, fname = op[1], op[2], op[3]
                w = st["writer"]
                if w is not None:
                    w.fault = (where, FAULTS[fname]("injected")) if fname else None
                o = await HangGuard.call(t.write(text))
                obs.append(o)
                if w is not None:
                    w.fault = None
                if o == "hang":
                    bad("write neither returned nor raised although the stream does not make it wait")
                    break
                if not st["connected"]:
                    if not is_transport_error(o):
                        bad("write before connect did not raise a transport error", got=o)
                else:
                    if fname is None and o != "ok":
                        bad("write failed without a fault", got=o)
                    if fname in IO_FAULTS and not is_transport_error(o):
                        bad("an I/O error did not surface from write as a transport error", fault=fname, got=o)
                    if not (fname and where == "write"):
                        st["accepted"] += text.encode("utf-8")
                    if bytes(w.data) != st["accepted"]:
                        bad("the stream does not hold exactly the UTF-8 bytes of the written lines in call order",
                            got=bytes(w.data).hex(), want=st["accepted"].hex())
            elif kind == "disc":
                where, fname = op[1], op[2]
                w = st["writer"]
                if w is not None:
                    w.fault = (where, FAULTS[fname]("injected")) if fname else None
                o = await HangGuard.call(t.disconnect())
                obs.append(o)
                if w is not None:
                    w.fault = None
                if o == "hang":
                    bad("disconnect neither returned nor raised although the stream does not make it wait")
                    break
                if (fname is None or fname in IO_FAULTS) and o != "ok":
                    bad("disconnect did not absorb an OS-level error", fault=fname, got=o)
                if st["connected"] and fname is None and not w.closed:
                    bad("disconnect did not close the writer")
            elif kind == "out":
                w = st["writer"]
                obs.append("noconn" if w is None else f"out {hexb(bytes(w.data))} closed={1 if w.closed else 0}")
            else:
                raise ValueError(f"unknown op {op!r}")
        await drop_pending()
        return done_ops, obs


# ---- concurrent use: several calls in flight on one connection ---------------------------------
#
# A concurrent case is a list of steps on ONE connection whose writer is a `GatedWriter`:
#   ("block",)        the peer stops reading: from now on a drain() waits
#   ("release",)      the peer reads everything: waiting drains return, a pending close completes
#   ("lose", name)    the connection is lost, with the exception class `name` (OSError family) or cleanly (None)
#   ("w", text)       a new task calls transport.write(text) and runs until it returns, raises or has to wait
#   ("d",)            a new task calls transport.disconnect(), likewise
#   ("r",)            a new task calls transport.read(), likewise (at most one per case)
#   ("feed", bytes)   bytes arrive for the reader
# After every step the event loop runs until nothing moves.  At the end the stream is released and every call
# must have finished.  The schedule is fixed by the step list: tasks are started in list order, so "call order"
# is the order of the ("w", ...) steps.

C_YIELDS = 6


def explains(data: bytes, writes: list[tuple[bytes, bool]]) -> bool:
    """C17's words for writes: is `data` exactly the lines of a subsequence of the calls, each whole, in call
    order, that contains every call marked True (the ones that returned normally)?"""
    n = len(writes)
    seen: set[tuple[int, int]] = set()

    def go(i: int, pos: int) -> bool:
        if i == n:
            return pos == len(data)
        if (i, pos) in seen:
            return False
        seen.add((i, pos))
        b, must = writes[i]
        if data.startswith(b, pos) and go(i + 1, pos + len(b)):
            return True
        return (not must) and go(i + 1, pos)

    return go(0, 0)


def cop_text(op: tuple) -> str:
    if op[0] == "w":
        return f"write {op[1]!r}"
    if op[0] == "lose":
        return f"lose {op[1] or 'clean'}"
    if op[0] == "feed":
        return f"feed {op[1]!r}"
    return {"d": "disconnect", "r": "read"}.get(op[0], op[0])


async def run_concurrent(corr: Corr, ops: list[tuple], flavour: int, limit: int, info: dict):
    """Execute one concurrent case on the real transport and judge it by the property.  Returns
    (history, write outcomes in call order, stream bytes, overlapped?)."""
    Opening.limit, Opening.fault, Opening.last_kwargs = limit, None, None
    Opening.make_writer = GatedWriter
    try:
        Opening.last_pair = None
        t, _ = make_transport(flavour)
        o = await HangGuard.call(t.connect())
    finally:
        Opening.make_writer = None
    if o != "ok" or Opening.last_pair is None:
        corr.violate("connect did not succeed although the open function returned a connection at once",
                     {**info, "flavour": ["direct", "tcp", "serial"][flavour], "limit": limit, "history": ["connect"], "got": o})
        return ["connect -> " + o], [], b"", False
    reader, w = Opening.last_pair            # the harness's own handles; the transport's fields are never used
    tasks: list[tuple[str, asyncio.Task]] = []      # (label, task) in start order
    reported: set[str] = set()
    outcome: dict[str, str] = {}
    history: list[str] = ["connect"]
    texts: list[str] = []
    fed = b""
    disturbed = False                        # a disconnect or a connection loss is part of the case
    overlapped = False

    def bad(what: str, **kw) -> None:
        corr.violate(what, {**info, "flavour": ["direct", "tcp", "serial"][flavour], "limit": limit,
                            "history": list(history), "stream": bytes(w.data).hex(), **kw})

    def collect() -> str:
        news = []
        for label, task in tasks:
            if label in reported or not task.done():
                continue
            reported.add(label)
            try:
                r = task.result()
                if label.startswith("read"):
                    o = "line " + enc(r) if type(r) is str else f"returned {type(r).__name__}"
                else:
                    o = "ok" if r is None else f"returned {r!r}"
            except asyncio.CancelledError:
                o = "cancelled"
            except Exception as e:  # noqa: BLE001
                o = classify(e)
            outcome[label] = o
            news.append(f"{label} {o}")
        return "; ".join(news)

    async def settle() -> None:
        for _ in range(C_YIELDS):
            await asyncio.sleep(0)

    for op in ops:
        kind = op[0]
        if kind == "block":
            w.block()
        elif kind == "release":
            w.release()
        elif kind == "lose":
            disturbed = True
            w.lose(FAULTS[op[1]]("injected") if op[1] else None)
        elif kind == "feed":
            reader.feed_data(op[1])
            fed += op[1]
        elif kind == "w":
            label = f"write#{len(texts)}"
            texts.append(op[1])
            if any(lb.startswith("write") and not tk.done() for lb, tk in tasks):
                overlapped = True
            tasks.append((label, asyncio.ensure_future(t.write(op[1]))))
        elif kind == "d":
            disturbed = True
            tasks.append((f"disconnect#{sum(1 for lb, _ in tasks if lb.startswith('disc'))}",
                          asyncio.ensure_future(t.disconnect())))
        elif kind == "r":
            tasks.append(("read", asyncio.ensure_future(t.read())))
        else:
            raise ValueError(f"unknown concurrent op {op!r}")
        await settle()
        got = collect()
        history.append(cop_text(op) + (" -> " + got if got else ""))
    # the end of every case: the peer reads everything; nothing may be left waiting except a read without data
    w.release()
    await settle()
    pending = [tk for lb, tk in tasks if not tk.done() and lb != "read"]
    if pending:
        await asyncio.wait(pending, timeout=HangGuard.seconds)
        if any(not tk.done() for tk in pending):
            HangGuard.hung()
    got = collect()
    history.append("release (end)" + (" -> " + got if got else ""))
    for label, task in tasks:
        if not task.done():
            task.cancel()
            try:
                await task
            except BaseException:  # noqa: BLE001
                pass
            outcome[label] = "wait"
            if label != "read":
                bad("a call neither returned nor raised although the stream was released and nothing blocks it any more",
                    call=label)

    # ---- the oracle (C17 restated; nothing here knows how write/disconnect are implemented)
    n = len(texts)
    outs = [outcome[f"write#{i}"] for i in range(n)]
    for i, o in enumerate(outs):
        if o not in ("ok", "wait") and not is_transport_error(o):
            bad("a write that ran concurrently with other calls raised something that is not a transport error",
                call=f"write#{i}", got=o)
        elif not disturbed and o != "ok":
            bad("a write on a connected stream without any I/O error did not succeed", call=f"write#{i}", got=o)
    for label, o in outcome.items():
        if label.startswith("disconnect") and o not in ("ok", "wait"):
            bad("disconnect did not return normally (OS-level errors are to be absorbed)", call=label, got=o)
    if not explains(bytes(w.data), [(x.encode("utf-8"), o == "ok") for x, o in zip(texts, outs)]):
        bad("the stream does not hold exactly the lines of the writes that succeeded (and possibly of failed ones), "
            "each whole, in call order", writes=[[x, o] for x, o in zip(texts, outs)])
    if "read" in outcome:
        o = outcome["read"]
        res, _ = available(fed, False, limit)
        if o.startswith(("foreign", "returned")):
            bad("a read that ran concurrently with other calls raised something that is not a transport error", got=o)
        elif o.startswith("line") and not (res and res[0] == ("line", lib.dec(o.split(" ")[1]))):
            bad("a concurrent read returned something that is not the first line of the stream", got=o)
        elif not disturbed and res and res[0][0] == "line" and not o.startswith("line"):
            bad("a read on a connected stream holding a complete line did not return it", got=o)
        elif not disturbed and res and res[0][0] == "err" and not is_transport_error(o):
            bad("a read of an undecodable line did not raise a transport error", got=o)
    return history, outs, bytes(w.data), overlapped


C_TEXTS = ["1;2;1;0;0;20.5\n", "a\n", "7;2;1;0;47;caf\u00e9 \u20ac\n", "0;255;3;0;2;\n", "b;1\n", "\U0001f600\n", "a\n",
           "x", ""]


def concurrent_steps(shape: tuple, k: int) -> list[tuple]:
    """The step letters of a shape -> steps; writes get the texts C_TEXTS[k], C_TEXTS[k+1], ... (two of the
    texts are equal, one has no newline, one is empty), losses rotate through the OSError family."""
    ops: list[tuple] = []
    for j, c in enumerate(shape):
        if c == "w":
            ops.append(("w", C_TEXTS[(k + sum(1 for o in ops if o[0] == "w")) % len(C_TEXTS)]))
        elif c == "L":
            ops.append(("lose", IO_FAULTS[(k + j) % len(IO_FAULTS)]))
        else:
            ops.append({"d": ("d",), "l": ("lose", None), "b": ("block",), "u": ("release",)}[c])
    return ops


def concurrent_cases(rng, tier: str) -> list[tuple[list[tuple], int, dict]]:
    """(steps, limit, info).  (a) EVERY sequence of at most 5 (thorough 6) steps over {write, disconnect, clean
    loss, loss with an exception, block, release}, once starting on a blocked stream and once on a free one:
    this puts a disconnect / a connection loss at each point between writes that wait on an earlier write's
    drain; (b) random longer lives with up to 8 writes; a third of all cases also has a read in flight."""
    import itertools
    out = []
    k = 0
    for start_blocked in (True, False):
        for length in range(1, (5 if tier == "quick" else 6) + 1):
            for shape in itertools.product("wdlLbu", repeat=length):
                if "w" not in shape:
                    continue
                ops = ([("block",)] if start_blocked else []) + concurrent_steps(shape, k)
                if k % 3 == 2:
                    ops = [("feed", b"ok\n" if k % 2 else b"o"), ("r",), *ops]
                elif k % 3 == 1 and k % 4 == 1:
                    ops = [("r",), *ops]
                out.append((ops, 64, {"source": "concurrent:grid"}))
                k += 1
    for _ in range(1500 if tier == "quick" else 15000):
        shape = []
        for _ in range(rng.randint(5, 14)):
            shape.append(rng.choice("wwwwwwbbuudlL"))
        if shape.count("w") > 8:
            continue
        ops = ([("block",)] if rng.random() < 0.6 else []) + concurrent_steps(tuple(shape), rng.randrange(100))
        if rng.random() < 0.3:
            pos = rng.randrange(len(ops) + 1)
            first_event = next((i for i, o in enumerate(ops) if o[0] in ("d", "lose")), len(ops))
            feed = [("feed", rng.choice([b"ok\n", b"\xff\n", b"o", b"caf\xc3\xa9\nnext\n"]))] if rng.random() < 0.7 else []
            ops[min(pos, first_event):min(pos, first_event)] = [*feed, ("r",)] if rng.random() < 0.5 else [("r",), *feed]
        out.append((ops, rng.choice([8, 64]), {"source": "concurrent:random"}))
    return out


# ---- connection attempts that take time ---------------------------------------------------------
#
# C17: "a failed connection attempt ... surfaces as a transport error", for all fault positions including
# connect.  The cases above fail (or succeed) the attempt at once; a real peer may also not answer for a long
# time (SYNs dropped, a full accept queue, a serial server that stalls) before the attempt succeeds or fails,
# and the caller may give up meanwhile.  A slow-connect case runs connect() of a fresh transport on an event
# loop whose clock is virtual, with the open function (asyncio.open_connection / open_serial_connection / the
# direct subclass's) replaced by `SlowOpen`: EVERY attempt to open stays pending for `delay` seconds (None =
# for ever), then returns a (reader, writer) pair or raises `outcome`; the caller's task may be cancelled at
# `cancel_at`.  Nothing here knows whether or how the transport bounds the attempt itself.

try:                                   # the loop of the C16 engine, if that module can be imported against this tree
    from .lifecycle import VirtualTimeLoop
except Exception:  # noqa: BLE001      # pragma: no cover
    import heapq

    class VirtualTimeLoop(asyncio.SelectorEventLoop):
        """An event loop whose clock is virtual: whenever nothing is ready to run, time jumps to the next timer."""

        def __init__(self) -> None:
            super().__init__()
            self._vnow = 0.0

        def time(self) -> float:
            return self._vnow

        def _run_once(self) -> None:
            if not self._ready:
                while self._scheduled and self._scheduled[0]._cancelled:      # noqa: SLF001
                    handle = heapq.heappop(self._scheduled)
                    handle._scheduled = False                                  # noqa: SLF001
                    self._timer_cancelled_count = max(0, self._timer_cancelled_count - 1)
                if self._scheduled and self._scheduled[0]._when > self._vnow:  # noqa: SLF001
                    self._vnow = self._scheduled[0]._when                      # noqa: SLF001
            super()._run_once()


# every class of the OSError family that an open function can raise: the builtin subclasses, the resolver's, the
# TLS layer's, pyserial's; and the two classes outside the family of the cases above
CONNECT_FAULTS = {
    **FAULTS,
    "BlockingIOError": BlockingIOError, "ChildProcessError": ChildProcessError, "ConnectionError": ConnectionError,
    "ConnectionAbortedError": ConnectionAbortedError, "FileExistsError": FileExistsError,
    "InterruptedError": InterruptedError, "IsADirectoryError": IsADirectoryError,
    "NotADirectoryError": NotADirectoryError, "PermissionError": PermissionError,
    "ProcessLookupError": ProcessLookupError, "herror": socket.herror, "SSLError": ssl.SSLError,
    "SerialTimeoutException": serial.SerialTimeoutException,
}
CONNECT_IO = [k for k, v in CONNECT_FAULTS.items() if issubclass(v, OSError)]
CONNECT_OTHER = [k for k, v in CONNECT_FAULTS.items() if not issubclass(v, OSError)]

HORIZON = 4.0 * 10 ** 6      # virtual seconds the harness waits for a connect() before it calls it pending
LOOP_AGE = 4.0 * 10 ** 6     # a loop's clock is a float compared at a resolution of 1e-9 s: beyond 2**24 s timers would
#                              no longer fire, so a loop that is older than this is replaced by a fresh one
SLOW_DELAYS = [0, 0.001, 0.5, 1, 2, 3, 5, 9.999, 10, 10.001, 15, 20, 29.999, 30, 30.001, 45, 60, 75, 90, 119, 120,
               127, 130, 300, 600, 900, 3600, 86400, None]
S_TEXT = "1;2;1;0;0;5\n"
S_FEED = b"ok\n\xff\n"


class SlowOpen:
    """What every attempt to open the connection does in one slow-connect case."""

    def __init__(self, delay, outcome, limit: int, log) -> None:
        self.delay, self.outcome, self.limit, self.log = delay, outcome, limit, log
        self.started = 0
        self.pending = 0
        self.ended: list[str] = []           # "opened" | "raised" | "cancelled", one per attempt that ended
        self.pairs: list[tuple] = []

    def describe(self) -> str:
        how = "opens the connection" if self.outcome is None else f"raises {self.outcome}"
        if self.delay is None:
            return "never answers"
        return f"{how} after {self.delay:g} s" if self.delay else f"{how} at the next turn of the event loop"

    async def attempt(self, kwargs: dict):
        self.started += 1
        n = self.started
        self.pending += 1
        self.log(f"open attempt #{n} ({', '.join(f'{k}={v!r}' for k, v in kwargs.items())}) starts; it {self.describe()}")
        try:
            if self.delay is None:
                await asyncio.get_running_loop().create_future()
            else:
                await asyncio.sleep(self.delay)
        except asyncio.CancelledError:
            self.ended.append("cancelled")
            self.log(f"open attempt #{n} is cancelled while pending")
            raise
        finally:
            self.pending -= 1
        if self.outcome is not None:
            self.ended.append("raised")
            self.log(f"open attempt #{n} raises {self.outcome}")
            raise CONNECT_FAULTS[self.outcome]("injected")
        pair = (asyncio.StreamReader(limit=self.limit), shaped(FakeWriter(), kwargs))
        self.pairs.append(pair)
        Opening.last_pair = pair
        self.ended.append("opened")
        self.log(f"open attempt #{n} returns a connection")
        return pair


def outcome_of(task: asyncio.Task) -> tuple[str, str]:
    """(observation in the model's words, the class as raised) of a finished connect()/read()/write() task."""
    if task.cancelled():
        return "foreign CancelledError", "asyncio.CancelledError"
    e = task.exception()
    if e is None:
        r = task.result()
        if type(r) is str:
            return "line " + enc(r), ""
        return ("ok" if r is None else f"returned {type(r).__name__}"), ""
    return classify(e), f"{type(e).__module__}.{type(e).__qualname__}"


async def run_slow_connect(corr: Corr, case: dict, info: dict) -> tuple[list[str], list[str], list[str]]:
    """One slow-connect case on the real transport, judged by the property.  Returns (the case as operations of
    the model's driver, the observations, the history)."""
    loop = asyncio.get_running_loop()
    flavour, delay, outcome, cancel_at, limit = (case[k] for k in ("flavour", "delay", "outcome", "cancel_at", "limit"))
    t0 = loop.time()
    history: list[str] = []

    def log(text: str) -> None:
        history.append(f"t={round(loop.time() - t0, 3):g}: {text}")

    def bad(what: str, **kw) -> None:
        corr.violate(what, {**info, "flavour": ["direct", "tcp", "serial"][flavour], "open_function": opening,
                            "caller_cancels_at": cancel_at, "connect_history": list(history), **kw})

    async def finish(coro, seconds: float = 1.0) -> tuple[str, str]:
        """Run a call that has nothing to wait for; it may use (virtual) time, but not without end."""
        task = asyncio.ensure_future(coro)
        await asyncio.wait({task}, timeout=seconds)
        if not task.done():
            task.cancel()
            await asyncio.wait({task})
            return "hang", ""
        return outcome_of(task)

    script = SlowOpen(delay, outcome, limit, log)
    opening = "every attempt " + script.describe()
    Opening.script, Opening.last_kwargs, Opening.last_pair = script, None, None
    lines, obs = ["tnew"], ["ok"]
    try:
        t, expected_kwargs = make_transport(flavour)
        log(f"{type(t).__name__}.connect() is called")
        task = loop.create_task(t.connect())
        cancelled_by_caller = False

        def caller_cancels() -> None:
            nonlocal cancelled_by_caller
            if not task.done():
                log("the caller's task is cancelled")
                cancelled_by_caller = task.cancel() or cancelled_by_caller

        handle = None
        if cancel_at is not None:
            if cancel_at == 0:
                caller_cancels()                   # before connect() got to run at all
            else:
                handle = loop.call_later(cancel_at, caller_cancels)
        await asyncio.wait({task}, timeout=HORIZON)
        if handle is not None:
            handle.cancel()
        gave_up = not task.done()
        if gave_up:
            log(f"connect() is still pending ({script.pending} open attempt(s) pending)")
            if script.pending == 0:
                bad("connect neither returned nor raised although no attempt to open the connection is pending any more")
            caller_cancels()
            await asyncio.wait({task}, timeout=HORIZON)
            if not task.done():
                bad("connect neither returned nor raised although its caller was cancelled")
                return lines, obs, history
        o, raised = outcome_of(task)
        log(f"connect() {'returns' if o == 'ok' else 'raises ' + raised if raised else o}")
        fault_name = "CancelledError" if cancelled_by_caller else (vocab_name(CONNECT_FAULTS[outcome]) if outcome else "-")
        lines.append(f"conn {limit} {fault_name}")
        obs.append(o)
        # ---- the oracle for connect (C17 restated; the delays and the bound of the harness are not part of it)
        allowed_foreign = set()
        if cancelled_by_caller:
            allowed_foreign.add("foreign CancelledError")
        if outcome in CONNECT_OTHER and "raised" in script.ended:
            allowed_foreign.add("foreign " + vocab_name(CONNECT_FAULTS[outcome]))
        if Opening.last_kwargs is not None and Opening.last_kwargs != expected_kwargs:
            bad("_open_connection did not pass the configured address through",
                got=repr(Opening.last_kwargs), want=repr(expected_kwargs))
        if not (o == "ok" or is_transport_error(o) or o in allowed_foreign):
            bad("a connection attempt that did not succeed surfaced as something that is not a transport error",
                got=o, raised=raised)
        elif cancelled_by_caller and o != "foreign CancelledError":
            bad("connect was cancelled by its caller while pending and did not propagate the cancellation", got=o)
        elif o == "ok" and not script.pairs:
            bad("connect returned normally although no attempt to open the connection succeeded", got=o)
        elif o == "ok" and (getattr(t, "reader", None) is not script.pairs[-1][0] or getattr(t, "writer", None) is not script.pairs[-1][1]):
            bad("connect did not install the opened reader/writer")
        elif is_transport_error(o) and "opened" in script.ended and not cancelled_by_caller:
            bad("connect failed although the connection was opened", got=o)
        connected = o == "ok" and bool(script.pairs)

        async def use_connection(full: bool) -> None:
            reader, w = script.pairs[-1]
            reader.feed_data(S_FEED)
            lines.append("feed " + hexb(S_FEED))
            obs.append("ok")
            for want in ("line " + enc("ok\n"), "err"):
                r, _ = await finish(t.read())
                lines.append("read")
                obs.append(r)
                if not (r == want if want != "err" else is_transport_error(r)):
                    bad("read on the connection just opened did not return the next line of the stream", got=r, want=want)
                if not full:
                    break
            r, _ = await finish(t.write(S_TEXT))
            lines.append(f"write {enc(S_TEXT)} -")
            obs.append(r)
            if r != "ok" or bytes(w.data) != S_TEXT.encode():
                bad("write on the connection just opened did not put exactly the line's bytes on the stream",
                    got=r, stream=bytes(w.data).hex())
            r, _ = await finish(t.disconnect())
            lines.append("disc -")
            obs.append(r)
            if r != "ok" or not w.closed:
                bad("disconnect of the connection just opened did not return normally with the writer closed", got=r)
            lines.append("out")
            obs.append(f"out {hexb(bytes(w.data))} closed={1 if w.closed else 0}")

        if connected:
            await use_connection(full=True)
            return lines, obs, history
        # the attempt did not succeed on a transport that was never connected: using it raises transport errors,
        # disconnecting is harmless, and a new attempt that the peer answers promptly succeeds
        for what, coro, line in (("read", t.read(), "read"), ("write", t.write("x"), "write 78 -")):
            r, _ = await finish(coro)
            lines.append(line)
            obs.append(r)
            if not is_transport_error(r):
                bad(f"{what} on a transport whose connection attempt did not succeed did not raise a transport error", got=r)
        r, _ = await finish(t.disconnect())
        lines.append("disc -")
        obs.append(r)
        if r != "ok":
            bad("disconnect of a transport whose connection attempt did not succeed did not return normally", got=r)
        lines.append("out")
        obs.append("noconn")
        if script.pairs:                     # a connection was opened behind a connect() that did not return: not the model's
            return lines, obs, history
        script.delay, script.outcome = 0.5, None
        log("the peer is reachable now; connect() is called again")
        r, raised = await finish(t.connect(), HORIZON)
        log(f"connect() {'returns' if r == 'ok' else 'raises ' + raised if raised else r}")
        lines.append(f"conn {limit} -")
        obs.append(r)
        if r != "ok" or not script.pairs:
            bad("a new connection attempt that the peer answers within half a second did not succeed", got=r, raised=raised)
        elif getattr(t, "reader", None) is not script.pairs[-1][0] or getattr(t, "writer", None) is not script.pairs[-1][1]:
            bad("connect did not install the opened reader/writer")
        else:
            await use_connection(full=False)
        return lines, obs, history
    finally:
        Opening.script = None


def slow_connect_cases(rng, tier: str) -> list[tuple[dict, dict]]:
    """(case, info).  (A) every delay of SLOW_DELAYS x every flavour x {success, OSError-family classes (all of them
    in the thorough tier, four rotating ones in the quick tier)}; (B) every class x every flavour x three delays;
    (C) the caller cancelled before connect() runs, half-way and just before the answer (never answering peer:
    after 1 s, 100 s, 10**6 s); (D) random delays (log-uniform over nine decades), outcomes and cancellation points."""
    out: list[tuple[dict, dict]] = []
    k = 0

    def add(source, flavour, delay, outcome, cancel_at=None):
        out.append(({"flavour": flavour, "delay": delay, "outcome": outcome, "cancel_at": cancel_at,
                     "limit": 8 if len(out) % 2 else 64}, {"source": "slow-connect:" + source}))

    faults = [*CONNECT_IO, *CONNECT_OTHER]
    for delay in SLOW_DELAYS:
        for flavour in range(3):
            add("grid", flavour, delay, None)
            if delay is None:
                continue
            if tier == "quick":
                for _ in range(4):
                    add("grid", flavour, delay, faults[k % len(faults)])
                    k += 1
            else:
                for f in faults:
                    add("grid", flavour, delay, f)
    for f in faults:
        for flavour in range(3):
            for delay in (0, 45, 3600):
                add("classes", flavour, delay, f)
    for delay in SLOW_DELAYS:
        if delay == 0:
            continue
        points = (0, 1, 100, 10 ** 6) if delay is None else (0, delay / 2, delay - delay / 64)
        for flavour in range(3):
            for c in points:
                add("cancel", flavour, delay, None, c)
                if delay is not None:
                    add("cancel", flavour, delay, faults[k % len(faults)], c)
                    k += 1
    for _ in range(300 if tier == "quick" else 4000):
        delay = None if rng.random() < 0.1 else round(10 ** rng.uniform(-3, 6), 3)      # at most 10**6 < HORIZON
        outcome = None if rng.random() < 0.45 or delay is None else rng.choice(faults)
        cancel_at = None
        if rng.random() < 0.35:
            cancel_at = round(rng.uniform(0, 1) * (delay if delay is not None else 10 ** rng.uniform(-3, 6)), 4)
            if delay is not None and cancel_at >= delay:
                cancel_at = None
        add("random", rng.randrange(3), delay, outcome, cancel_at)
    return out


def model_line(op: tuple) -> str:
    kind = op[0]
    if kind == "tnew":
        return "tnew"
    if kind == "snew":
        return f"snew {op[1]}"
    if kind == "conn":
        return f"conn {op[1]} {vocab_name(FAULTS[op[2]]) if op[2] else '-'}"
    if kind == "feed":
        return "feed " + hexb(op[1])
    if kind in ("eof", "read", "out"):
        return kind
    if kind == "fail":
        return "fail " + vocab_name(FAULTS[op[1]])
    if kind == "write":
        f = "-" if not op[3] else ("w:" if op[2] == "write" else "d:") + vocab_name(FAULTS[op[3]])
        return f"write {enc(op[1])} {f}"
    if kind == "disc":
        f = "-" if not op[2] else ("c:" if op[1] == "close" else "w:") + vocab_name(FAULTS[op[2]])
        return f"disc {f}"
    raise ValueError(op)


def schedule_of(ops: list[tuple], obs: list[str]):
    """A framing case as a schedule of the model's `Transport.run`: arrivals, and one `r` per read *request*
    (a `read` operation issued while the previous one is still waiting is the same request being resumed).
    Returns (limit, events, completed results) or None if the case is not a pure framing case."""
    if not ops or ops[0][0] != "snew" or any(o[0] not in ("feed", "eof", "read") for o in ops[1:]):
        return None
    evs, results, waiting = [], [], False
    for op, o in zip(ops[1:], obs[1:]):
        if op[0] == "feed":
            evs.append("f" + hexb(op[1]))
        elif op[0] == "eof":
            evs.append("e")
        else:
            if not waiting:
                evs.append("r")
            waiting = o == "wait"
            if not waiting:
                results.append(o)
    return ops[0][1], evs, results


# ---- generators -------------------------------------------------------------------------------


def chunkings(data: bytes):
    """Every way of cutting `data` into non-empty consecutive chunks."""
    n = len(data)
    if n == 0:
        yield []
        return
    for mask in range(1 << (n - 1)):
        cuts = [i + 1 for i in range(n - 1) if mask >> i & 1]
        yield [data[a:b] for a, b in zip([0, *cuts], [*cuts, n])]


def random_chunking(rng, data: bytes, mean: int):
    out, i = [], 0
    while i < len(data):
        k = max(0 if rng.random() < 0.05 else 1, int(rng.expovariate(1 / mean)))
        out.append(data[i:i + k])
        i += k
    return out


def framing_ops(limit: int, chunks: list[bytes], policy: str, rng=None) -> list[tuple]:
    """snew; the chunks with reads in between according to `policy`; EOF; three more reads."""
    total_lines = sum(c.count(b"\n") for c in chunks)
    ops: list[tuple] = [("snew", limit)]
    if policy == "lazy":
        ops += [("feed", c) for c in chunks] + [("eof",)] + [("read",)] * (total_lines + 3)
        return ops
    if policy == "early":
        ops.append(("read",))          # the consumer is already waiting when the first byte arrives
    for c in chunks:
        ops.append(("feed", c))
        k = c.count(b"\n") + 1 if policy in ("eager", "early") else rng.choice([0, 0, 1, 1, 2, 3])
        ops += [("read",)] * k
    ops.append(("eof",))
    ops += [("read",)] * (3 if policy in ("eager", "early") else total_lines + 3)
    return ops


SHORT_STREAMS = [
    b"", b"\n", b"\n\n", b"a\n", b"ab\n", b"abc\n", b"ab\ncd\n", b"a\nabc\nb\n", b"ab", b"abc", b"a\nbc", b"a\nbcd",
    b"\xff\xfe\n", b"\xff\xfe\nok\n", b"\xc3\xa9\n", b"\xc3\n", b"\xc3\n\xa9\n", b"a\n\xc3", b"\xe2\x82\xac\n",
    b"\xf0\x9f\x98\x80\n", b"\xed\xa0\x80\n", b"\xc0\xaf\n", b"\xf4\x90\x80\x80\n", b"a\r\n", b"\x00\n", b"a\n\nb\n",
    b"\n\nab", b"1;2;1;0\n", b"ab\n\xffz\nc",
]
SHORT_STREAMS_THOROUGH = [b"ab\nabc\nx\n", b"\xff\nab\ncd\nxy", b"1;2;3;0;0\n", b"\xc3\xa9\n\xe2\x82\xac\nab\n",
                          b"a\nbb\nccc\n\n"]
SHORT_LIMITS = (2, 64)


def long_streams(rng, tier: str):
    """(stream, limit, label): realistic gateway traffic, limit boundaries, binary garbage."""
    out = []
    msgs = ["1;255;3;0;11;Sketch", "1;255;3;0;12;1.0", "1;0;0;0;6;temp", "1;0;1;0;0;21.5", "255;255;3;0;3;",
            "0;255;3;0;14;Gateway startup complete.", "7;2;1;0;47;café € \U0001f600", "3;1;1;0;49;55.7;13.0;18",
            "", "0;255;3;0;2;2.3.2"]
    n = 12 if tier == "quick" else 60
    for i in range(n):
        k = rng.randint(3, 14)
        data = b"".join(rng.choice(msgs).encode() + b"\n" for _ in range(k))
        if i % 3 == 1:
            data += rng.choice(msgs).encode()[: rng.randint(1, 8)]          # ends mid-line
        if i % 4 == 2:
            pos = rng.randrange(len(data))
            data = data[:pos] + bytes([rng.choice([0xff, 0xfe, 0xc3, 0x80, 0xe2])]) + data[pos:]   # corrupt a byte
        out.append((data, rng.choice([64, 64, 40, 20]), "traffic"))
    for limit in (16, 33):
        for delta in (-1, 0, 1):
            body = bytes(rng.choice(b"abcdefgh") for _ in range(limit + delta))
            out.append((b"ok\n" + body + b"\nafter\nmore\n", limit, f"limit{delta:+d}"))
            out.append((b"ok\n" + body, limit, f"tail-limit{delta:+d}"))
            out.append((body + b"\n" + "é".encode() * (limit // 2) + b"\nx", limit, f"limit{delta:+d}-utf8"))
    for _ in range(6 if tier == "quick" else 40):
        data = bytes(rng.choice([10, 10, 0x61, 0x62, 0xc3, 0xa9, 0xff, 0x20, 0x3b, 0x31]) for _ in range(rng.randint(20, 200)))
        out.append((data, rng.choice([4, 8, 16, 64]), "binary"))
    return out


def default_limit_streams():
    """The limit the real transports run with (asyncio's default, 2**16)."""
    lim = 2 ** 16
    yield (b"x" * lim + b"\n" + b"1;2;1;0;0;ok\n" + b"y" * (lim + 1) + b"\nlost\n", lim, "default-limit")
    yield (b"1;2;1;0;0;ok\n" + b"z" * (lim + 1), lim, "default-limit-tail")


def fault_case(rng) -> list[tuple]:
    """A random life of one transport: connects (some failing), feeds, reads, writes, faults, disconnects."""
    ops: list[tuple] = [("tnew",)]
    connected = False
    eof = False
    io = lambda: rng.choice(IO_FAULTS)                                  # noqa: E731
    anyf = lambda: rng.choice(IO_FAULTS * 3 + OTHER_FAULTS)             # noqa: E731
    texts = ["1;2;1;0;0;20.5\n", "x", "", "café\n", "€\U0001f600", "a;b\n", "0;255;3;0;2;\n"]
    pieces = [b"ab\n", b"c", b"\n", b"\xff\n", b"d\xc3", b"\xa9\n", b"longer-than-eight\n", b"xy", b""]
    for _ in range(rng.randint(4, 18)):
        x = rng.random()
        if not connected and x < 0.35:
            f = None if rng.random() < 0.55 else anyf()
            ops.append(("conn", rng.choice([8, 8, 64]), f))
            if f is None:
                connected, eof = True, False
        elif x < 0.20 and connected and not eof:
            ops.append(("feed", rng.choice(pieces)))
        elif x < 0.45:
            ops.append(("read",))
        elif x < 0.72:
            f = None if rng.random() < 0.5 else anyf()
            ops.append(("write", rng.choice(texts), rng.choice(["write", "drain"]), f))
        elif x < 0.78 and connected and not eof:
            ops.append(("eof",))
            eof = True
        elif x < 0.84 and connected:
            ops.append(("fail", anyf() if rng.random() < 0.3 else io()))
        elif x < 0.94:
            f = None if rng.random() < 0.4 else anyf()
            ops.append(("disc", rng.choice(["close", "wait_closed"]), f))
        elif connected and rng.random() < 0.3:
            ops.append(("conn", 8, None))     # reconnect: a fresh stream
            eof = False
        else:
            ops.append(("out",))
    ops.append(("out",))
    return ops


def fault_grid() -> list[list[tuple]]:
    """Every fault position once, with every injected class."""
    out = []
    for f in [*IO_FAULTS, *OTHER_FAULTS]:
        out.append([("tnew",), ("read",), ("write", "x\n", "write", None), ("disc", "close", None), ("out",),
                    ("conn", 8, f), ("read",), ("write", "x\n", "drain", None), ("disc", "close", f),
                    ("conn", 8, None), ("feed", b"a\nb"), ("read",), ("read",), ("out",)])
        for where in ("write", "drain"):
            out.append([("snew", 8), ("write", "a\n", where, None), ("write", "bé\n", where, f),
                        ("write", "c\n", where, None), ("out",)])
        for where in ("close", "wait_closed"):
            out.append([("snew", 8), ("write", "a\n", "write", None), ("disc", where, f), ("out",),
                        ("disc", where, None), ("out",), ("read",), ("write", "z", "write", None)])
        out.append([("snew", 8), ("feed", b"a\nb\nc"), ("read",), ("fail", f), ("read",), ("read",), ("eof",), ("read",)])
        out.append([("snew", 8), ("read",), ("fail", f), ("read",), ("read",)])
    return out


def corpus_ops(c: dict) -> list[tuple]:
    ops: list[tuple] = []
    for op in c["ops"]:
        if op[0] == "feed":
            ops.append(("feed", bytes.fromhex(op[1])))
        else:
            ops.append(tuple(op))
    return ops


# ---- real connections: what was written before disconnect() reaches the peer -------------------
#
# C17: "each write puts exactly the UTF-8 bytes of the given line on the stream in call order", observed as "bytes
# received by the peer for a sequence of writes".  The stand-in writers above ARE the stream, so a byte handed to them
# has arrived by definition; on a live connection the bytes of a write() that returned still sit in the socket's send
# buffer, and whether they arrive depends on everything the transport did to the connection between connect() and the
# end of disconnect() (socket options, how it closes).  A delivery case therefore runs the real `TCPTransport` over a
# REAL loopback TCP connection to a peer that the harness drives in the same event loop:
#   connect() [- the peer greets with one line, read() returns it] - write(line) for every line of the case, each awaited
#   - disconnect();
# the peer reads according to its policy (`prompt`: as fast as it can; `slow`: `chunk` bytes, a pause, and so on;
# `late`: nothing at all until the client has returned from disconnect() - and while the client is stuck because every
# buffer between the two is full, just enough to make it move), with the operating system's default receive buffer or a
# small one (an embedded gateway).  Then it reads to the end of the stream.  Judged by the property alone: if connect,
# every write and disconnect returned normally, the peer has received exactly the bytes of the lines, in order, and
# then a clean end of stream (not a reset: a reset is how TCP tells the peer that data was thrown away).
# Everything the verdict depends on is an event (bytes, end of stream, a call returning); the clocks only bound how
# long the harness waits for an event that does not come (`Wall.guard`, generous) and decide when a peer that is
# holding back reads a little earlier (`Wall.stall`: reading earlier only makes a case milder).  A violation is
# kept only if it shows again when the case is run a second time with the guards doubled (`delivery_confirmed`).


class Wall:
    guard = 20.0      # seconds the harness waits for an event that depends only on this process and the loopback interface
    stall = 0.02      # a client that made no progress for this long is taken to wait for the peer


D_GREETING = "0;255;3;0;14;Gateway startup complete.\n"
D_PADS = ["x", "caf\u00e9 \u20ac ", "0123456789", "\U0001f600;"]


def delivery_lines(spec: dict) -> list[str]:
    """The lines of a delivery case: `count` lines, each with its own number, padded to about `width` characters
    (ASCII and multi-byte pads in rotation), so that the peer's bytes say which line a difference starts in."""
    out = []
    for i in range(spec["count"]):
        pad = D_PADS[i % len(D_PADS)]
        body = (pad * (spec["width"] // len(pad) + 1))[:spec["width"]]
        out.append(f"{i % 255};{i % 7};1;0;47;{i:07d}{body}\n")
    return out


def delivery_text(case: dict) -> str:
    ln, peer = case["lines"], case["peer"]
    how = {"prompt": "reads as fast as it can",
           "slow": f"takes {peer.get('chunk')} bytes, pauses {peer.get('pause')} s, and so on",
           "late": "reads only after the client returned from disconnect() (and as little as keeps the client moving)"}[peer["mode"]]
    link = ("SerialTransport on the slave side of a pseudo terminal" if case.get("link") == "pty" else
            "TCPTransport over a real loopback connection")
    return (f"{link}: connect, {'read the greeting, ' if case.get('greeting') else ''}"
            f"{ln['count']} write(s) of about {ln['width'] + 20} characters, disconnect; the peer "
            f"({'the master side' if case.get('link') == 'pty' else 'receive buffer: ' + str(peer.get('rcvbuf') or 'default')}) {how}"
            + (f", then waits {peer['after']} s" if peer.get("after") else "") + " and reads to the end of the stream")


class TcpFarEnd:
    """The peer of a delivery case over TCP: a listening loopback socket (optionally with a small receive buffer, which
    the accepted connection inherits) and the one connection it accepts, driven by the harness in the event loop."""

    def __init__(self, rcvbuf) -> None:
        self.listener = socket.socket(socket.AF_INET, socket.SOCK_STREAM)
        self.conn = None
        try:
            if rcvbuf:
                self.listener.setsockopt(socket.SOL_SOCKET, socket.SO_RCVBUF, rcvbuf)
            self.listener.bind(("127.0.0.1", 0))
            self.listener.listen(1)
            self.listener.setblocking(False)
        except OSError:
            self.listener.close()
            raise

    def transport(self):
        return TCPTransport("127.0.0.1", self.listener.getsockname()[1])

    async def accept(self) -> bool:
        try:
            self.conn, _ = await asyncio.wait_for(asyncio.get_running_loop().sock_accept(self.listener), Wall.guard)
        except TimeoutError:
            return False
        self.conn.setblocking(False)
        return True

    async def send(self, data: bytes) -> None:
        await asyncio.get_running_loop().sock_sendall(self.conn, data)

    async def recv(self, n: int):
        """bytes | b"" (clean end of stream) | an OSError instance (the stream ended with an error) | None (nothing came)."""
        try:
            return await asyncio.wait_for(asyncio.get_running_loop().sock_recv(self.conn, n), Wall.guard)
        except TimeoutError:
            return None
        except OSError as err:
            return err

    def close(self) -> None:
        if self.conn is not None:
            self.conn.close()
        self.listener.close()


class PtyFarEnd:
    """The peer of a delivery case over a serial line: the master side of a pseudo terminal whose slave side the real
    SerialTransport opens through pyserial-asyncio.  When the transport closes the port, the master reads what is still
    queued and then gets EIO (the line hung up): that is this link's clean end of stream."""

    def __init__(self) -> None:
        self.master, self.slave = os.openpty()
        os.set_blocking(self.master, False)

    def transport(self):
        return SerialTransport(os.ttyname(self.slave), 57600)

    async def accept(self) -> bool:
        os.close(self.slave)            # the transport holds the only open slave side now
        self.slave = None
        return True

    async def send(self, data: bytes) -> None:
        os.write(self.master, data)

    async def recv(self, n: int):
        loop = asyncio.get_running_loop()
        while True:
            try:
                return os.read(self.master, n)
            except BlockingIOError:
                pass
            except OSError as err:
                return b"" if err.errno == errno.EIO else err
            fut = loop.create_future()
            loop.add_reader(self.master, lambda: fut.done() or fut.set_result(None))
            try:
                await asyncio.wait_for(fut, Wall.guard)
            except TimeoutError:
                return None
            finally:
                loop.remove_reader(self.master)

    def close(self) -> None:
        for fd in (self.master, self.slave):
            if fd is not None:
                os.close(fd)


async def run_delivery(case: dict) -> dict:
    """One delivery case on the real TCPTransport / SerialTransport.  Returns the observations and the oracle's findings
    ({"violations": [(what, details)], ...}); raises OSError only if the loopback interface (the pseudo terminal)
    itself cannot be had."""
    loop = asyncio.get_running_loop()
    peer_cfg = case["peer"]
    mode = peer_cfg["mode"]
    lines = delivery_lines(case["lines"])
    expected = "".join(lines).encode("utf-8")
    far = PtyFarEnd() if case.get("link") == "pty" else TcpFarEnd(peer_cfg.get("rcvbuf"))
    res: dict = {"written_bytes": 0, "writes_returned": 0, "violations": []}
    received = bytearray()
    progress = 0
    steps: dict[str, str] = {}

    def bad(what: str, **kw) -> None:
        res["violations"].append((what, kw))

    async def call(coro) -> str:
        try:
            r = await coro
            return "ok" if r is None else (("line " + enc(r)) if type(r) is str else f"returned {type(r).__name__}")
        except Exception as e:  # noqa: BLE001
            return classify(e)

    async def client() -> None:
        nonlocal progress
        if case.get("greeting"):
            steps["read"] = await call(t.read())
            if steps["read"] != "line " + enc(D_GREETING):
                return
        for i, line in enumerate(lines):
            o = await call(t.write(line))
            if o != "ok":
                steps["write"] = o
                steps["failed_write"] = str(i)
                break
            progress = i + 1
        steps["disconnect"] = await call(t.disconnect())

    recv = far.recv

    try:
        t = far.transport()
        try:
            steps["connect"] = await asyncio.wait_for(call(t.connect()), Wall.guard)
        except TimeoutError:
            steps["connect"] = "hang"
        res["steps"] = steps
        if steps["connect"] != "ok":
            bad("connect to a listening peer on the loopback interface (an existing serial device) did not succeed",
                got=steps["connect"])
            return res
        if not await far.accept():
            bad("connect returned normally but no connection reached the listening peer")
            return res
        if case.get("greeting"):
            try:
                await far.send(D_GREETING.encode())
            except OSError:
                pass                     # the client's read will not return the greeting then
        task = asyncio.ensure_future(client())
        ending = None          # "eof" | "reset:<class>" | "nothing" (guard expired)
        t0 = loop.time()

        def note(data) -> bool:
            """Book what a recv gave; True when the stream has ended one way or the other."""
            nonlocal ending
            if data is None:
                ending = "nothing"
            elif isinstance(data, OSError):
                ending = "reset:" + type(data).__name__
            elif not data:
                ending = "eof"
            else:
                received.extend(data)
                return False
            return True

        if mode == "late":
            while not task.done() and ending is None:
                seen = progress
                await asyncio.wait({task}, timeout=Wall.stall)
                while not task.done() and progress == seen and ending is None:      # stuck: every buffer on the way is full
                    note(await recv(65536))
                    await asyncio.sleep(0)
                if loop.time() - t0 > 10 * Wall.guard:
                    break
        else:
            chunk = peer_cfg.get("chunk") or 65536
            taken = 0
            while ending is None and not (task.done() and mode == "slow"):
                before = len(received)
                note(await recv(chunk))
                taken += len(received) - before
                if mode == "slow" and taken >= chunk:
                    taken = 0
                    await asyncio.sleep(peer_cfg.get("pause") or 0.001)
        if not task.done() and ending is not None:
            # the stream has ended for the peer; the client's calls have nothing left to wait for
            await asyncio.wait({task}, timeout=Wall.guard)
        if not task.done():
            task.cancel()
            await asyncio.wait({task})
            bad("a call of the transport neither returned nor raised although the peer takes everything that is sent",
                steps=dict(steps), writes_returned=progress)
            return res
        if peer_cfg.get("after"):
            await asyncio.sleep(peer_cfg["after"])
        while ending is None:
            note(await recv(65536))
        res.update(writes_returned=progress, written_bytes=len("".join(lines[:progress]).encode("utf-8")),
                   received_bytes=len(received), ending=ending, received=bytes(received))
        # ---- the oracle (C17 restated; nothing here knows what the transport did to the socket)
        if case.get("greeting") and steps.get("read") != "line " + enc(D_GREETING):
            bad("read did not return the line the peer sent", got=steps.get("read"))
            return res
        for step in ("write", "disconnect"):
            o = steps.get(step, "ok")
            if o != "ok" and not is_transport_error(o):
                bad(f"{step} on a live connection raised something that is not a transport error", got=o)
        if steps.get("disconnect") != "ok":
            bad("disconnect did not return normally", got=steps.get("disconnect"))
        if "write" in steps:
            if is_transport_error(steps["write"]):
                bad("a write on a live connection whose peer did nothing but read raised a transport error",
                    got=steps["write"], write_number=int(steps["failed_write"]))
            return res
        if steps.get("disconnect") != "ok":
            return res
        got = bytes(received)
        if got != expected:
            k = next((i for i, (a, b) in enumerate(zip(got, expected)) if a != b), min(len(got), len(expected)))
            upto, line_no = 0, 0
            for line_no, line in enumerate(lines):
                upto += len(line.encode("utf-8"))
                if upto > k:
                    break
            bad("bytes of lines whose write() returned normally before disconnect() did not reach the peer "
                "(the peer's stream is not exactly the lines written, in call order)",
                written_bytes=len(expected), received_bytes=len(got), received_is_a_prefix=expected.startswith(got),
                first_difference_at_byte=k, in_line_number=line_no, that_line=lines[line_no][:80] if lines else None,
                peer_stream_ended_with=ending)
        elif ending != "eof":
            if ending == "nothing":
                bad(f"disconnect returned normally but the peer saw no end of stream within {Wall.guard:g} s",
                    received_bytes=len(got))
            else:
                bad("after disconnect() the peer's stream ended with an error (a connection reset), not with a clean end of "
                    "stream (every byte written had been received)", peer_stream_ended_with=ending, received_bytes=len(got))
        return res
    finally:
        far.close()


def delivery_key(what: str) -> str:
    return re.sub(r"\d+(\.\d+)?", "#", what)


async def delivery_confirmed(corr: Corr, case: dict, info: dict) -> dict | None:
    """Run one delivery case; what its oracle reports is kept only if it shows again in a second run of the same case
    with the guards doubled and the stall watch five times as patient (a defect of the library reproduces, a
    disturbance by the machine does not; the latter is counted in the evidence).  None = no loopback interface."""
    try:
        res = await run_delivery(case)
    except OSError as err:
        note = (f"{'pseudo terminals' if case.get('link') == 'pty' else 'loopback sockets'} unavailable ({type(err).__name__}: "
                f"{err}); delivery over a real connection of that kind not exercised")
        if note not in corr.notes:
            corr.notes.append(note)
        return None
    if res["violations"]:
        old = (Wall.guard, Wall.stall)
        Wall.guard, Wall.stall = Wall.guard * 2, Wall.stall * 5
        try:
            again = await run_delivery(case)
        except OSError:
            again = {"violations": []}
        finally:
            Wall.guard, Wall.stall = old
        seen = {delivery_key(w) for w, _ in again["violations"]}
        for what, kw in res["violations"]:
            if delivery_key(what) in seen:
                corr.violate(what, {**info, "delivery": case, "scenario": delivery_text(case),
                                    "steps": res.get("steps"), **kw, "shown_again_on_a_second_run": True})
            else:
                corr.count("delivery:unconfirmed-wall-clock-observation")
                corr.notes.append("delivery: an observation did not show again when the case was run a second time with "
                                  "relaxed timing; not reported: " + what[:160])
    return res


# (lines, pad width); a line of width w is about 1.5 w + 20 bytes.  A loopback peer that does not read absorbs 3 - 4 MB
# (its receive buffer + the client's send buffer, which the OS grows to net.ipv4.tcp_wmem's maximum) before the
# client's drain() has to wait: the two largest volumes are beyond that (the last one in lines of 150 kB, with which
# the final write() sometimes returns while asyncio still holds a remainder that only disconnect() can flush)
D_VOLUMES_QUICK = [(0, 0), (1, 0), (5, 8), (200, 8), (300, 1000), (2000, 1000), (1, 300000), (5000, 1000), (60, 100000)]
D_VOLUMES_PTY = [(1, 0), (200, 8), (60, 1000)]      # a pseudo terminal takes 4 kB at a time: smaller volumes
D_VOLUMES_THOROUGH = [(2, 40), (40, 0), (1000, 0), (50, 200), (64, 1004), (1200, 500), (4000, 1000), (3, 60000),
                      (1, 2000000), (20000, 8)]


def delivery_cases(rng, tier: str) -> list[tuple[dict, dict]]:
    """(case, info).  Quick: every volume of D_VOLUMES_QUICK (no line, one line ... about 9 MB; lines of 20 B ... 450 kB) twice,
    with a rotating peer (prompt / slow / late x default / small receive buffer; some with a greeting), and three small
    volumes over a pseudo terminal.  Thorough: every volume (also D_VOLUMES_THOROUGH) x every peer policy x receive
    buffers {default, 2304 (the minimum), 4096, 65536}, more pseudo-terminal cases, and random cases."""
    out: list[tuple[dict, dict]] = []

    def peer(mode: str, rcvbuf, total: int, after: float = 0.0) -> dict:
        p = {"mode": mode, "rcvbuf": rcvbuf, "after": after}
        if mode == "slow":
            p["chunk"] = max(rng.choice([512, 4096, 16384]), total // 100)
            p["pause"] = 0.001
        return p

    def add(source: str, count: int, width: int, mode: str, rcvbuf, greeting: bool, after: float = 0.0) -> None:
        total = count * (width + 20)
        out.append(({"link": "tcp", "lines": {"count": count, "width": width}, "peer": peer(mode, rcvbuf, total, after),
                     "greeting": greeting}, {"source": "delivery:" + source}))

    def add_pty(source: str, count: int, width: int, mode: str, greeting: bool) -> None:
        total = count * (width + 20)
        out.append(({"link": "pty", "lines": {"count": count, "width": width}, "peer": peer(mode, None, total),
                     "greeting": greeting}, {"source": "delivery:" + source}))

    modes = ["late", "prompt", "slow"]
    combos = [(m, b) for b in (4096, None) for m in modes]
    k = rng.randrange(30)
    for count, width in D_VOLUMES_QUICK:
        for _ in range(2):
            mode, rcvbuf = combos[k % 6]
            add("grid", count, width, mode, rcvbuf, greeting=(k % 5 == 0), after=0.05 if k % 7 == 3 else 0.0)
            k += 1
    for j, (count, width) in enumerate(D_VOLUMES_PTY):
        add_pty("serial", count, width, modes[(k + j) % 3], greeting=((k + j) % 4 == 0))
    if tier != "quick":
        for count, width in [*D_VOLUMES_PTY, (0, 0), (40, 0), (1000, 0), (1, 100000), (300, 1000)]:
            for mode in modes:
                add_pty("serial-sweep", count, width, mode, greeting=(k % 3 == 0))
                k += 1
        for count, width in [*D_VOLUMES_QUICK, *D_VOLUMES_THOROUGH]:
            for mode in modes:
                for rcvbuf in (None, 2304, 4096, 65536):
                    add("sweep", count, width, mode, rcvbuf, greeting=(k % 3 == 0), after=0.05 if k % 4 == 1 else 0.0)
                    k += 1
        for _ in range(60):
            width = rng.choice([0, 0, 8, 30, 100, 1000, 5000])
            count = rng.randint(1, max(1, min(5000, 3000000 // (width + 20))))
            add("random", count, width, rng.choice(modes), rng.choice([None, 2304, 4096, 16384, 65536, 262144]),
                greeting=rng.random() < 0.3, after=rng.choice([0.0, 0.0, 0.02, 0.2]))
    return out


def delivery_model_ops(case: dict, res: dict) -> tuple[list[str], list[str]] | None:
    """A small delivery case read as an operation list of the model: the connection's stream = what the peer received."""
    lines = delivery_lines(case["lines"])
    if case.get("greeting") or sum(len(x) for x in lines) > 2000 or "received" not in res or res["violations"]:
        return None
    steps = res.get("steps", {})
    ops = [f"snew {2 ** 16}", *[f"write {enc(x)} -" for x in lines], "disc -", "out"]
    obs = ["ok", *["ok"] * res["writes_returned"], steps.get("disconnect", "?"),
           f"out {hexb(res['received'])} closed={1 if res.get('ending') == 'eof' else 0}"]
    return (ops, obs) if len(ops) == len(obs) else None


def replay(case: dict) -> int:
    """Re-execute a recorded delivery case (`case["delivery"]`) or pre-connection case (`case["preconnection"]`) on the
    implementation."""
    if "preconnection" in case:
        return replay_preconnection(case)
    d = case["delivery"]
    print("scenario:", delivery_text(d))

    async def main() -> dict:
        return await run_delivery(d)

    res = asyncio.run(main())
    print("steps:", res.get("steps"))
    print(f"writes returned normally: {res.get('writes_returned')} ({res.get('written_bytes')} bytes); the peer received "
          f"{res.get('received_bytes')} bytes; its stream ended with: {res.get('ending')}")
    for what, kw in res["violations"]:
        print("  VIOLATED:", what)
        for k, v in kw.items():
            print(f"     {k}: {v}")
    print("reproduced" if res["violations"] else "NOT reproduced: the oracle holds on this run")
    return 0


# ---- (g) the concrete transports while no connection exists -------------------------------------
#
# C17: "a failed connection attempt ... surfaces as a transport error, using the transport before it was connected
# raises a transport error, and disconnecting absorbs OS-level errors" - said of the serial and the TCP transport, i.e.
# of objects made by `TCPTransport(host, port)` / `SerialTransport(port, baud)` themselves, in every state in which no
# connection exists.  A pre-connection case is ONE such object (constructed with positional arguments, with keywords or
# with the defaults) and a list of calls on it, each awaited before the next:
#   ["connect", how]   how = "opens"                the open function returns a connection (the harness's reader/writer)
#                          | a class of CONNECT_FAULTS  the open function raises it (at every attempt during this call)
#                          | "cancelled"            the open function stays pending, the caller's task is cancelled
#                          | "timeout"              the open function stays pending, the caller's `asyncio.timeout` expires
#                          | "os"                   the REAL open function against the real OS: a loopback TCP port on which
#                                                   nothing listens / a serial device that does not exist
#   ["read"]  ["write"]  ["disconnect"]
# The list is a state (fresh; a connect that failed in one of these ways; disconnect; disconnect, then a failed connect;
# and the same two after a connection that was opened and disconnected) followed by EVERY sequence of <= 3 calls over
# {read, write, disconnect, connect that opens, connect that fails}.  The open functions are the module-level ones the
# concrete classes call (`asyncio.open_connection`, `transport.serial.open_serial_connection`: the seams the library's
# own tests patch); nothing of the transport object is touched or looked at, every call is judged by its outcome:
# while the object never had a connection, read/write raise a transport error, disconnect returns normally, a connect
# whose open function raises an OSError-family class raises a transport error, a cancelled one propagates the
# cancellation; once a connect opened a connection it delivers the line the harness feeds, takes a write and
# disconnect closes the writer.  What read/write/disconnect do AFTER such a disconnect is outside the property (see
# run_c17): those calls are made (they must not make the harness fall over) and not judged; a later connect is.
# Each case is also the operation list `tnew, conn/read/write/disc ...` of the model, compared op by op up to the first
# call that is not judged.  The cases run on the event loop with the virtual clock (a connect that pauses before it gives
# up costs nothing, one that never ends is given up when nothing else can happen); only those with an "os" connect need
# the real clock: there the real OS is a state with follow-ups of <= 1 call, and all of them together get P_OS_BUDGET s.

P_TEXT = "1;2;1;0;0;5\n"
P_LINE = b"ok\n"
P_LIMIT = 64
P_MISSING_DEVICE = "/dev/ttyVERIF-does-not-exist"
P_OS_BUDGET = 5.0        # real seconds for all the cases that go to the operating system together
P_ARGS = {"tcp": ("gw.example", 5004), "serial": ("/dev/ttyFAKE", 57600)}
P_DEFAULTS = {"tcp": 5003, "serial": 115200}


class Seams:
    """The module-level open functions of the concrete transports replaced by `fn` for the duration."""

    def __init__(self, fn) -> None:
        self.fn = fn

    def __enter__(self):
        self.saved = asyncio.open_connection, serial_mod.open_serial_connection
        asyncio.open_connection = self.fn
        serial_mod.open_serial_connection = self.fn

    def __exit__(self, *a):
        asyncio.open_connection, serial_mod.open_serial_connection = self.saved


def free_loopback_port():
    """A loopback TCP port on which nothing listens (None if the loopback interface cannot be had)."""
    try:
        s = socket.socket(socket.AF_INET, socket.SOCK_STREAM)
        s.bind(("127.0.0.1", 0))
        port = s.getsockname()[1]
        s.close()
        return port
    except OSError:
        return None


def pre_text(case: dict) -> str:
    cls = "TCPTransport" if case["cls"] == "tcp" else "SerialTransport"
    calls = ", ".join(s[0] + (f"[{s[1]}]" if len(s) > 1 else "") for s in case["steps"])
    return f"{cls} constructed with {case['ctor']} arguments; then, each awaited: {calls}"


def pre_uses_os(case: dict) -> bool:
    return any(s[0] == "connect" and s[1] == "os" for s in case["steps"])


def pre_loop_factory(case: dict):
    """Cases that go to the operating system need the real clock; all others run on the virtual one."""
    return None if pre_uses_os(case) else VirtualTimeLoop


def pre_construct(case: dict, os_port):
    """The object of the case and the arguments its open function must be given."""
    uses_os = pre_uses_os(case)
    if case["cls"] == "tcp":
        host, port = ("127.0.0.1", os_port) if uses_os else P_ARGS["tcp"]
        if case["ctor"] == "positional":
            return TCPTransport(host, port), {"host": host, "port": port}
        if case["ctor"] == "keyword":
            return TCPTransport(host=host, port=port), {"host": host, "port": port}
        return TCPTransport(host), {"host": host, "port": P_DEFAULTS["tcp"]}
    dev, baud = (P_MISSING_DEVICE if uses_os else P_ARGS["serial"][0]), P_ARGS["serial"][1]
    if case["ctor"] == "positional":
        return SerialTransport(dev, baud), {"url": dev, "baudrate": baud}
    if case["ctor"] == "keyword":
        return SerialTransport(port=dev, baud=baud), {"url": dev, "baudrate": baud}
    return SerialTransport(dev), {"url": dev, "baudrate": P_DEFAULTS["serial"]}


async def run_preconnection(case: dict, os_port=None) -> dict:
    """One pre-connection case on the real class.  Returns {"obs": one observation per step, "model": (lines, expected
    observations) of the judged prefix, "violations": [(what, details)], "skipped": reason or None}."""
    res: dict = {"obs": [], "violations": [], "skipped": None}
    steps = case["steps"]
    obs: list[str] = res["obs"]
    mlines, mobs = ["tnew"], ["ok"]
    res["model"] = (mlines, mobs)
    judged = True                      # False from the first call that the property does not speak about

    def bad(what: str, **kw) -> None:
        res["violations"].append((what, {"step": len(obs), "call": steps[len(obs) - 1] if obs else None, **kw}))

    def model(line: str, o: str) -> None:
        if judged:
            mlines.append(line)
            mobs.append(o)

    patience = Wall.guard if pre_uses_os(case) else HORIZON      # real seconds / seconds of the virtual clock

    async def direct(coro) -> str:
        """A call that the property gives an outcome: whatever it does is that outcome.  It may take time (a library
        that pauses and tries again, that needs some turns of the loop); on the virtual clock that costs nothing, and a call
        that never ends is given up when nothing else is left to happen ("hang": neither of the outcomes the property allows)."""
        task = asyncio.ensure_future(coro)
        await asyncio.wait({task}, timeout=patience)
        if not task.done():
            task.cancel()
            await asyncio.wait({task})
            return "hang"
        return outcome_of(task)[0]

    async def bounded(coro) -> str:
        """A call the property does not speak about (after a disconnect; it may wait for the closed stream for ever): a few
        turns of the loop, then given up."""
        task = asyncio.ensure_future(coro)
        for _ in range(YIELDS):
            if task.done():
                break
            await asyncio.sleep(0)
        if not task.done():
            task.cancel()
            await asyncio.wait({task})
            return "wait"
        return outcome_of(task)[0]

    if pre_uses_os(case) and case["cls"] == "tcp" and os_port is None:
        os_port = free_loopback_port()
        if os_port is None:
            res["skipped"] = "loopback sockets unavailable"
            return res
    try:
        t, want_kwargs = pre_construct(case, os_port)
    except Exception as e:  # noqa: BLE001
        res["obs"].append(classify(e))
        bad("the transport class could not be constructed the documented way", got=classify(e), ctor=case["ctor"])
        return res
    phase = "never"                    # never | connected | closed (a connection existed and was disconnected)
    pair = None
    pairs: list[tuple] = []
    accepted = b""
    for s in steps:
        kind = s[0]
        if kind == "connect":
            how = s[1]
            if phase == "connected":
                raise ValueError("a pre-connection case does not connect a connected transport")
            seen: dict = {}
            if how == "os":
                o = await direct(t.connect())
                obs.append(o)
                model(f"conn {P_LIMIT} OSError", o)
                if o == "hang":
                    bad("connect neither returned nor raised although the operating system refused the connection at once")
                    return res
                if o == "ok":
                    res["skipped"] = "the operating system opened a connection that should not exist"
                    await direct(t.disconnect())
                    return res
                if not is_transport_error(o):
                    bad("a connection attempt that the operating system refused did not surface as a transport error", got=o)
                continue
            if how in ("cancelled", "timeout"):
                script = SlowOpen(None, None, P_LIMIT, lambda text: None)

                async def probe() -> None:
                    try:
                        await t.connect()
                    except BaseException as e:  # noqa: BLE001
                        seen["exc"] = e
                        raise

                async def with_timeout() -> None:
                    async with asyncio.timeout(0):
                        await probe()

                with Seams(lambda **kw: script.attempt(kw)):
                    task = asyncio.ensure_future(probe() if how == "cancelled" else with_timeout())
                    for _ in range(YIELDS):
                        await asyncio.sleep(0)
                    if how == "cancelled":
                        task.cancel()
                    await asyncio.wait({task}, timeout=patience)
                    if not task.done():
                        task.cancel()
                        await asyncio.wait({task})
                        o = "hang"
                    else:
                        outcome_of(task)           # (retrieves the task's exception: the caller's own TimeoutError)
                        o = classify(seen["exc"]) if "exc" in seen else "ok"
                obs.append(o)
                model(f"conn {P_LIMIT} CancelledError", o)
                if o == "hang":
                    bad("connect neither returned nor raised although its caller gave it up")
                    return res
                if script.started and o != "foreign CancelledError":
                    bad("connect was given up by its caller while the open function was pending and did not propagate the "
                        "cancellation", got=o)
                elif not script.started and o == "ok":
                    bad("connect returned normally although no connection was opened", got=o)
                continue
            Opening.limit, Opening.last_kwargs, Opening.last_pair, Opening.script = P_LIMIT, None, None, None
            Opening.fault = None

            async def refusing(**kw):
                """The peer is in this state for the whole call: EVERY attempt to open the connection ends like this (a
                library that tries again gets the same answer; what it makes of the last one is connect's outcome)."""
                Opening.last_kwargs = kw
                raise CONNECT_FAULTS[how]("injected")

            with Seams((lambda **kw: fake_open(**kw)) if how == "opens" else refusing):
                o = await direct(t.connect())
            obs.append(o)
            model(f"conn {P_LIMIT} {'-' if how == 'opens' else vocab_name(CONNECT_FAULTS[how])}", o)
            if o == "hang":
                bad("connect neither returned nor raised although the open function answers at once")
                return res
            if Opening.last_kwargs is not None and Opening.last_kwargs != want_kwargs:
                bad("the configured address was not passed to the open function", got=repr(Opening.last_kwargs),
                    want=repr(want_kwargs))
            if how == "opens":
                if o != "ok" or Opening.last_pair is None:
                    bad("connect did not succeed although the open function returned a connection", got=o)
                    return res
                phase, pair, accepted = "connected", Opening.last_pair, b""
                pairs.append(pair)
            elif how in CONNECT_IO and not is_transport_error(o):
                bad("a failed connection attempt did not surface as a transport error", fault=how, got=o)
            elif o == "ok":
                bad("connect returned normally although every attempt to open the connection failed", fault=how, got=o)
                return res
        elif kind == "read":
            if phase == "connected":
                pair[0].feed_data(P_LINE)
                model("feed " + hexb(P_LINE), "ok")
                o = await direct(t.read())
                obs.append(o)
                model("read", o)
                if o != "line " + enc(P_LINE.decode()):
                    bad("read on the connection just opened did not return the line that arrived", got=o)
            elif phase == "never":
                o = await direct(t.read())
                obs.append(o)
                model("read", o)
                if not is_transport_error(o):
                    bad("read on a transport that was never connected did not raise a transport error", got=o)
            else:
                judged = False
                obs.append(await bounded(t.read()))
        elif kind == "write":
            if phase == "connected":
                o = await direct(t.write(P_TEXT))
                obs.append(o)
                model(f"write {enc(P_TEXT)} -", o)
                accepted += P_TEXT.encode()
                if o != "ok" or bytes(pair[1].data) != accepted:
                    bad("write on the connection just opened did not put exactly the line's bytes on the stream", got=o,
                        stream=bytes(pair[1].data).hex())
            elif phase == "never":
                o = await direct(t.write(P_TEXT))
                obs.append(o)
                model(f"write {enc(P_TEXT)} -", o)
                if not is_transport_error(o):
                    bad("write on a transport that was never connected did not raise a transport error", got=o)
            else:
                judged = False
                obs.append(await bounded(t.write(P_TEXT)))
        elif kind == "disconnect":
            if phase == "connected":
                o = await direct(t.disconnect())
                obs.append(o)
                model("disc -", o)
                if o != "ok" or not pair[1].closed:
                    bad("disconnect of the connection just opened did not return normally with the writer closed", got=o)
                phase = "closed"
            elif phase == "never":
                o = await direct(t.disconnect())
                obs.append(o)
                model("disc -", o)
                if o != "ok":
                    bad("disconnect of a transport that was never connected did not return normally", got=o)
            else:
                judged = False
                obs.append(await bounded(t.disconnect()))
        else:
            raise ValueError(f"unknown step {s!r}")
    for _, w in pairs:
        w.release_stand_ins()
    return res


def preconnection_cases(tier: str) -> list[tuple[dict, dict]]:
    """(case, info): every state x every follow-up of <= 3 calls x both classes (see the section comment)."""
    classes = list(CONNECT_IO) if tier != "quick" else list(IO_FAULTS)
    hows = [*classes, *CONNECT_OTHER, "cancelled", "timeout", "os"]
    states: list[tuple[str, list]] = [("fresh", []), ("disconnected", [["disconnect"]]),
                                      ("closed", [["connect", "opens"], ["disconnect"]])]
    for h in hows:
        states.append(("failed-connect", [["connect", h]]))
        states.append(("disconnected+failed-connect", [["disconnect"], ["connect", h]]))
        states.append(("closed+failed-connect", [["connect", "opens"], ["disconnect"], ["connect", h]]))
    out: list[tuple[dict, dict]] = []
    k = 0
    follow_fail = [*classes, "cancelled", "timeout"]
    alphabet = [["read"], ["write"], ["disconnect"], ["connect", "opens"], ["connect", None]]
    follows: list[list] = [[]]
    layer: list[list] = [[]]
    for _ in range(3):
        layer = [f + [a] for f in layer for a in alphabet]
        follows.extend(layer)
    ctors = ["positional", "keyword", "positional", "defaults"]
    for cls in ("tcp", "serial"):
        for label, prefix in states:
            for f in follows:
                if len(f) > 1 and any(s_[-1] == "os" for s_ in prefix):
                    continue        # the real OS is one more way for an attempt to fail: short follow-ups, real time
                steps, connected, ok = [list(s) for s in prefix], False, True
                for a in f:
                    a = list(a)
                    if a[0] == "connect":
                        if connected:
                            ok = False                  # connecting a connected transport: not a pre-connection case
                            break
                        if a[1] is None:
                            a[1] = follow_fail[k % len(follow_fail)]
                            k += 1
                        connected = a[1] == "opens"
                    elif a[0] == "disconnect":
                        connected = False
                    steps.append(a)
                if not ok:
                    continue
                out.append(({"cls": cls, "ctor": ctors[len(out) % len(ctors)], "steps": steps},
                            {"source": "preconnection:" + label}))
    return out


def replay_preconnection(case: dict) -> int:
    d = case["preconnection"]
    print("scenario:", pre_text(d))

    async def main() -> dict:
        return await run_preconnection(d)

    res = asyncio.run(main(), loop_factory=pre_loop_factory(d))
    if res["skipped"]:
        print("not executed:", res["skipped"])
    for s, o in zip(d["steps"], res["obs"]):
        print(f"   {' '.join(str(x) for x in s):<28} -> {o}")
    for what, kw in res["violations"]:
        print("  VIOLATED:", what)
        for k, v in kw.items():
            print(f"     {k}: {v}")
    print("reproduced" if res["violations"] else "NOT reproduced: the oracle holds on this run")
    return 0


# ---- offline checks of the concrete transports' own code --------------------------------------


async def concrete_checks_real(corr: Corr) -> None:
    """`TCPTransport`/`SerialTransport._open_connection` against the real OS, as far as that works offline."""
    for name, cls in (("TCPTransport", TCPTransport), ("SerialTransport", SerialTransport)):
        for meth in ("connect", "disconnect", "read", "write"):
            if getattr(cls, meth) is not getattr(StreamTransport, meth):
                corr.notes.append(f"{name}.{meth} overrides StreamTransport.{meth}: the model describes the latter")
    if tr_mod.TERMINATOR != b"\n":
        corr.violate("TERMINATOR is not a newline", {"terminator": repr(tr_mod.TERMINATOR)})
    async def call(coro, seconds: float = 10.0) -> str:
        """Every call on an object of the library is an outcome to be judged, whatever it raises."""
        task = asyncio.ensure_future(coro)
        await asyncio.wait({task}, timeout=seconds)
        if not task.done():
            task.cancel()
            await asyncio.wait({task})
            return "hang"
        return outcome_of(task)[0]

    # a TCP port on which nothing listens, a serial device that does not exist: the attempt fails with a transport error,
    # after it the transport is what it was before (never connected): read/write raise transport errors, disconnect returns
    port = free_loopback_port()
    if port is None:
        corr.notes.append("loopback sockets unavailable; real TCP refusal not exercised")
    for name, t, where in (("tcp-refused", TCPTransport("127.0.0.1", port) if port is not None else None,
                            {"host": "127.0.0.1", "port": port}),
                           ("serial-missing-device", SerialTransport(P_MISSING_DEVICE, 9600), {"device": P_MISSING_DEVICE})):
        if t is None:
            continue
        calls = ["connect"]
        o = await call(t.connect())
        if o == "ok":
            corr.notes.append(f"{name}: the connection attempt succeeded (something listens there?)")
            o = await call(t.disconnect())
            if o != "ok":
                corr.violate("disconnect of a connection just opened did not return normally", {"got": o, **where, "calls": calls})
            continue
        if is_transport_error(o):
            corr.count(f"real:{name}->TransportError")
        else:
            corr.violate("a connection attempt that the operating system refused did not surface as a transport error",
                         {"got": o, **where, "calls": list(calls)})
        for what, make in (("read", t.read), ("write", lambda: t.write("x")), ("disconnect", t.disconnect)):
            calls.append(what)
            o = await call(make())
            if what == "disconnect":
                if o != "ok":
                    corr.violate("disconnect of a transport whose connection attempt failed did not return normally",
                                 {"got": o, **where, "calls": list(calls)})
            elif is_transport_error(o):
                corr.count("real:not-connected->TransportError")
            else:
                corr.violate(f"{what} on a transport whose connection attempt failed did not raise a transport error",
                             {"got": o, **where, "calls": list(calls)})
    # a real TCP round trip over loopback, if available
    try:
        got: list[bytes] = []

        async def handler(r, w):
            w.write(b"0;255;3;0;14;hi\n\xff\xfe\nlast")
            await w.drain()
            got.append(await r.readline())
            w.close()

        server = await asyncio.start_server(handler, "127.0.0.1", 0)
    except OSError as err:
        corr.notes.append(f"loopback server unavailable ({err}); real TCP round trip not exercised")
    else:
        port = server.sockets[0].getsockname()[1]
        t = TCPTransport("127.0.0.1", port)
        res = []
        try:
            steps = [await call(t.connect()), await call(t.write("1;2;1;0;0;5\n"))]
            for _ in range(4):
                o = await call(t.read())
                res.append("err" if is_transport_error(o) else o)
            steps.append(await call(t.disconnect()))
            want = ["line " + enc("0;255;3;0;14;hi\n"), "err", "err", "err"]
            if steps != ["ok", "ok", "ok"] or res != want or got != [b"1;2;1;0;0;5\n"]:
                corr.violate("real TCP round trip over loopback differs from the stream's lines",
                             {"connect/write/disconnect": repr(steps), "reads": repr(res), "want": repr(want),
                              "server_got": repr(got)})
            else:
                corr.count("real:tcp-loopback-roundtrip")
        finally:
            server.close()
            await server.wait_closed()


# ---- the run ----------------------------------------------------------------------------------


def run_c17(ctx) -> Corr:
    corr = Corr("C17", "operation lists on the real StreamTransport code (direct subclass, TCPTransport, SerialTransport "
                "with fake open functions; rotating) over a real asyncio.StreamReader(limit) and a recording writer: "
                "(a) 29 (thorough 34) hand-picked + 24 (thorough 120) random byte strings of length <= 8 (thorough <= 10) x ALL chunkings x "
                "limits {2, 64} x read policies (eager, early, random, lazy); (b) long streams (gateway traffic with "
                "UTF-8, mid-line ends, corrupted bytes, lines of limit-1/limit/limit+1 bytes, binary noise, the default "
                "2**16 limit) x random chunkings; (c) every fault position (connect, reader exception, write, drain, "
                "close, wait_closed) x 8 OSError-family + 2 other classes, plus random transport lives; each read/"
                "write/connect/disconnect outcome is checked against the property restated in Python, the whole "
                "observation list against the Lean model op by op, and every pure framing case additionally as a "
                "schedule against the model's Transport.run (the function the theorems quantify over); (d) concurrent use of one "
                "connection whose writer's drain() is gated by the harness: every sequence of <= 5 (thorough 6) steps over "
                "{start a write, start a disconnect, clean connection loss, loss with an OSError-family exception, block "
                "the stream, release it} containing a write, from a blocked and from a free stream, a third with a read in "
                "flight, plus 1500 (thorough 15000) random longer lives with up to 8 writes; judged by the property alone "
                "(each write returns or raises a transport error, the stream holds the lines of the successful writes "
                "whole and in call order, disconnect returns, nothing hangs), pure-contention cases also against the "
                "model as sequential writes; (e) connection attempts that take time, on an event loop with a virtual clock: every "
                "attempt of the open function of a fresh transport (all three flavours) stays pending for 0 s .. 10**6 s (29 grid "
                "values and log-uniform random ones) or for ever, then opens the connection or raises one of 21 OSError-family "
                "classes or 2 others, the caller's task cancelled before connect runs / half-way / just before the answer / never; "
                "connect must return with the opened streams installed or raise a transport error (CancelledError only for a "
                "cancelled caller), then the connection must deliver lines and take writes, or the unconnected transport must "
                "raise transport errors and a prompt second attempt must succeed; compared with the model's conn as well; (f) the real "
                "TCPTransport over real loopback TCP connections (and the real SerialTransport on a pseudo terminal): connect, 0 .. 5000 "
                "(thorough 20000) writes of 20 B .. 450 kB (thorough 3 MB), up to 9 MB in all (more than a peer that does not read "
                "absorbs), disconnect, with a peer that reads promptly / slowly / only after disconnect() returned and has the "
                "default or a small receive buffer: the peer must receive exactly the bytes written, in order, then a clean end "
                "of stream (findings confirmed by a second run); (g) one TCPTransport(host, port) / SerialTransport(port, baud) object "
                "(positional, keyword, default arguments) in every state without a connection (fresh; connect failed with an "
                "OSError-family class, another class, the caller cancelled, the caller's timeout, the real OS; disconnected; "
                "disconnected then failed connect; the same after a real connection was disconnected) x every sequence of <= 3 "
                "calls over {read, write, disconnect, connect that opens, connect that fails}: never connected => read/write raise "
                "transport errors, disconnect returns, failed connects are transport errors; compared with the model too. non-trivial = distinct (limit, ops, observations) with >= 2 "
                "chunks, or an error outcome, or a fault; for (d): overlapping writes, or a disconnect/loss in the case")
    tier = ctx.tier
    rng = lib.rng_for(ctx.seed, "c17")
    cases: list[tuple[list[tuple], dict]] = []      # (ops, info)

    for c in lib.load_corpus("C17"):
        cases.append((corpus_ops(c), {"source": "corpus:" + c["_file"]}))

    # (a) short streams, every chunking
    max_len = 8 if tier == "quick" else 10
    shorts = list(SHORT_STREAMS) + (SHORT_STREAMS_THOROUGH if tier != "quick" else [])
    alphabet = [0x61, 0x62, 0x0a, 0x0a, 0xff, 0xc3, 0xa9]
    for _ in range(24 if tier == "quick" else 120):
        shorts.append(bytes(rng.choice(alphabet) for _ in range(rng.randint(3, max_len if tier == "quick" else 9))))
    for data in shorts:
        if len(data) > max_len:
            continue
        corr.count(f"short-stream-len:{len(data)}")
        for limit in SHORT_LIMITS:
            for chunks in chunkings(data):
                policies = ["eager", "random"] if len(chunks) > 1 else ["eager", "early", "lazy", "random"]
                if len(chunks) in (2, 3):
                    policies.append("early")
                for pol in policies:
                    cases.append((framing_ops(limit, chunks, pol, rng),
                                  {"source": "short", "stream": data.hex(), "limit": limit, "policy": pol,
                                   "chunks": [len(c) for c in chunks]}))
    corr.exhaustive = True     # part (a) is complete for the listed streams
    # (b) long streams, random chunkings
    for data, limit, label in long_streams(rng, tier):
        for _ in range(4 if tier == "quick" else 12):
            chunks = random_chunking(rng, data, rng.choice([1, 3, 7, 20, 60]))
            pol = rng.choice(["eager", "early", "random", "lazy"])
            cases.append((framing_ops(limit, chunks, pol, rng),
                          {"source": "long:" + label, "stream": data.hex(), "limit": limit, "policy": pol,
                           "chunks": [len(c) for c in chunks]}))
    for data, limit, label in default_limit_streams():
        for _ in range(1 if tier == "quick" else 3):
            chunks = random_chunking(rng, data, rng.choice([4096, 20000]))
            cases.append((framing_ops(limit, chunks, "eager", rng),
                          {"source": "long:" + label, "stream_len": len(data), "limit": limit, "policy": "eager",
                           "chunks": [len(c) for c in chunks]}))
    # (c) faults
    for ops in fault_grid():
        cases.append((ops, {"source": "fault-grid"}))
    for _ in range(1500 if tier == "quick" else 20000):
        cases.append((fault_case(rng), {"source": "fault-random"}))
    # The property says what happens before a connection exists, while it exists, and that disconnecting absorbs OS-level
    # errors; it says nothing about reading from, writing to or disconnecting a transport AFTER it was disconnected (an
    # implementation may keep the closed stream objects, as today, or forget them and answer "not connected").  Such
    # operations are therefore left out of every sequential case: after a `disc` only observations of the harness's own
    # stream (`out`) are kept, until a new connection is opened.
    dropped_after_disconnect = 0
    for idx, (ops, info) in enumerate(cases):
        kept, after = [], False
        for op in ops:
            if op[0] in ("tnew", "snew", "conn"):
                after = False
            elif after and op[0] != "out":
                dropped_after_disconnect += 1
                continue
            kept.append(op)
            if op[0] == "disc":
                after = True
        cases[idx] = (kept, info)
    corr.count("operations on a disconnected transport left out (outside the property's quantifier)", dropped_after_disconnect)
    # (d) concurrent use of one connection (own generator stream: the cases above stay what they were)
    ccases = concurrent_cases(lib.rng_for(ctx.seed, "c17-concurrent"), tier)
    cresults: list[tuple] = []

    # ---- run on the implementation (one event loop for everything)
    saved_tcp, saved_serial = tcp_mod.asyncio.open_connection, serial_mod.open_serial_connection
    all_obs: list[list[str]] = []

    class Patched:
        """The concrete transports' open functions replaced by `fake_open` for the duration."""

        def __enter__(self):
            asyncio.open_connection = lambda **kw: fake_open(**kw)
            serial_mod.open_serial_connection = lambda **kw: fake_open(**kw)

        def __exit__(self, *a):
            asyncio.open_connection = saved_tcp
            serial_mod.open_serial_connection = saved_serial

    n_corpus = sum(1 for _, info in cases if info["source"].startswith("corpus"))

    async def run_cases(lo: int, hi: int) -> None:
        runner = Runner(corr)
        for i in range(lo, hi):
            ops, info = cases[i]
            info = dict(info)
            if "stream" not in info or len(info["stream"]) <= 400:
                info["ops"] = [model_line(o) for o in ops] if len(ops) <= 60 else f"{len(ops)} operations"
            executed, obs = await runner.run_case(ops, i % 3, info)
            cases[i] = (executed, cases[i][1])
            all_obs.append(obs)

    async def run_ccases() -> None:
        for i, (cops, limit, info) in enumerate(ccases):
            cresults.append(await run_concurrent(corr, cops, i % 3, limit,
                                                 {**info, "ops": [cop_text(o) for o in cops]}))

    # (g) the concrete classes while they have no connection (every state x every follow-up of <= 3 calls)
    pcases = preconnection_cases(tier)
    presults: list[dict] = []

    pcases.sort(key=lambda ci: pre_uses_os(ci[0]))         # those on the virtual clock first, then those on the real one
    n_virtual = sum(1 for c, _ in pcases if not pre_uses_os(c))

    async def run_pcases(upto: int) -> None:
        loop = asyncio.get_running_loop()
        os_port = free_loopback_port() if upto > n_virtual else None
        t0 = loop.time()
        while len(presults) < upto and (upto > n_virtual or loop.time() < LOOP_AGE):
            case, info = pcases[len(presults)]
            if upto > n_virtual and loop.time() - t0 > P_OS_BUDGET:
                res = {"obs": [], "violations": [], "model": (["tnew"], ["ok"]),
                       "skipped": "the cases against the real operating system used up their share of real time"}
            else:
                res = await run_preconnection(case, os_port)
            presults.append(res)
            for what, kw in res["violations"]:
                corr.violate(what, {**info, "preconnection": case, "scenario": pre_text(case), "observed": res["obs"], **kw})

    while len(presults) < n_virtual:
        asyncio.run(run_pcases(n_virtual), loop_factory=VirtualTimeLoop)

    async def main() -> None:
        await run_pcases(len(pcases))
        with Patched():
            await run_cases(0, n_corpus)            # the recorded witnesses first
            await run_ccases()
        await concrete_checks_real(corr)
        with Patched():
            await concrete_checks_patched(corr)
            await run_cases(n_corpus, len(cases))

    asyncio.run(main())

    # (e) connection attempts that take time: on event loops with a virtual clock (a fresh one whenever the clock
    # has grown large, see LOOP_AGE)
    scases = slow_connect_cases(lib.rng_for(ctx.seed, "c17-slow-connect"), tier)
    sresults: list[tuple] = []

    async def run_scases() -> None:
        loop = asyncio.get_running_loop()
        with Patched():
            while len(sresults) < len(scases) and loop.time() < LOOP_AGE:
                case, info = scases[len(sresults)]
                sresults.append(await run_slow_connect(corr, case, {**info, "case": dict(case)}))

    while len(sresults) < len(scases):
        asyncio.run(run_scases(), loop_factory=VirtualTimeLoop)

    # (f) real connections: what was written before disconnect() reaches the peer (real time, real sockets; each
    # finding confirmed by a second run of its case)
    dcases = delivery_cases(lib.rng_for(ctx.seed, "c17-delivery"), tier)
    dresults: list[tuple] = []

    async def run_dcases() -> None:
        found = Corr(corr.prop, corr.rule)
        found.notes, found.dist = corr.notes, corr.dist
        for case, info in dcases:
            res = await delivery_confirmed(found, case, info)
            if res is None:
                continue
            dmodel = delivery_model_ops(case, res)
            res.pop("received", None)
            dresults.append((case, info, res, dmodel))
        # the findings that name bytes that were written and did not arrive first (the first one becomes the replay)
        for v in sorted(found.violations, key=lambda v: 0 if "first_difference_at_byte" in v else 1):
            corr.violate(v.pop("what"), v)

    asyncio.run(run_dcases())

    # ---- accounting (the concurrent cases first, so that two of them are among the evidence's samples)
    # concurrent cases; those that are pure contention (writes, block, release only) have a sequential reading:
    # the writes one after the other in call order, which is an operation list of the model
    cmodel: list[tuple[list[str], list[str], dict]] = []
    for (cops, limit, info), (history, wouts, data, overlapped) in zip(ccases, cresults):
        kinds = {o[0] for o in cops}
        corr.count("cases:" + info["source"])
        corr.count(f"concurrent:writes-in-case:{sum(1 for o in cops if o[0] == 'w')}")
        for kd, label in (("d", "disconnect"), ("lose", "connection-loss"), ("r", "read-in-flight")):
            if kd in kinds:
                corr.count("concurrent:with-" + label)
        if overlapped:
            corr.count("concurrent:writes-overlapping")
        for o in wouts:
            corr.count("concurrent:write-outcome:" + " ".join(o.split(" ")[:2]))
        h = hashlib.sha1(repr((cops, limit, history)).encode()).hexdigest()
        show = len(corr.samples) < 2 and len(cops) <= 6 and overlapped and len(kinds) >= 4
        corr.case(h, overlapped or bool(kinds & {"d", "lose"}),
                  {**info, "limit": limit, "history": history, "stream": data.hex()} if show else None)
        if kinds <= {"w", "block", "release"}:
            texts = [o[1] for o in cops if o[0] == "w"]
            cmodel.append(([f"snew {limit}", *[f"write {enc(x)} -" for x in texts], "out"],
                           ["ok", *wouts, f"out {hexb(data)} closed=0"], {**info, "history": history}))
            corr.count("concurrent:compared-with-model-as-sequential-writes")
    corr.notes.append("concurrent cases (source concurrent:*): several write()/disconnect()/read() calls in flight on one "
                      "connection whose drain() is gated by the harness, with a disconnect or a connection loss at every "
                      "point; the Lean model's driver has no operation for a call that is suspended half-way, so these are "
                      "judged by the property's oracle alone (every write returns or raises a transport error, the stream "
                      "holds the lines of the successful writes whole and in call order, disconnect returns normally, "
                      "nothing hangs); only the pure-contention cases (no disconnect, no loss) are also compared with the "
                      "model, read as the same writes one after the other in call order")

    for (case, info), (mlines, sobs, hist) in zip(scases, sresults):
        delay, outcome, cancel_at = case["delay"], case["outcome"], case["cancel_at"]
        corr.count("cases:" + info["source"])
        corr.count("slow-connect:flavour:" + ["direct", "tcp", "serial"][case["flavour"]])
        corr.count("slow-connect:peer-answers-after:" + ("never" if delay is None else "next-turn" if delay == 0 else
                   "<1s" if delay < 1 else "<10s" if delay < 10 else "<1min" if delay < 60 else "<1h" if delay < 3600 else ">=1h"))
        corr.count("slow-connect:open-function:" + ("no-answer" if delay is None else "opens" if outcome is None else
                   "raises-OSError-family" if outcome in CONNECT_IO else "raises-other-class"))
        if outcome is not None:
            corr.count("slow-connect:class:" + outcome)
        if cancel_at is not None:
            corr.count("slow-connect:caller-cancels:" + ("before-connect-runs" if cancel_at == 0 else "while-pending"))
        if len(sobs) > 1:
            corr.count("slow-connect:connect-outcome:" + " ".join(sobs[1].split(" ")[:2]))
        h = hashlib.sha1(repr((sorted(case.items(), key=str), sobs)).encode()).hexdigest()
        show = sum(1 for x in corr.samples if "connect_history" in x) < 2 and bool(delay) and delay >= 10 and \
            (outcome is not None or cancel_at)
        corr.case(h, True, {**info, "case": case, "connect_history": hist, "ops": mlines, "observed": sobs} if show else None)
    corr.notes.append("slow-connect cases (source slow-connect:*): connect() of a fresh DirectTransport / TCPTransport / "
                      "SerialTransport on an event loop with a virtual clock, every attempt of the open function pending for "
                      "0 s .. 10**6 s or for ever before it opens the connection or raises a class of the OSError family (21 "
                      "classes) or one outside it, the caller cancelled before, half-way or just before the answer; judged by "
                      "the property's oracle (connect returns with the opened reader/writer installed or raises a transport "
                      "error, never another class, whenever and however the attempt ends; a cancelled caller sees "
                      "CancelledError; afterwards reads/writes work, or raise transport errors and a prompt new attempt "
                      "succeeds) AND compared with the model: the model has no time, a case is read as `conn <limit> <what the "
                      "open function did>` (the caller's cancellation = the open function raising CancelledError) followed by "
                      "the reads/writes/disconnect of the case")

    for case, info, res, dmodel in dresults:
        total = res.get("written_bytes", 0)
        corr.count("cases:" + info["source"])
        corr.count("delivery:link:" + case.get("link", "tcp"))
        corr.count("delivery:peer:" + case["peer"]["mode"] + ":rcvbuf-" + str(case["peer"].get("rcvbuf") or "default"))
        corr.count("delivery:bytes-written-before-disconnect:" + ("0" if total == 0 else "<1k" if total < 1000 else "<100k"
                   if total < 100000 else "<1M" if total < 10 ** 6 else ">=1M"))
        corr.count("delivery:peer-stream-ended-with:" + str(res.get("ending")))
        if dmodel is not None:
            corr.count("delivery:compared-with-model")
        show = sum(1 for x in corr.samples if "delivery" in x) < 1 and total > 100000
        corr.case(hashlib.sha1(repr(sorted(case.items(), key=str)).encode()).hexdigest(), case["lines"]["count"] > 0,
                  {**info, "delivery": case, "scenario": delivery_text(case), "steps": res.get("steps"),
                   "written_bytes": total, "received_bytes": res.get("received_bytes"), "ending": res.get("ending")}
                  if show else None)
    corr.notes.append("delivery cases (source delivery:*): the real TCPTransport over a real loopback TCP connection - connect, "
                      "writes (none ... some MB), disconnect - to a peer that reads promptly, slowly, or only after the client "
                      "returned from disconnect(), with the default or a small receive buffer; judged by the property's oracle "
                      "(when every call returned normally the peer has received exactly the bytes of the lines, in call order, "
                      "then a clean end of stream); a finding is kept only if it shows again on a second run of its case with "
                      "relaxed guards; small cases are also compared with the model (the connection's stream = what the peer "
                      "received, closed = the peer saw a clean end of stream)")

    pmodel: dict[tuple, list] = {}          # the model's operation list -> the cases that read as it
    for (case, info), res in zip(pcases, presults):
        corr.count("cases:" + info["source"])
        if res["skipped"]:
            corr.count("preconnection:not-executed:" + res["skipped"])
            continue
        corr.count(f"preconnection:{case['cls']}:constructed-with-{case['ctor']}")
        for s_, o in zip(case["steps"], res["obs"]):
            how = "" if s_[0] != "connect" else ":" + (s_[1] if s_[1] in ("opens", "cancelled", "timeout", "os") else
                                                       "raises-OSError-family" if s_[1] in CONNECT_IO else "raises-other-class")
            corr.count(f"preconnection:{s_[0]}{how}->" + " ".join(o.split(" ")[:2 if o.startswith(("err", "foreign")) else 1]))
        show = sum(1 for x in corr.samples if "preconnection" in x) < 1 and len(case["steps"]) >= 4
        corr.case(hashlib.sha1(repr((sorted(case.items()), res["obs"])).encode()).hexdigest(), True,
                  {**info, "preconnection": case, "scenario": pre_text(case), "observed": res["obs"]} if show else None)
        pmodel.setdefault(tuple(res["model"][0]), []).append((case, info, res["model"][1]))
    corr.notes.append("pre-connection cases (source preconnection:*): one TCPTransport(host, port) / SerialTransport(port, baud) "
                      "object (positional, keyword, default arguments), its module-level open function replaced by the harness "
                      "(or the real one against a closed loopback port / a missing device), in every state without a connection "
                      "(fresh; connect failed: every OSError-family class, two others, caller cancelled, caller's timeout, the "
                      "real OS; disconnected; disconnected then failed connect; the same after a connection that was opened and "
                      "disconnected) x every sequence of <= 3 calls over {read, write, disconnect, connect that opens, connect "
                      "that fails}; judged by the property (never connected: read/write raise transport errors, disconnect "
                      "returns, failed connects are transport errors; calls after the disconnect of a real connection are made "
                      "but not judged) and compared with the model op by op over the judged prefix")

    for (ops, info), obs in zip(cases, all_obs):
        src = info["source"].split(":")[0]
        corr.count(f"cases:{src}")
        for o in obs:
            if o.startswith(("line", "wait", "err", "foreign")):
                corr.count("outcome:" + o.split(" ")[0] + (":" + o.split(" ")[1] if o.startswith(("err", "foreign")) else ""))
        nchunks = sum(1 for o in ops if o[0] == "feed")
        nontriv = nchunks >= 2 or any(o.startswith(("err", "foreign")) for o in obs) or src.startswith("fault")
        h = hashlib.sha1(repr((ops, obs)).encode()).hexdigest()
        small = len(ops) <= 14
        corr.case(h, nontriv, {**info, "ops": [model_line(o) for o in ops], "observed": obs} if small else None)

    # ---- the model
    if ctx.model_ok:
        lines = [model_line(o) for ops, _ in cases for o in ops]
        lines += [ln for mlines, _, _ in cmodel for ln in mlines]
        lines += [ln for mlines, _, _ in sresults for ln in mlines]
        j = len(lines)
        lines += [ln for _, _, _, dm in dresults if dm is not None for ln in dm[0]]
        outs = lib.run_model(lines, driver=DRIVER)
        for case, info, res, dm in dresults:
            if dm is None:
                continue
            mo = outs[j:j + len(dm[0])]
            j += len(dm[0])
            if mo != dm[1]:
                corr.disagree("writes and disconnect over a real connection read as the model's operations (stream = what the "
                              "peer received)", {**info, "delivery": case, "model_ops": dm[0][:12], "impl": dm[1][-3:],
                                                 "model": mo[-3:]})
        j = len(lines) - sum(len(mlines) for mlines, _, _ in sresults) - sum(len(dm[0]) for _, _, _, dm in dresults if dm is not None)
        for (case, info), (mlines, sobs, hist) in zip(scases, sresults):
            mo = outs[j:j + len(mlines)]
            j += len(mlines)
            corr.count("slow-connect:compared-with-model")
            if mo != sobs:
                corr.disagree("slow connect read as the model's conn with what the open function did",
                              {**info, "case": case, "connect_history": hist, "model_ops": mlines, "impl": sobs, "model": mo})
        j = sum(len(ops) for ops, _ in cases)
        for mlines, want, info in cmodel:
            mo = outs[j:j + len(mlines)]
            j += len(mlines)
            if mo != want:
                corr.disagree("concurrent writes read as sequential writes in call order",
                              {**info, "model_ops": mlines, "impl": want, "model": mo})
        j = 0
        for (ops, info), obs in zip(cases, all_obs):
            mo = outs[j:j + len(ops)]
            j += len(ops)
            if mo != obs:
                k = next(i for i, (a, b) in enumerate(zip(mo, obs)) if a != b)
                detail = dict(info)
                if len(ops) <= 60:
                    detail["ops"] = [model_line(o) for o in ops]
                corr.disagree("transport observations", {**detail, "first_difference_at_op": k,
                                                         "op": model_line(ops[k])[:200], "impl": obs[k][:200],
                                                         "model": mo[k][:200]})
        # the schedule semantics the theorems are stated about (`Transport.run`), on the framing cases
        scheds = []
        for (ops, info), obs in zip(cases, all_obs):
            sc = schedule_of(ops, obs)
            if sc is not None and sc[1] and sum(len(e) for e in sc[1]) < 100000:
                scheds.append((sc, info))
        plines = [ln for key in pmodel for ln in key]
        outs = lib.run_model([f"sched {lim} {'/'.join(evs)}" for (lim, evs, _), _ in scheds] + plines, driver=DRIVER)
        j = len(scheds)
        for key, users in pmodel.items():
            mo = outs[j:j + len(key)]
            j += len(key)
            for case, info, want in users:
                corr.count("preconnection:compared-with-model")
                if mo != want:
                    corr.disagree("calls on a concrete transport without a connection read as the model's operations",
                                  {**info, "preconnection": case, "scenario": pre_text(case), "model_ops": list(key),
                                   "impl": want, "model": mo})
        for ((lim, evs, results), info), o in zip(scheds, outs):
            got = [] if o == "-" else o.split("|")
            corr.count("schedules-compared-with-Transport.run")
            if got != results:
                corr.disagree("completed reads of the schedule (Transport.run)",
                              {**{k: v for k, v in info.items() if k != "stream" or len(v) <= 400},
                               "schedule": "/".join(evs)[:400], "impl": results[:20], "model": got[:20]})
    return corr


async def concrete_checks_patched(corr: Corr) -> None:
    # defaults are passed through to the open functions
    for tr, want in ((TCPTransport("h"), {"host": "h", "port": 5003}),
                     (SerialTransport("/dev/x"), {"url": "/dev/x", "baudrate": 115200})):
        Opening.fault, Opening.last_kwargs = None, None
        o = await HangGuard.call(tr.connect())
        if o != "ok":
            corr.violate("connect of a transport constructed with default port/baud rate did not succeed although the open "
                         "function returned a connection", {"transport": type(tr).__name__, "got": o})
        elif Opening.last_kwargs != want:
            corr.violate("default port/baud rate not passed to the open function",
                         {"got": repr(Opening.last_kwargs), "want": repr(want)})
        else:
            corr.count("patched:defaults-passed-through")
