"""Input generators shared by the correspondence runs.  Every choice derives from the Random given."""

from __future__ import annotations

import json
import os
import random

from . import lib

with open(os.path.join(lib.VERIF, "tools", "tables.json"), encoding="utf-8") as _f:
    TABLES = json.load(_f)

PY_SPACES = [chr(c) for c in TABLES["py"]["spaces"]]
MAXD = TABLES["py"]["maxStrDigits"]

ID_VALUES = [0, 1, 2, 7, 100, 253, 254, 255]

# text classes for an integer field: (label, text)
INT_TEXTS = [
    ("zero", "0"), ("one", "1"), ("255", "255"), ("256", "256"), ("neg", "-1"), ("negzero", "-0"),
    ("huge", "1" + "0" * 20), ("maxdigits", "9" * MAXD), ("overdigits", "9" * (MAXD + 1)),
    ("zeros-over", "0" * (MAXD + 1)), ("empty", ""), ("alpha", "abc"), ("float", "1.0"), ("exp", "1e2"),
    ("lead-sp", " 1"), ("trail-sp", "1 "), ("plus", "+1"), ("leadzero", "01"), ("under", "1_0"),
    ("dunder", "1__0"), ("lunder", "_1"), ("tunder", "1_"), ("arabic", "١"), ("fullwidth", "１"),
    ("devanagari255", "२५५"), ("true", "True"), ("hex", "0x1"), ("sign-only", "+"),
    ("minus-only", "-"), ("tab", "1\t"), ("fs", "\x1c1"), ("nul", "1\x00"), ("inner-sp", "1 0"),
    ("sign-sp", "- 1"), ("nbsp", "\xa01"), ("ideographic-sp", "　1　"), ("plus-under", "+_1"),
    ("mixed-digits", "1٢"), ("superscript", "²"), ("roman", "Ⅳ"),
]

PAYLOADS = [
    ("empty", ""), ("decimal", "57"), ("float", "20.5"), ("text", "hello world"), ("delims", "55.7;13.0;18"),
    ("only-delim", ";"), ("lead-delim", ";x"), ("many-delims", ";;;;;;;"), ("lead-space", "  x"),
    ("inner-space", "a \t b"), ("nonascii", "température °C"), ("astral", "\U0001f321 ok"),
    ("arabic-digits", "١٢"), ("long", "x" * 300), ("nul", "a\x00b"), ("cr-inside", "a\rb"),
    ("quote", "\"';\\"), ("slash", "a/b/c"), ("hash", "#+/"),
    # text that Unicode normalisation, case folding or line splitting would change: none of it may be touched
    ("combining", "Cafe\u0301 sensor"), ("ohm-sign", "4.7 k\u2126"), ("angstrom", "\u212b"), ("compat", "\ufb01x \u2460 \uff12"),
    ("micro", "\u00b5 vs \u03bc"), ("case", "\u1e9e \u0130 \u0131 STRASSE"), ("bidi", "\u202eabc"), ("zwj", "a\u200db"),
    ("bom", "\ufeffx"), ("nbsp-lead", "\u00a0x"), ("linesep-inside", "first\u2028second"), ("nel-inside", "caf\x85ol\xe9"),
    ("fs-inside", "\x01\x02\x1c\x03"), ("ff-inside", "page1\x0cpage2;x"), ("vt-inside", "a\x0bb"), ("hangul", "\u1112\u1161\u11ab"),
]


def payload(rng: random.Random) -> tuple[str, str]:
    """A payload free of line terminators and trailing whitespace (C01's domain)."""
    if rng.random() < 0.7:
        return rng.choice(PAYLOADS)
    n = rng.randint(1, 12)
    alphabet = "ab;;0159.- \t_/é١\U0001f600"
    s = "".join(rng.choice(alphabet) for _ in range(n)).rstrip()
    return ("random", s)


def is_c01_payload(s: str) -> bool:
    return s == s.rstrip() and "\n" not in s and not lib.has_surrogate(s)


def msg_type(rng: random.Random, version: str, kind: str = "any") -> int:
    v = TABLES["versions"][version]
    r = rng.random()
    if r < 0.5:
        pool = list(v["internal"]) if kind in ("internal", "any") else list(v["stream"])
        return int(rng.choice(pool))
    if r < 0.7:
        return int(rng.choice(list(TABLES["versions"]["2.2"]["internal"])))
    if r < 0.8:
        return rng.choice([-1, -5, 34, 40, 255, 256, 10**20, -(10**20)])
    return rng.randint(0, 60)


def trailing_ws(rng: random.Random) -> str:
    r = rng.random()
    if r < 0.4:
        return "\n"
    if r < 0.5:
        return ""
    if r < 0.6:
        return "\r\n"
    return "".join(rng.choice(PY_SPACES) for _ in range(rng.randint(1, 3)))
