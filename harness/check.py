"""Entry point of every registered check: ./check <Cxx> [--tier quick|thorough] [--replay file].

Steps (DESIGN 3.1): regenerate the tables from /repo's working tree, build the model and the
property's theorems, audit axioms, run the correspondence (implementation vs model vs the
property's oracle), decide, write evidence.  Exit 0 = held, 1 = VIOLATION printed, 2 = infrastructure.
"""

from __future__ import annotations

import argparse
import fcntl
import importlib
import json
import os
import re
import subprocess
import sys
import time
import traceback
from types import SimpleNamespace

from . import lib

LEAN = lib.LEAN
VERIF = lib.VERIF
PY = sys.executable

# property -> (harness module, function, extra Lean modules whose theorems count as obligations)
REGISTRY = {
    "C01": ("codec", "run_c01"),
    "C02": ("codec", "run_c02"),
    "C03": ("gateway", "run_c03"),
    "C04": ("gateway", "run_c04"),
    "C05": ("gateway", "run_c05"),
    "C06": ("gateway", "run_c06"),
    "C07": ("gateway", "run_c07"),
    "C08": ("gateway", "run_c08"),
    "C09": ("flushrace", "run_c09"),
    "C10": ("gateway", "run_c10"),
    "C11": ("gateway", "run_c11"),
    "C12": ("gateway", "run_c12"),
    "C13": ("persist", "run_c13"),
    "C14": ("persist", "run_c14"),
    "C15": ("fileops", "run_c15"),
    "C16": ("lifecycle", "run_c16"),
    "C17": ("stream", "run_c17"),
    "C19": ("gateway", "run_c19"),
    "C18": ("mqtt", "run_c18"),
}

ALLOWED_AXIOMS = {"propext", "Classical.choice", "Quot.sound"}
FORBIDDEN = re.compile(r"\b(sorry|admit|native_decide|bv_decide|implemented_by|unsafe)\b|^\s*axiom\s|maxHeartbeats\s+0\b")

TRUSTED_BASE = [
    "Lean 4 kernel (4.33.0); thorough tier re-checks the .olean files with leanchecker",
    "axioms: subset of {propext, Classical.choice, Quot.sound}, audited per theorem by #print axioms on this run",
    "tools/extract.py: the translator that regenerates Generated/Tables.lean from the live code",
    "tools/translate.py: the translator that regenerates Generated/Bodies.lean (handler bodies, decorators, release loop, "
    "outgoing handlers, version setter, Node methods) from the Python AST; Lemmas/BodiesEq.lean proves them equal to the model's handlers",
    "harness/: differential correspondence between the hand-written model and the implementation (testing, not proof)",
    "modelled, not verified: CPython str/int/float/dict semantics, marshmallow 3.26, awesomeversion, asyncio, aiofiles, aiomqtt",
]


def sh(cmd, cwd=None, timeout=3600, env=None):
    p = subprocess.run(cmd, cwd=cwd, capture_output=True, timeout=timeout, check=False, env=env)
    return p.returncode, p.stdout.decode(errors="replace") + p.stderr.decode(errors="replace")


def strip_comments(text: str) -> str:
    text = re.sub(r"/-.*?-/", lambda m: "\n" * m.group(0).count("\n"), text, flags=re.S)
    return re.sub(r"--.*", "", text)


def lean_sources():
    for root, _, files in os.walk(os.path.join(LEAN, "AioMySensors")):
        for f in files:
            if f.endswith(".lean"):
                yield os.path.join(root, f)
    for f in sorted(os.listdir(LEAN)):
        if f.startswith("Driver") and f.endswith(".lean"):
            yield os.path.join(LEAN, f)


def theorem_spans(path: str):
    """[(name, first line, last line)] of theorem/lemma declarations in a Lean file."""
    with open(path, encoding="utf-8") as f:
        src = strip_comments(f.read()).split("\n")
    starts = []
    for i, line in enumerate(src, 1):
        m = re.match(r"\s*(?:@\[[^\]]*\]\s*)?(?:private\s+|protected\s+)?(theorem|lemma)\s+([^\s:({\[]+)", line)
        if m:
            starts.append((m.group(2), i))
        elif re.match(r"\s*(?:@\[[^\]]*\]\s*)?(?:private\s+|protected\s+|partial\s+|noncomputable\s+)?"
                      r"(def|instance|structure|inductive|abbrev|example|namespace|end|section|open|macro|syntax)\b", line):
            starts.append((None, i))
    spans = []
    for k, (name, line) in enumerate(starts):
        if name is None:
            continue
        end = starts[k + 1][1] - 1 if k + 1 < len(starts) else len(src)
        spans.append((name, line, end))
    return spans


def project_imports(path: str):
    out = []
    with open(path, encoding="utf-8") as f:
        for line in f:
            m = re.match(r"import\s+(AioMySensors\.[\w.]+)", line)
            if m:
                out.append(m.group(1))
    return out


def module_path(mod: str) -> str:
    return os.path.join(LEAN, *mod.split(".")) + ".lean"


def closure(mod: str) -> list[str]:
    seen, todo = [], [mod]
    while todo:
        m = todo.pop()
        if m in seen or not os.path.exists(module_path(m)):
            continue
        seen.append(m)
        todo.extend(project_imports(module_path(m)))
    return seen


def do_replay(prop: str, path: str) -> int:
    """Re-execute the case of a replay file on the implementation (and the model, for gateway histories)."""
    with open(path, encoding="utf-8") as f:
        rep = json.load(f)
    case = rep.get("case") or {}
    if not case and "kind" not in rep and ("hangup" in rep or "churn" in rep):
        case = rep          # a corpus witness of C16 (the bare case)
    print(f"replay of {path}: kind={rep.get('kind')} property={rep.get('property')}")
    if rep.get("kind") == "no-failing-input-found":
        print("no failing input was found; what no longer checks:")
        for u in rep.get("unchecked", []):
            print("  -", u[:400])
        for t in rep.get("failed_theorems", []):
            print("  theorem:", t)
        return 0
    print("what:", case.get("what"))
    if "life" in case:
        from .props import idlife
        idlife.replay(case)
        return 0
    if "history" in case and "older" in case and "newer" in case:
        # a pair case (C19): the same history under the older and the newer version, step by step, with the oracle's
        # own verdict on each step (is it inside the property's domain, judged on the real registry; do the runs agree)
        from . import gw
        from .props import gateway as gprops
        h = gw.Hist.from_json(case["history"])
        a, w = case["older"], case["newer"]
        ia, ib = gw.run_impl_many([gw.Hist(a, h.metric, h.preload, h.ops), gw.Hist(w, h.metric, h.preload, h.ops)])
        view = gprops._c19_forget_sleeping if w == "2.2" and a in ("2.0", "2.1") and case.get("sleeping_flag_excepted") else None
        if case.get("stated_observables_only"):
            view = gprops._c19_stated_only
        first, cut, why = gprops._c19_judge(a, w, h.ops, ia, ib, view)
        for i, op in enumerate(h.ops):
            print(f"step {i + 1}: {op}")
            if gprops._c19_is_cross(a, w):
                out = gprops._c19_out_of_scope(a, op, ia[i]["nodes"])
                print(f"   registry before ({a}): " + ", ".join(f"{k}:{sorted(v['children'])}" for k, v in ia[i]["nodes"].items())
                      + ("   -> inside the domain" if out is None else f"   -> OUTSIDE the domain: {out}"))
            for v, o in ((a, ia[i + 1]), (w, ib[i + 1])):
                print(f"   {v:>4}: {o['out']}  writes={[x for x in o['writes']]}  ibuf={o['ibuf']}  sbuf={o['sbuf']}")
            if gprops._c19_obs(ia[i + 1]) != gprops._c19_obs(ib[i + 1]):
                print("   DIFFERENT" + (" (outside the judged part)" if cut is not None and i >= cut else ""))
        print(f"final state ({a}):", ia[-1]["state"])
        print(f"final state ({w}):", ib[-1]["state"])
        if first is not None:
            print(f"reproduced: versions {a} and {w} differ at step {first} inside the property's domain")
            return 0
        print("NOT reproduced: no difference inside the property's domain"
              + (f" (the history leaves it at step {cut + 1}: {why})" if cut is not None else ""))
        return 0
    if prop == "C13" and ("roundtrip" in case or "session" in case):
        # a history / registry saved and loaded again, or one gateway with a persistence file: re-executed
        from .props import persist
        persist.replay(case)
        return 0
    if "restored_registry" in case:
        # C10: a registry restored from a persistence file by `async with gateway`, then received lines
        from .props import gateway as gprops
        gprops.replay_c10_restored(case)
        return 0
    if "quiet_sessions" in case:
        # C06: the write log over whole sessions of a gateway with a persistence file (enter, idle, lines, leave)
        from .props import quietwrites
        quietwrites.replay(case)
        return 0
    if "c08_sessions" in case:
        # real `async with gateway:` statements around an interrupted release (C08): re-executed on the implementation
        import asyncio

        from .props import gateway as gprops
        sc = case["c08_sessions"]
        for k, v in sc.items():
            print(f"{k}: {v!r}")
        what, trace = asyncio.run(gprops.c08_session_case(sc))
        for t in trace:
            print("  ", t)
        print("reproduced:" if what else "NOT reproduced", what or "")
        return 0
    if "history" in case:
        from . import gw
        h = gw.Hist.from_json(case["history"])
        if gw.has_file(h):
            print("(the gateway has a persistence file: ('session', 'file') leaves the context and enters the same object again, "
                  "which reloads the registry from the file)")
        impl = gw.run_impl(h)
        try:
            outs = lib.run_model(gw.model_lines(h))
            model = gw.model_obs(h, outs)
        except Exception as err:  # noqa: BLE001
            model = None
            print("model not available:", str(err)[:200])
        for i, op in enumerate(h.ops):
            o = impl[i + 1]
            print(f"step {i + 1}: {op}")
            print("   impl :", o["out"], [w for w in o["writes"]])
            if model:
                print("   model:", model[i + 1][0])
        print("final state (impl):", impl[-1]["state"])
        if prop == "C07":
            # the oracle's own verdict on the re-executed history: which nodes the HISTORY makes known to be sleeping
            # (restored flags, wake signals, re-presentations - never the library's flag), and the first step that
            # violates the property
            from .props import gateway as gprops
            known = gprops.c07_known_sleeping(h, impl)
            for i, op in enumerate(h.ops):
                if op[0] == "send" and op[1] is not None and op[1][2] == 1:
                    node = impl[i]["nodes"].get(op[1][0])
                    print(f"   step {i + 1}: destination {op[1][0]} known to be sleeping from the history: {op[1][0] in known[i]}; "
                          f"the library's flag: {None if node is None else node['sleeping']}")
            bad = gprops.c07_judge(h, impl)
            if bad is not None:
                print(f"reproduced: {bad[0]} (step {len(bad[1]['history']['ops'])}, writes {bad[1]['writes']})")
            else:
                print("NOT reproduced: the oracle has no objection to this history on this library")
        if prop == "C08":
            from .props import gateway as gprops
            verdict = lib.Corr("C08", "replay")
            gprops._c08_oracle(verdict, h, impl)
            for v in verdict.violations:
                print("reproduced:", v["what"], {k: v[k] for k in ("line", "still_owed_to_the_node", "before", "after+written") if k in v})
            if not verdict.violations:
                print("NOT reproduced: C08's oracle finds nothing wrong on this run")
        return 0
    if "sessions" in case:
        # gateway sessions on one persistence file (C05): re-executed on the implementation
        from .props import versessions
        for k in ("run", "step", "reported_by_gateway", "protocol_version", "active", "want_active"):
            if k in case:
                print(f"{k}: {case[k]!r}")
        versessions.replay(case)
        return 0
    if "stall" in case:
        # C03: a request for the next message / a send while the far end of the stream is slow (virtual-time loop)
        from .props import stall
        return stall.replay(case)
    if "byte_history" in case:
        from .props import bytepipe
        print("outcome recorded:", case.get("outcome"), "at step", case.get("step"))
        bytepipe.replay(case)
        return 0
    if "multi" in case:
        # several gateways alive in one process (C05): re-executed on the implementation
        from .props import multigw
        multigw.replay(case)
        return 0
    if "loops" in case:
        # loads in a process with a past (C14): histories of several event loops on shared persistence paths
        from .props import persist_loops
        persist_loops.replay(case)
        return 0
    if "environment" in case:
        # loads in a process in which an application has defined classes of its own (C14): the application's steps and
        # the file, re-executed in a fresh interpreter, with an interpreter that only imports the library as control
        from .props import persist_env
        persist_env.replay(case)
        return 0
    if prop == "C15" and ("new" in case or "chain" in case):
        # C15: the old / new registries (or the chain of in-place changes) saved again under the recorder; every crash state,
        # simulated and observed in the real directory, loaded again
        from .props import fileops
        return fileops.replay(case)
    if prop == "C17" and ("delivery" in case or "preconnection" in case):
        # C17: writes and a disconnect over a real loopback connection to a peer with a reading policy, or calls on a
        # TCPTransport / SerialTransport object while it has no connection: re-executed
        from .props import stream
        return stream.replay(case)
    if "churn" in case:
        # C16: a registry of realistic size changed by a concurrent task k loop iterations after an anchor
        from .props import churn
        return churn.replay(case)
    if "enterfail" in case:
        # C16: a step of __aenter__ fails or the task is cancelled k loop iterations after the statement began
        from .props import enterfail
        return enterfail.replay(case)
    if case.get("overlap") and "schedule" in case:
        # C09: lines received while a write of a wake-up flush waits, every write under the schedule's control
        from .props import flushoverlap
        return flushoverlap.replay(case)
    if "concurrent" in case:
        # C01: concurrent Gateway.send calls over a transport whose write suspends, under a schedule
        from .props import codec_concurrent
        return codec_concurrent.replay(case)
    if "hangup" in case:
        # C16: the far end ends the connection while the body of the context reads, then the context is left
        from .props import hangup
        return hangup.replay(case)
    if "interference" in case:
        from .props import codec_interference
        codec_interference.replay(case)
        return 0
    if "aliasing" in case:
        # what the application did with decoded messages between decodes (C02): re-executed on the implementation
        from .props import codec_aliasing
        codec_aliasing.replay(case)
        return 0
    if prop == "C18" and case.get("kind") in ("hookfault", "object", "session", "prefix", "write", "subscribe"):
        # MQTT transport: a fault plan over the documented hooks / a run of one client object / a reception session /
        # a pair of configured prefixes / one message written and echoed / the subscriptions of one prefix
        print(json.dumps({k: v for k, v in case.items() if k in ("kind", "in_prefix", "out_prefix", "in", "out", "fields", "payload",
                                                                  "plan", "transport", "aexit")}, default=str)[:3000])
        from .props import mqtt
        mqtt.replay(case)
        return 0
    print(json.dumps(case, indent=1, default=str)[:4000])
    print("(this engine's cases are replayed by re-running the check: the corpus and the seed reproduce them)")
    return 0


def body_changes() -> list[str]:
    """Handler bodies whose AST differs from the snapshot the model was written against (informational)."""
    snap = os.path.join(VERIF, "tools", "body_hashes.json")
    cur = os.path.join(VERIF, "tools", "tables.json")
    try:
        with open(snap, encoding="utf-8") as f:
            a = json.load(f)
        with open(cur, encoding="utf-8") as f:
            b = json.load(f).get("bodyHashes", {})
    except (OSError, ValueError):
        return []
    return sorted(k for k in set(a) | set(b) if a.get(k) != b.get(k))


# properties about the gateway's receive / send path: the generated handler bodies must equal the model's handlers
# (C13: its reachability theorems - every registry the handlers can build lies in RegOK - speak about the same handlers)
TIE_PROPS = {"C03", "C04", "C05", "C06", "C07", "C08", "C10", "C11", "C12", "C13", "C19"}
TIE_MOD = "AioMySensors.Lemmas.BodiesEq"
# properties about the stream transports: the generated StreamTransport methods must equal the model's Transport.*
# (C16: "disconnects the transport" - its theorems about read / disconnect after the far end hung up speak about them)
STREAM_TIE_PROPS = {"C03", "C16", "C17"}
STREAM_TIE_MOD = "AioMySensors.Lemmas.StreamBodiesEq"
# further property files (same Lean namespace AioMySensors.<prop>) whose theorems are obligations of the property but
# stand on a tie of their own, so that a tie that stops checking takes down these theorems and not the whole property file
PROP_EXTRA_MODS = {"C16": ["AioMySensors.Properties.C16Hangup"]}
# properties about the decoder: MessageSchema.load assembled from the generated validators must equal `decode`
CODEC_TIE_PROPS = {"C01", "C02", "C03"}
CODEC_TIE_MOD = "AioMySensors.Lemmas.CodecBodiesEq"
# C18: the generated topic <-> line mapping must equal Mqtt.toTopic / Mqtt.toLine
MQTT_TIE_PROPS = {"C18"}
MQTT_TIE_MOD = "AioMySensors.Lemmas.MqttBodiesEq"
# C13, C14, C15: the generated Persistence.load / save must equal Persist.loadFile / FileOps.saveOps
PERSIST_TIE_PROPS = {"C13", "C14", "C15"}
PERSIST_TIE_MOD = "AioMySensors.Lemmas.PersistBodiesEq"


# further translator ties, one entry per translator script (tools/ties.json): {"name", "script", "out", "snapshot",
# "gen_mod", "eq_mod", "props", "evidence"}.  Each script takes --repo --out --snapshot [--force-snapshot] and prints a
# last line "TRANSLATE-OK ..." ; an untranslatable function is written from its snapshot (never an alarm).
def extra_ties() -> list:
    try:
        with open(os.path.join(VERIF, "tools", "ties.json"), encoding="utf-8") as f:
            return json.load(f)
    except (OSError, ValueError):
        return []


def restore_committed(paths: list) -> str:
    """Rewrite generated files from the last commit of the framework's repository (only when they differ)."""
    done = []
    for rel in paths:
        p = subprocess.run(["git", "show", f"HEAD:{rel}"], cwd=VERIF, capture_output=True, check=False)
        if p.returncode != 0:
            return "not possible (no git history here)"
        full = os.path.join(VERIF, rel)
        try:
            with open(full, "rb") as f:
                same = f.read() == p.stdout
        except OSError:
            same = False
        if not same:
            with open(full + ".tmp", "wb") as f:
                f.write(p.stdout)
            os.replace(full + ".tmp", full)
            done.append(os.path.basename(rel))
    return ", ".join(done) if done else "already in place"


def translate_extra(t: dict, force_snapshot: bool) -> str:
    cmd = [PY, os.path.join(VERIF, t["script"]), "--repo", lib.REPO, "--out", os.path.join(VERIF, t["out"]),
           "--snapshot", os.path.join(VERIF, t["snapshot"])]
    if force_snapshot:
        cmd.append("--force-snapshot")
    rc, out = sh(cmd)
    return out.strip().split("\n")[-1] if out.strip() else f"exit {rc}"


def translate_bodies(force_snapshot: bool) -> str:
    cmd = [PY, os.path.join(VERIF, "tools", "translate.py"), "--repo", lib.REPO,
           "--out", os.path.join(LEAN, "AioMySensors", "Generated", "Bodies.lean"),
           "--stream-out", os.path.join(LEAN, "AioMySensors", "Generated", "StreamBodies.lean"),
           "--codec-out", os.path.join(LEAN, "AioMySensors", "Generated", "CodecBodies.lean"),
           "--mqtt-out", os.path.join(LEAN, "AioMySensors", "Generated", "MqttBodies.lean"),
           "--persist-out", os.path.join(LEAN, "AioMySensors", "Generated", "PersistBodies.lean"),
           "--snapshot", os.path.join(VERIF, "tools", "bodies_snapshot.json"),
           "--json", os.path.join(VERIF, "tools", "bodies_status.json")]
    if force_snapshot:
        cmd.append("--force-snapshot")
    rc, out = sh(cmd)
    return out.strip().split("\n")[-1] if out.strip() else f"exit {rc}"


def tie_search(seed: int, tier: str) -> tuple[list, dict]:
    """Model-guided search, used only when an equality of Lemmas/BodiesEq.lean no longer checks: run many generated
    histories through DriverGen.lean, which evaluates the model's handlers and the GENERATED bodies (the code as
    translated on this run) side by side; a step on which they differ is where the code left the model.  Returns the
    diverging histories, cut after the diverging step and followed by a settling suffix (a wake signal of every
    wake kind and a heartbeat for each node, then a probe line), as extra cases for the property's own run, which
    replays them on the implementation and judges them with the property's oracle."""
    from . import gw
    import itertools
    rng = lib.rng_for(seed, "tie-search")
    n = 1500 if tier == "quick" else 12000
    hists = []
    for i in range(n):
        v = lib.VERSIONS[i % 5]
        hists.append(gw.gen_history(rng, v, rng.randint(4, 30), send_ratio=0.3, fault_ratio=0.05,
                                    preload_p=0.6, cancel_ratio=0.1))
    # bounded-exhaustive part: every history of <= 4 steps over a compact alphabet about one node (presentation, child,
    # set, req, wake, report, held / direct sends, traffic from an unknown node), from three start states, and every
    # history of <= 3 such steps followed by one message of every kind
    T0 = gw.DEFAULT_TIME
    def R(line, faults=()):
        return ("recv", line, faults, T0)
    def alphabet(v):
        wake = "1;255;3;0;32;500" if v == "2.2" else "1;255;3;0;22;5"
        return [R("1;255;0;0;17;2.0"), R("1;1;0;0;6;d"), R("1;1;1;0;2;on"), R("1;1;2;0;2;"), R(wake),
                R("1;255;3;0;22;9") if v == "2.2" else R("1;255;3;0;0;55"), ("send", (1, 1, 1, 0, 2, "v1"), True, ()),
                ("send", (1, 1, 1, 0, 3, "v2"), True, ()), R("1;255;3;0;11;name"), R("9;1;1;0;2;x")]
    def kinds(v):
        out = [R(f"1;255;3;0;{t};1") for t in range(0, 34)] + [R(f"1;255;4;0;{t};x") for t in range(0, 3)]
        out += [R("255;255;3;0;3;"), R("0;255;3;0;2;" + v + ".1"), R("0;255;0;0;18;" + v), R("0;255;3;0;14;ready"),
                R("1;1;1;0;2;off", (True,)), R("1;255;3;0;22;3" if v != "2.2" else "1;255;3;0;32;3", (True,)),
                ("send", (1, 255, 3, 0, 13, ""), True, ()), ("send", (1, 1, 2, 0, 2, ""), True, ()), ("send", None, True, ())]
        return out
    starts = [[], [("node", 1, 17, "2.0", "", "", 0, 0, False, False), ("child", 1, 1, 1, 6, "d")],
              [("node", 1, 17, "2.0", "", "", 0, 0, True, True), ("child", 1, 1, 1, 6, "d"), ("val", 1, 1, 2, "on")]]
    deep = 4 if tier == "quick" else 5
    for v in ("1.5", "2.1", "2.2"):
        al, ks = alphabet(v), kinds(v)
        for si, pre in enumerate(starts):
            # full depth only from the richest start state under the 2.x protocols; one step less elsewhere
            depth = deep if (si == 2 and v != "1.5") else deep - 1
            for k in range(1, depth + 1):
                for ops in itertools.product(al, repeat=k):
                    hists.append(gw.Hist(v, True, list(pre), list(ops)))
            for k in range(0, deep - 1):
                for ops in itertools.product(al, repeat=k):
                    for last in ks:
                        hists.append(gw.Hist(v, True, list(pre), list(ops) + [last]))
    n = len(hists)
    lines, spans = [], []
    for h in hists:
        ml = gw.model_lines(h)
        spans.append((len(lines), len(ml)))
        lines.extend(ml)
    # the driver is the bottleneck: cut the operation list at history boundaries and run the pieces in parallel
    from concurrent.futures import ThreadPoolExecutor
    pieces, cur, start = [], 0, 0
    per = max(1, len(lines) // 14)
    for a, k in spans:
        if a + k - start >= per:
            pieces.append((start, a + k))
            start = a + k
    if start < len(lines):
        pieces.append((start, len(lines)))
    with ThreadPoolExecutor(max_workers=14) as ex:
        parts = list(ex.map(lambda ab: lib.run_model(lines[ab[0]:ab[1]], driver="DriverGen.lean", timeout=900), pieces))
    outs = [o for part in parts for o in part]
    found, info = [], {"histories": n, "steps": sum(len(h.ops) for h in hists), "diverging_steps": 0}
    for h, (a, k) in zip(hists, spans):
        o = outs[a:a + k]
        i = 1 + len(h.preload) + 1
        for j, op in enumerate(h.ops):
            if op[0] == "session":
                i += 1
                continue
            if o[i].endswith(" GENDIFF"):
                info["diverging_steps"] += 1
                if len(found) < 400:
                    cut = gw.Hist(h.version, h.metric, list(h.preload), list(h.ops[:j + 1]))
                    nodes = sorted({p[1] for p in h.preload if p[0] == "node"} | {1, 2})
                    for nid in nodes[:4]:
                        for t in (22, 32):
                            cut.ops.append(("recv", f"{nid};255;3;0;{t};7", (), gw.DEFAULT_TIME))
                    cut.ops.append(("recv", "0;255;3;0;9;probe", (), gw.DEFAULT_TIME))
                    found.append(cut)
                break
            i += 2
    found.sort(key=lambda h: len(h.ops))
    return found[:40], info


def run(prop: str, tier: str, replay: str | None) -> int:
    t0 = time.time()
    seed = int(os.environ.get("VERIF_SEED", "0"))
    modname, funcname = REGISTRY[prop]
    prop_mod = f"AioMySensors.Properties.{prop}"
    report: dict = {"extraction": None, "build": None, "audit": None}
    problems: list[str] = []       # reasons the property is not shown to hold
    lock = open(os.path.join(LEAN, ".build.lock"), "w")
    fcntl.flock(lock, fcntl.LOCK_EX)
    try:
        # 1. translator
        rc, out = sh([PY, os.path.join(VERIF, "tools", "extract.py"), "--repo", lib.REPO,
                      "--out", os.path.join(LEAN, "AioMySensors", "Generated", "Tables.lean"),
                      "--json", os.path.join(VERIF, "tools", "tables.json")])
        report["extraction"] = out.strip().split("\n")[-1] if out.strip() else f"exit {rc}"
        extraction_ok = rc == 0 and "EXTRACT-OK" in out
        if not extraction_ok:
            # the tree left the shape the extractor reads: the tables are the COMMITTED ones (regenerated from /repo), not
            # whatever an earlier run against another tree left in the working copy (DESIGN 13, false alarm 16)
            restored = restore_committed(["lean/AioMySensors/Generated/Tables.lean", "tools/tables.json"])
            report["extraction"] += f" (committed tables restored: {restored})"
        # 1b. body translator (gateway-level properties): handler bodies -> Generated/Bodies.lean
        tie = prop in TIE_PROPS
        stream_tie = prop in STREAM_TIE_PROPS
        codec_tie = prop in CODEC_TIE_PROPS
        mqtt_tie = prop in MQTT_TIE_PROPS
        persist_tie = prop in PERSIST_TIE_PROPS
        if tie or stream_tie or codec_tie or mqtt_tie or persist_tie:
            report["translation"] = translate_bodies(force_snapshot=False)
        xties = [t for t in extra_ties() if prop in t["props"]]
        for t in xties:
            report.setdefault("extra_ties", {})[t["name"]] = translate_extra(t, force_snapshot=False)
        # 2. build: the models (driver) first, then the property's theorems
        rc_m, out_m = sh(["lake", "build", "AioMySensors.Model"], cwd=LEAN)
        model_ok = rc_m == 0
        rc_p, out_p = sh(["lake", "build", prop_mod], cwd=LEAN)
        proofs_ok = rc_p == 0
        if tie or stream_tie or codec_tie or mqtt_tie or persist_tie:
            rc_b, out_b = sh(["lake", "build", "AioMySensors.Generated.Bodies", "AioMySensors.Generated.StreamBodies",
                              "AioMySensors.Generated.CodecBodies", "AioMySensors.Generated.MqttBodies",
                              "AioMySensors.Generated.PersistBodies"], cwd=LEAN)
            if rc_b != 0:
                # the translation does not type-check: that is a limit of the translator, not a fact about the code;
                # fall back to the committed translation and leave the tie to the correspondence run
                report["translation"] = translate_bodies(force_snapshot=True) + " (fresh translation did not type-check: " \
                    + " ".join(out_b.split())[-300:] + ")"
            for on, tmod in ((tie, TIE_MOD), (stream_tie, STREAM_TIE_MOD), (codec_tie, CODEC_TIE_MOD), (mqtt_tie, MQTT_TIE_MOD),
                             (persist_tie, PERSIST_TIE_MOD)):
                if not on:
                    continue
                rc_t, out_t = sh(["lake", "build", tmod], cwd=LEAN)
                if rc_t != 0:
                    proofs_ok = False
                    out_p += "\n" + out_t
        for xm in PROP_EXTRA_MODS.get(prop, []):
            rc_t, out_t = sh(["lake", "build", xm], cwd=LEAN)
            if rc_t != 0:
                proofs_ok = False
                out_p += "\n" + out_t
        for t in xties:
            rc_b, out_b = sh(["lake", "build", t["gen_mod"]], cwd=LEAN)
            if rc_b != 0:
                report["extra_ties"][t["name"]] = translate_extra(t, force_snapshot=True) + \
                    " (fresh translation did not type-check: " + " ".join(out_b.split())[-300:] + ")"
            rc_t, out_t = sh(["lake", "build", t["eq_mod"]], cwd=LEAN)
            if rc_t != 0:
                proofs_ok = False
                out_p += "\n" + out_t
    finally:
        fcntl.flock(lock, fcntl.LOCK_UN)
        lock.close()

    # obligations: theorems of the property file and of the project's lemma files it imports
    mods = [m for m in closure(prop_mod) if ".Properties." in m or ".Lemmas." in m]
    for xm in PROP_EXTRA_MODS.get(prop, []):
        mods.extend(m for m in closure(xm) if (".Properties." in m or ".Lemmas." in m) and m not in mods)
    if tie and TIE_MOD not in mods:
        mods.append(TIE_MOD)
    if stream_tie and STREAM_TIE_MOD not in mods:
        mods.append(STREAM_TIE_MOD)
    if codec_tie and CODEC_TIE_MOD not in mods:
        mods.append(CODEC_TIE_MOD)
    if mqtt_tie and MQTT_TIE_MOD not in mods:
        mods.append(MQTT_TIE_MOD)
    if persist_tie and PERSIST_TIE_MOD not in mods:
        mods.append(PERSIST_TIE_MOD)
    for t in xties:
        if t["eq_mod"] not in mods:
            mods.append(t["eq_mod"])
    theorems = {}
    for m in mods:
        for name, a, b in theorem_spans(module_path(m)):
            theorems[(m, name)] = (a, b)
    failed = set()
    if not proofs_ok:
        for m2 in re.finditer(r"error: (?:\./)?(AioMySensors/[\w/]+)\.lean:(\d+):\d+", out_p):
            mod = m2.group(1).replace("/", ".")
            line = int(m2.group(2))
            hit = [k for k, (a, b) in theorems.items() if k[0] == mod and a <= line <= b]
            if hit:
                failed.update(hit)
            else:
                failed.add((mod, f"<line {line}>"))
        # modules that could not be built at all take their theorems (and their dependants') down
        for m2 in re.finditer(r"✖ \[\d+/\d+\] Building ([\w.]+)", out_p):
            bad = m2.group(1)
            for m in mods:
                if bad in closure(m) and bad != m:
                    failed.update(k for k in theorems if k[0] == m)
        if not failed:
            failed.add((prop_mod, "<build failed>"))
        problems.append("proof obligations no longer check: " + ", ".join(sorted(f"{m.split('.')[-1]}.{n}" for m, n in failed)))
    report["build"] = {"model_ok": model_ok, "proofs_ok": proofs_ok,
                       "log_tail": (out_p if not proofs_ok else "")[-3000:] + (out_m if not model_ok else "")[-2000:]}

    # 3. audit
    hits = []
    for path in lean_sources():
        with open(path, encoding="utf-8") as f:
            body = strip_comments(f.read())
        for i, line in enumerate(body.split("\n"), 1):
            if FORBIDDEN.search(line):
                hits.append(f"{os.path.relpath(path, LEAN)}:{i}: {line.strip()[:80]}")
    axioms = {}
    if proofs_ok:
        prop_mods = [prop_mod] + PROP_EXTRA_MODS.get(prop, [])
        names = [n for (m, n) in theorems if m in prop_mods]
        tmp = os.path.join(lib.scratch(), f"audit_{prop}.lean")
        with open(tmp, "w", encoding="utf-8") as f:
            f.write("".join(f"import {m}\n" for m in prop_mods) + "open AioMySensors\n"
                    + "".join(f"#print axioms AioMySensors.{prop}.{n}\n" for n in names))
        rc, out = sh(["lake", "env", "lean", tmp], cwd=LEAN)
        prefix = f"AioMySensors.{prop}."
        for m2 in re.finditer(r"'([^']+)' (?:depends on axioms: \[([^\]]*)\]|does not depend on any axioms)", out):
            name = m2.group(1)[len(prefix):] if m2.group(1).startswith(prefix) else m2.group(1)
            axioms[name] = [a.strip() for a in (m2.group(2) or "").replace("\n", " ").split(",") if a.strip()]
        if rc != 0 or len(axioms) != len(names):
            problems.append(f"axiom audit incomplete ({len(axioms)}/{len(names)} theorems): {out[-400:]}")
        bad = {n: a for n, a in axioms.items() if not set(a) <= ALLOWED_AXIOMS}
        if bad:
            problems.append(f"theorems depend on axioms outside the allowed set: {bad}")
        if tier == "thorough":
            rc, out = sh(["lake", "env", "leanchecker", prop_mod], cwd=LEAN, timeout=3000)
            report["leanchecker"] = "ok" if rc == 0 else out[-800:]
            if rc != 0:
                problems.append("leanchecker rejected the compiled module")
    if hits:
        problems.append("forbidden constructs in Lean sources: " + "; ".join(hits[:5]))
    report["audit"] = {"forbidden": hits, "axioms": axioms}

    # 4. correspondence + oracles
    ctx = SimpleNamespace(seed=seed, tier=tier, model_ok=model_ok, prop=prop, replay=replay)
    corr = None
    try:
        mod = importlib.import_module(f"harness.props.{modname}")
        corr = getattr(mod, funcname)(ctx)
    except lib.ModelError as err:
        problems.append(f"model driver failed: {err}")
    except Exception:  # noqa: BLE001  the harness itself could not run against this tree
        problems.append("correspondence harness crashed: " + traceback.format_exc()[-1500:])
    if not model_ok:
        problems.append("the executable model no longer builds against the regenerated tables")
    # 4b. a broken tie: search for a concrete input where the code (as translated) leaves the model
    tie_broken = tie and any(m == TIE_MOD for m, _ in failed)
    if tie_broken and model_ok and corr is not None and not corr.violations:
        try:
            extra, info = tie_search(seed, tier)
            report["tie_search"] = info
            if extra:
                lib.EXTRA_HISTORIES[:] = extra
                corr2 = getattr(mod, funcname)(ctx)
                info["oracle_violations_on_diverging_histories"] = len(corr2.violations)
                if corr2.violations:
                    corr = corr2
        except Exception:  # noqa: BLE001
            report["tie_search"] = {"error": traceback.format_exc()[-800:]}
        finally:
            lib.EXTRA_HISTORIES[:] = []

    # 5. decide
    known = load_known(prop)
    exit_code = 0
    lines = []
    viol_new, viol_known = [], []
    if corr is not None:
        for v in corr.violations:
            sig = v.get("class")
            if sig and sig in known:
                viol_known.append(v)
            else:
                viol_new.append(v)
        for sig in sorted({v.get("class") for v in viol_known}):
            lines.append(f"KNOWN-FINDING: property={prop} {known[sig]}")
    os.makedirs(os.path.join(VERIF, "replays"), exist_ok=True)
    replay_path = os.path.join(VERIF, "replays", f"{prop}-{tier}-{seed}.json")
    if os.path.exists(replay_path):
        os.unlink(replay_path)   # a stale replay of an earlier run must not survive a passing run
    if viol_new:
        with open(replay_path, "w", encoding="utf-8") as f:
            json.dump({"property": prop, "kind": "failing-input", "case": viol_new[0], "more": viol_new[1:10],
                       "problems": problems}, f, indent=1, default=str)
        lines.append(f"VIOLATION property={prop} replay={replay_path}")
        exit_code = 1
    elif problems or (corr is not None and corr.disagreements):
        what = list(problems)
        if corr is not None and corr.disagreements:
            what.append(f"correspondence broken: model and implementation differ on {len(corr.disagreements)} case(s), "
                        "and the property's oracle holds on the implementation for all of them")
        with open(replay_path, "w", encoding="utf-8") as f:
            json.dump({"property": prop, "kind": "no-failing-input-found", "unchecked": what,
                       "failed_theorems": sorted(f"{m}.{n}" for m, n in failed),
                       "disagreements": corr.disagreements[:10] if corr else [],
                       "build_log": report["build"]["log_tail"]}, f, indent=1, default=str)
        lines.append(f"VIOLATION property={prop} replay={replay_path} no-failing-input-found")
        exit_code = 1

    # 6. evidence
    n_obl = len(theorems)
    n_ok = n_obl - len([k for k in failed if k in theorems]) if proofs_ok or failed else 0
    if not proofs_ok and not [k for k in failed if k in theorems]:
        n_ok = 0
    cov = {
        "obligations": max(n_obl, 1),
        "discharged": max(n_ok, 0) if n_obl else 0,
        "checker_cmd": f"cd lean && lake build {prop_mod} && lake env lean <#print axioms of every theorem>"
                       + (" && lake env leanchecker " + prop_mod if tier == "thorough" else ""),
        "trusted_base": TRUSTED_BASE,
        "theorems": sorted(f"{m.split('.')[-1]}.{n}" for m, n in theorems),
        "failed_theorems": sorted(f"{m.split('.')[-1]}.{n}" for m, n in failed),
        "axioms": axioms,
        "extraction": report["extraction"],
        "body_translation": report.get("translation", "not used by this property"),
        "tie_search": report.get("tie_search", "not needed (every equality of BodiesEq checks)" if tie else "n/a"),
        "persist_tie": ("PersistBodiesEq: the generated Persistence.load equals Persist.loadFile, the generated file operations of save equal "
                        "FileOps.saveOps" if persist_tie else "n/a"),
        "mqtt_tie": ("MqttBodiesEq: the generated _parse_message_to_mqtt / _parse_mqtt_to_message equal Mqtt.toTopic / Mqtt.toLine"
                     if mqtt_tie else "n/a"),
        "codec_tie": ("CodecBodiesEq.loadGen_eq: MessageSchema.load assembled from the generated validators = decode, "
                      "raising nothing but ValidationError" if codec_tie else "n/a"),
        "stream_tie": ("StreamBodiesEq: the generated StreamTransport methods equal Transport.connect/disconnect/read/write" if stream_tie else "n/a"),
        "extra_ties": {t["name"]: t["evidence"] + " — " + report.get("extra_ties", {}).get(t["name"], "") for t in xties},
        "extraction_ok": extraction_ok,
        "model_builds": model_ok,
        "leanchecker": report.get("leanchecker", "not run (quick tier)"),
        "handler_bodies_changed_since_model_snapshot": body_changes(),
    }
    if corr is not None:
        cov.update({
            "evaluations": corr.evaluations,
            "distinct_nontrivial": len(corr.nontrivial),
            "rule": corr.rule,
            "samples": corr.samples[:8] or ["(no case generated)"],
            "distribution": dict(sorted(corr.dist.items())),
            "disagreements": len(corr.disagreements),
            "oracle_violations": len(corr.violations),
            "known_findings_hit": sorted({v.get("class") for v in viol_known}),
            "exhaustive": corr.exhaustive,
            "notes": corr.notes,
        })
    ev = {
        "property_id": prop, "tier": tier, "seed": seed, "level": "proof", "coverage": cov,
        "assumptions": TRUSTED_BASE[3:] + ["the correspondence run only compares what it generated; see coverage.rule"],
        "wall_s": round(time.time() - t0, 2), "violations": len(viol_new) + (1 if exit_code and not viol_new else 0),
    }
    os.makedirs(os.path.join(VERIF, "evidence"), exist_ok=True)
    with open(os.path.join(VERIF, "evidence", f"{prop}.json"), "w", encoding="utf-8") as f:
        json.dump(ev, f, indent=1, default=str)
    for p in problems:
        print(f"note: {p[:600]}")
    for line in lines:
        print(line)
    print(f"{prop} {tier} seed={seed}: theorems {n_ok}/{n_obl}, "
          + (f"cases {corr.evaluations} (non-trivial {len(corr.nontrivial)}), disagreements {len(corr.disagreements)}, "
             f"oracle violations {len(corr.violations)}" if corr else "no correspondence run")
          + f", {ev['wall_s']}s -> exit {exit_code}")
    return exit_code


def load_known(prop: str) -> dict[str, str]:
    out = {}
    path = os.path.join(VERIF, "known-findings.txt")
    if os.path.exists(path):
        with open(path, encoding="utf-8") as f:
            for line in f:
                m = re.match(r"finding:\s+property=(\S+)\s+class=(\S+)\s+(.*)", line.strip())
                if m and m.group(1) == prop:
                    out[m.group(2)] = f"class={m.group(2)} {m.group(3)}"
    return out


def main() -> int:
    ap = argparse.ArgumentParser()
    ap.add_argument("prop")
    ap.add_argument("--tier", default=os.environ.get("VERIF_TIER", "quick"), choices=["quick", "thorough"])
    ap.add_argument("--replay")
    args = ap.parse_args()
    if args.prop not in REGISTRY:
        print(f"unknown property {args.prop}")
        return 2
    if args.replay:
        return do_replay(args.prop, args.replay)
    try:
        return run(args.prop, args.tier, args.replay)
    except subprocess.TimeoutExpired as err:
        print(f"infrastructure: timeout {err}")
        return 2


if __name__ == "__main__":
    sys.exit(main())
