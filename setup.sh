#!/bin/sh
# Build the framework from files on disk only (offline): regenerate the tables from /repo, build every
# model, lemma and property theorem, and make sure the driver runs.
cd "$(dirname "$0")" || exit 2
set -e
/venv/bin/python tools/extract.py --repo "${VERIF_REPO:-/repo}" --out lean/AioMySensors/Generated/Tables.lean --json tools/tables.json || true
/venv/bin/python tools/translate.py --repo "${VERIF_REPO:-/repo}" --out lean/AioMySensors/Generated/Bodies.lean --stream-out lean/AioMySensors/Generated/StreamBodies.lean --codec-out lean/AioMySensors/Generated/CodecBodies.lean --mqtt-out lean/AioMySensors/Generated/MqttBodies.lean --persist-out lean/AioMySensors/Generated/PersistBodies.lean --snapshot tools/bodies_snapshot.json --json tools/bodies_status.json || true
/venv/bin/python - <<'PYEOF' || true
import json, os, subprocess
repo = os.environ.get("VERIF_REPO", "/repo")
for t in json.load(open("tools/ties.json")):
    subprocess.run(["/venv/bin/python", t["script"], "--repo", repo, "--out", t["out"], "--snapshot", t["snapshot"]])
PYEOF
cd lean
lake build AioMySensors
echo "int 31,32" | lake env lean --run Driver.lean
