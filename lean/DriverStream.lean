/-
Line-protocol driver for the stream-transport model (C17).
Run with `lake env lean --run DriverStream.lean`; one operation per input line, one observation per
output line.  Bytes and strings travel as comma-separated hexadecimal values, `-` for empty.

  tnew                       a transport that was never connected                -> ok
  snew <limit>               tnew + successful connect                           -> ok
  conn <limit> <exn|->       connect; `_open_connection` raises <exn>            -> ok | err <kind> | foreign <cls>
  feed <bytes>               reader.feed_data                                    -> ok | noconn | assert (after eof)
  eof                        reader.feed_eof                                     -> ok | noconn
  fail <exn>                 reader.set_exception                                -> ok | noconn
  read                       await transport.read()                              -> line <str> | wait | err <kind> | foreign <cls>
  write <str> <-|w:exn|d:exn>  await transport.write(str), fault in write()/drain() -> ok | err <kind> | foreign <cls>
  disc <-|c:exn|w:exn>       await transport.disconnect(), fault in close()/wait_closed() -> ok | foreign <cls>
  out                        what the writer holds                               -> out <bytes> closed=<0|1> | noconn
  sched <limit> <ev/ev/...>  `Transport.run` on a fresh connection; ev = r | e | f<bytes>  -> results joined by `|` (or `-`)
-/
import AioMySensors.Model.Stream

open AioMySensors AioMySensors.Stream

def hexVal (c : Char) : Option Nat :=
  if '0' ≤ c ∧ c ≤ '9' then some (c.toNat - 48)
  else if 'a' ≤ c ∧ c ≤ 'f' then some (c.toNat - 87)
  else none

def parseHex (s : String) : Option Nat :=
  if s.isEmpty then none else
  s.toList.foldlM (fun acc c => (hexVal c).map (acc * 16 + ·)) 0

def decodeStr (tok : String) : Option Str :=
  if tok = "-" then some [] else
  (tok.splitOn ",").mapM fun h => (parseHex h).map Char.ofNat

def decodeBytes (tok : String) : Option Bytes :=
  if tok = "-" then some [] else
  (tok.splitOn ",").mapM fun h => (parseHex h).bind fun n => if n < 256 then some n.toUInt8 else none

def toHex (n : Nat) : String := String.ofList (Nat.toDigits 16 n)

def encodeStr (s : Str) : String :=
  if s.isEmpty then "-" else ",".intercalate (s.map fun c => toHex c.toNat)

def encodeBytes (b : Bytes) : String :=
  if b.isEmpty then "-" else ",".intercalate (b.map fun c => toHex c.toNat)

/-- `bytes.decode()`: strict UTF-8. -/
def decodeUtf8 (b : Bytes) : Option Str :=
  (String.fromUTF8? (ByteArray.mk b.toArray)).map String.toList

def parseExn : String → Option PyExn
  | "KeyError" => some .KeyError | "ValueError" => some .ValueError | "TypeError" => some .TypeError
  | "AttributeError" => some .AttributeError | "OverflowError" => some .OverflowError
  | "RecursionError" => some .RecursionError | "UnicodeDecodeError" => some .UnicodeDecodeError
  | "JSONDecodeError" => some .JSONDecodeError | "OSError" => some .OSError
  | "FileNotFoundError" => some .FileNotFoundError | "ValidationError" => some .ValidationError
  | "LimitOverrunError" => some .LimitOverrunError | "IncompleteReadError" => some .IncompleteReadError
  | "CancelledError" => some .CancelledError | "MqttError" => some .MqttError
  | "RuntimeError" => some .RuntimeError | "Exception" => some .Exception
  | _ => none

def showTExn : TExn → String
  | .lib .transportError => "err transportError"
  | .lib .transportRead => "err transportRead"
  | .lib .transportFailed => "err transportFailed"
  | .foreign c => s!"foreign {repr c}".replace "AioMySensors.PyExn." ""

def showOpt : Option TExn → String
  | none => "ok"
  | some e => showTExn e

def parseWriteFault (s : String) : Option WriteFault :=
  if s = "-" then some .clean
  else match s.splitOn ":" with
    | ["w", e] => (parseExn e).map .atWrite
    | ["d", e] => (parseExn e).map .atDrain
    | _ => none

def parseCloseFault (s : String) : Option CloseFault :=
  if s = "-" then some .clean
  else match s.splitOn ":" with
    | ["c", e] => (parseExn e).map .atClose
    | ["w", e] => (parseExn e).map .atWaitClosed
    | _ => none

def parseEv (s : String) : Option Ev :=
  if s = "r" then some .read
  else if s = "e" then some .eof
  else match s.toList with
    | 'f' :: rest => (decodeBytes (String.ofList rest)).map .feed
    | _ => none

def showRes : ReadRes → String
  | .ok s => "line " ++ encodeStr s
  | .wait => "wait"
  | .err e => showTExn e

def step (t : Transport) (line : String) : Transport × String :=
  match (line.trimAscii.toString.splitOn " ").filter (· ≠ "") with
  | ["tnew"] => ({}, "ok")
  | ["snew", l] =>
    match l.toNat? with
    | some l => let (r, t') := Transport.connect {} l none; (t', showOpt r)
    | none => (t, "bad-op")
  | ["conn", l, f] =>
    match l.toNat?, (if f = "-" then some none else (parseExn f).map some) with
    | some l, some f => let (r, t') := t.connect l f; (t', showOpt r)
    | _, _ => (t, "bad-op")
  | ["feed", b] =>
    match decodeBytes b with
    | none => (t, "bad-op")
    | some b =>
      match t.conn with
      | none => (t, "noconn")
      | some cn => if cn.reader.eof then (t, "assert") else (t.arrive (.feed b), "ok")
  | ["eof"] =>
    match t.conn with
    | none => (t, "noconn")
    | some _ => (t.arrive .eof, "ok")
  | ["fail", e] =>
    match parseExn e, t.conn with
    | none, _ => (t, "bad-op")
    | _, none => (t, "noconn")
    | some e, some cn => ({ conn := some { cn with reader := cn.reader.setException e } }, "ok")
  | ["read"] =>
    match Transport.read decodeUtf8 t with
    | (.ok s, t') => (t', "line " ++ encodeStr s)
    | (.wait, t') => (t', "wait")
    | (.err e, t') => (t', showTExn e)
  | ["write", s, f] =>
    match decodeStr s, parseWriteFault f with
    | some s, some f => let (r, t') := t.write s f; (t', showOpt r)
    | _, _ => (t, "bad-op")
  | ["disc", f] =>
    match parseCloseFault f with
    | some f => let (r, t') := t.disconnect f; (t', showOpt r)
    | none => (t, "bad-op")
  | ["out"] =>
    match t.conn with
    | none => (t, "noconn")
    | some cn => (t, s!"out {encodeBytes cn.writer.out} closed={if cn.writer.closed then 1 else 0}")
  | ["sched", l, evs] =>
    match l.toNat?, (evs.splitOn "/").mapM parseEv with
    | some l, some evs =>
      let rs := Transport.run decodeUtf8 (connected l) 0 evs
      (t, if rs.isEmpty then "-" else "|".intercalate (rs.map showRes))
    | _, _ => (t, "bad-op")
  | _ => (t, "bad-op")

partial def loop (h : IO.FS.Stream) (out : IO.FS.Stream) (t : Transport) : IO Unit := do
  let line ← h.getLine
  if line.isEmpty then return ()
  let (t', o) := step t line
  out.putStrLn o
  loop h out t'

def main : IO Unit := do
  let out ← IO.getStdout
  loop (← IO.getStdin) out {}
  out.flush
