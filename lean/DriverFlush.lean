/-
Line-protocol driver for the C09 flush/send interleaving model (`Model/Flush.lean`).
Run with `lake env lean --run DriverFlush.lean`; one operation per input line, one observation per
output line.  Strings travel as comma-separated hexadecimal code points, `-` for the empty string.

Operations
  fnew <parked> <senders>   initial configuration.  <parked> = `-` or entries `n.c.t=<hex>` joined by `|`;
                            <senders> = `0` (no task) or one such list per task joined by `/`
                            (a task without calls is `-`).
  fnewold <parked> <senders> the same, and later steps use the loop before the repair (`stepOld`).
  fstep <choice>            one scheduler step: `s<i>` (task i makes its next call) | `wake` | `begin`
                            | `append` | `end`.
  ffinal                    the final undisturbed wake (`finalWake`), in one go.
Observation
  <ok|disabled> pc=<idle|flush:<entries left>:<-|0|1>> buf=[k=v#id ...] wire=[...] log=[...] left=<calls outstanding per task>
-/
import AioMySensors.Model.Flush

open AioMySensors AioMySensors.Flush

def hexVal (c : Char) : Option Nat :=
  if '0' ≤ c ∧ c ≤ '9' then some (c.toNat - 48)
  else if 'a' ≤ c ∧ c ≤ 'f' then some (c.toNat - 87)
  else none

def parseHex (s : String) : Option Nat :=
  if s.isEmpty then none else
  s.toList.foldlM (fun acc c => (hexVal c).map (acc * 16 + ·)) 0

def decodeStr (tok : String) : Option Str :=
  if tok = "-" then some [] else
  (tok.splitOn ",").mapM fun h => (parseHex h).map Char.ofNat

def toHex (n : Nat) : String := String.ofList (Nat.toDigits 16 n)

def encodeStr (s : Str) : String :=
  if s.isEmpty then "-" else ",".intercalate (s.map fun c => toHex c.toNat)

def showKey (k : Key) : String := s!"{k.1}.{k.2.1}.{k.2.2}"

def parseKey (s : String) : Option Key :=
  match s.splitOn "." with
  | [n, c, t] => do
    let n ← n.toInt?; let c ← c.toInt?; let t ← t.toInt?
    pure (n, c, t)
  | _ => none

def parseKV (s : String) : Option (Key × Val) :=
  match s.splitOn "=" with
  | [k, v] => do
    let k ← parseKey k; let v ← decodeStr v
    pure (k, v)
  | _ => none

def parseKVs (s : String) : Option (List (Key × Val)) :=
  if s = "-" then some [] else (s.splitOn "|").mapM parseKV

def parseSenders (s : String) : Option (List (List (Key × Val))) :=
  if s = "0" then some [] else (s.splitOn "/").mapM parseKVs

def showEntry (e : Entry) : String := s!"{showKey e.1}={encodeStr e.2.1}#{e.2.2}"

def showEntries (l : List Entry) : String := "[" ++ " ".intercalate (l.map showEntry) ++ "]"

def showPc : Pc → String
  | .idle => "idle"
  | .flushing l w =>
    let ws := match w with | none => "-" | some false => "0" | some true => "1"
    s!"flush:{l.length}:{ws}"

def showState (s : State) : String :=
  s!"pc={showPc s.pc} buf={showEntries s.buf} wire={showEntries s.wire} log={showEntries s.log} left=" ++
  ",".intercalate (s.senders.map fun l => toString l.length)

def parseChoice (s : String) : Option Choice :=
  match s with
  | "wake" => some .wakeStart
  | "begin" => some .writeBegin
  | "append" => some .wireAppend
  | "end" => some .writeEnd
  | _ =>
    match s.toList with
    | 's' :: ds => (String.ofList ds).toNat?.map Choice.send
    | _ => none

structure DState where
  st : State := {}
  old : Bool := false

def step1 (d : DState) (line : String) : DState × String :=
  match (line.trimAscii.toString.splitOn " ").filter (· ≠ "") with
  | [op, p, s] =>
    if op = "fnew" ∨ op = "fnewold" then
      match parseKVs p, parseSenders s with
      | some p, some s =>
        let st := init { parked := p, senders := s }
        ({ st := st, old := op = "fnewold" }, "ok " ++ showState st)
      | _, _ => (d, "bad-op")
    else (d, "bad-op")
  | ["fstep", c] =>
    match parseChoice c with
    | none => (d, "bad-op")
    | some c =>
      match (if d.old then stepOld d.st c else step d.st c) with
      | some st => ({ d with st := st }, "ok " ++ showState st)
      | none => (d, "disabled " ++ showState d.st)
  | ["ffinal"] =>
    let st := if d.old then finalWakeOld d.st else finalWake d.st
    ({ d with st := st }, "ok " ++ showState st)
  | _ => (d, "bad-op")

partial def loop (h : IO.FS.Stream) (out : IO.FS.Stream) (d : DState) : IO Unit := do
  let line ← h.getLine
  if line.isEmpty then return ()
  let (d', o) := step1 d line
  out.putStrLn o
  loop h out d'

def main : IO Unit := do
  let out ← IO.getStdout
  loop (← IO.getStdin) out {}
  out.flush
