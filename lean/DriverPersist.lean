/-
Line-protocol driver for the persistence model (C13, C14).
Run with `lake env lean --run DriverPersist.lean`; one operation per input line, one observation
per output line.  Strings travel as comma-separated hexadecimal code points, `-` for the empty
string (as in `Driver.lean`).

JSON values travel in a prefix encoding, tokens separated by blanks:
  n | t | f | i<int> | r<num>/<den> | rnan | rinf | s<string> | a<count> v1 … | o<count> k1 v1 …
(object keys are bare string tokens).

Operations
  rnew                                                   start an empty registry
  rnode <id> <type> <pv> <sn> <sv> <bat> <hb> <reboot> <sleeping>
  rchild <node> <key> <cid> <ctype> <desc>
  rval <node> <key> <type> <value>                       (all three as `Driver.lean`'s g… ops)
  save                                                   -> JSON value `save` hands to json.dumps (insertion order)
  regok                                                  -> 1 / 0: the executable form of C13's hypothesis
  loadsave                                               -> outcome of load (save registry) into an empty registry
  load <json>                                            -> outcome of loading the value into an empty registry
  loadinto <json>                                        -> … into the current registry (not replaced)
  file <missing|unreadable|undecodable|notJson|hugeInt|tooDeep|empty>
                                                         -> outcome of loadFile with the current registry
  legacy <json>                                          -> legacyOf, as a JSON value
  node <json> / child <json>                             -> NodeSchema().load / ChildSchema().load: ok … | raw exception class

  jrender <json>                                         -> hex bytes of `render 0 v` = json.dumps(v, indent=2) (members as given)
  jdumps <json>                                          -> hex bytes of json.dumps(v, sort_keys=True, indent=2) (str keys)
  savetext                                               -> hex bytes of the file `save` writes for the current registry
  realok                                                 -> 1 / 0: RegOK, printable integers, canonical order (C15's RealOK)
  jparse <hex bytes>                                     -> json.loads of the UTF-8 text: ok <json> | invalid | hugeInt |
                                                            unsupported | undecodable
  bload <hex bytes>                                      -> outcome of `load` of a file with these bytes into the current
                                                            registry (as `file`, through the modelled decoder and parser);
                                                            `unsupported` = outside the modelled text fragment

Outcomes: `ok <registry>` (nodes in dict order, format of `Driver.lean`'s dump),
`err persistenceRead <class raised inside>`, `foreign <class>`; `file` adds ` created=<json|->`.
-/
import AioMySensors.Model.Persist
import AioMySensors.Model.JsonText

open AioMySensors AioMySensors.Schema AioMySensors.Persist AioMySensors.JsonText

def hexVal (c : Char) : Option Nat :=
  if '0' ≤ c ∧ c ≤ '9' then some (c.toNat - 48)
  else if 'a' ≤ c ∧ c ≤ 'f' then some (c.toNat - 87)
  else none

def parseHex (s : String) : Option Nat :=
  if s.isEmpty then none else
  s.toList.foldlM (fun acc c => (hexVal c).map (acc * 16 + ·)) 0

def decodeStr (tok : String) : Option Str :=
  if tok = "-" then some [] else
  (tok.splitOn ",").mapM fun h => (parseHex h).map Char.ofNat

def toHex (n : Nat) : String := String.ofList (Nat.toDigits 16 n)

def encodeStr (s : Str) : String :=
  if s.isEmpty then "-" else ",".intercalate (s.map fun c => toHex c.toNat)

def showBool (b : Bool) : String := if b then "1" else "0"

def parseBool : String → Option Bool
  | "1" => some true | "0" => some false | _ => none

/-! JSON prefix encoding -/

mutual
partial def parseJson : List String → Option (Json × List String)
  | [] => none
  | tok :: rest =>
    match tok.toList with
    | ['n'] => some (.null, rest)
    | ['t'] => some (.bool true, rest)
    | ['f'] => some (.bool false, rest)
    | 'i' :: cs => (String.ofList cs).toInt?.map fun n => (.int n, rest)
    | 'r' :: cs =>
      let body := String.ofList cs
      if body = "nan" then some (.real .nan, rest)
      else if body = "inf" then some (.real .inf, rest)
      else match body.splitOn "/" with
        | [a, b] => do
          let a ← a.toInt?
          let b ← b.toNat?
          pure (.real (.fin a b), rest)
        | _ => none
    | 's' :: cs => (decodeStr (String.ofList cs)).map fun s => (.str s, rest)
    | 'a' :: cs => do
      let k ← (String.ofList cs).toNat?
      let (xs, rest') ← parseItems k rest []
      pure (.arr xs, rest')
    | 'o' :: cs => do
      let k ← (String.ofList cs).toNat?
      let (kvs, rest') ← parseMembers k rest []
      pure (.obj kvs, rest')
    | _ => none
partial def parseItems : Nat → List String → List Json → Option (List Json × List String)
  | 0, toks, acc => some (acc.reverse, toks)
  | k + 1, toks, acc => do
    let (v, rest) ← parseJson toks
    parseItems k rest (v :: acc)
partial def parseMembers : Nat → List String → List (Str × Json) → Option (List (Str × Json) × List String)
  | 0, toks, acc => some (acc.reverse, toks)
  | _ + 1, [], _ => none
  | k + 1, key :: toks, acc => do
    let key ← decodeStr key
    let (v, rest) ← parseJson toks
    parseMembers k rest ((key, v) :: acc)
end

def parseWholeJson (toks : List String) : Option Json :=
  match parseJson toks with
  | some (j, []) => some j
  | _ => none

partial def showJson : Json → String
  | .null => "n"
  | .bool true => "t"
  | .bool false => "f"
  | .int n => s!"i{n}"
  | .real (.fin a b) => s!"r{a}/{b}"
  | .real .nan => "rnan"
  | .real .inf => "rinf"
  | .str s => "s" ++ encodeStr s
  | .arr xs => " ".intercalate (s!"a{xs.length}" :: xs.map showJson)
  | .obj kvs => " ".intercalate (s!"o{kvs.length}" :: kvs.map fun kv => encodeStr kv.1 ++ " " ++ showJson kv.2)

/-! Registries -/

def showValues (vs : PDict Int Str) : String :=
  "{" ++ ",".intercalate (vs.map fun (t, v) => s!"{t}={encodeStr v}") ++ "}"

def showChild (k : Int) (c : Child) : String :=
  s!"{k}/{c.cid}/{c.ctype}/{encodeStr c.desc}/{showValues c.values}"

def showNode (k : Int) (n : Node) : String :=
  s!"{k}:{n.ntype}:{encodeStr n.pv}:{encodeStr n.sketchName}:{encodeStr n.sketchVersion}:{n.battery}:{n.heartbeat}:" ++
  s!"{showBool n.reboot}:{showBool n.sleeping}:[" ++ ";".intercalate (n.children.map fun (k, c) => showChild k c) ++ "]"

def showReg (r : PDict Int Node) : String :=
  "[" ++ "|".intercalate (r.map fun (k, n) => showNode k n) ++ "]"

def showPy (c : PyExn) : String := s!"{repr c}".replace "AioMySensors.PyExn." ""

/-- Outcome of the second `try` block, with the class raised inside it. -/
def showLoad (cur : PDict Int Node) (j : Json) : String :=
  match loadInto cur j, loadRaw cur j with
  | .ok r, _ => "ok " ++ showReg r
  | .error (.lib .persistenceRead), .error c => "err persistenceRead " ++ showPy c
  | .error (.lib .persistenceRead), .ok _ => "err persistenceRead ?"
  | .error (.lib .persistenceWrite), _ => "err persistenceWrite"
  | .error (.foreign c), _ => "foreign " ++ showPy c

def showFile (cur : PDict Int Node) (fs : FileState) : String :=
  match loadFile cur fs with
  | .ok l => "ok " ++ showReg l.nodes ++ " created=" ++ (match l.created with | some j => showJson j | none => "-")
  | .error (.lib .persistenceRead) =>
    "err persistenceRead " ++ (match readFile fs with | .error c => showPy c | .ok _ => "?")
  | .error (.lib .persistenceWrite) => "err persistenceWrite"
  | .error (.foreign c) => "foreign " ++ showPy c

def parseFileState : String → Option FileState
  | "missing" => some .missing | "unreadable" => some .unreadable | "undecodable" => some .undecodable
  | "notJson" => some .notJson | "hugeInt" => some .hugeInt | "tooDeep" => some .tooDeep
  | "empty" => some .empty | _ => none

/-! Bytes as one hexadecimal string (two digits per byte, `-` = empty) -/

def hexByte (b : UInt8) : String :=
  let d (n : Nat) : Char := if n < 10 then Char.ofNat (48 + n) else Char.ofNat (87 + n)
  String.ofList [d (b.toNat / 16), d (b.toNat % 16)]

def showBytes (b : List UInt8) : String :=
  if b.isEmpty then "-" else String.join (b.map hexByte)

def parseBytesAux : List Char → List UInt8 → Option (List UInt8)
  | [], acc => some acc.reverse
  | [_], _ => none
  | a :: b :: rest, acc =>
    match hexVal a, hexVal b with
    | some x, some y => parseBytesAux rest (UInt8.ofNat (x * 16 + y) :: acc)
    | _, _ => none

def parseBytes (tok : String) : Option (List UInt8) :=
  if tok = "-" then some [] else parseBytesAux tok.toList []

def showParse (b : List UInt8) : String :=
  match decodeUtf8 b with
  | none => "undecodable"
  | some text =>
    match parse text with
    | .ok j => "ok " ++ showJson j
    | .error .invalid => "invalid"
    | .error .hugeInt => "hugeInt"
    | .error .unsupported => "unsupported"

def showBytesLoad (cur : PDict Int Node) (b : List UInt8) : String :=
  match classify b with
  | none => "unsupported"
  | some (.value j) => showLoad cur j
  | some fs => showFile cur fs

/-- Executable form of `C15.RealOK`. -/
def realOK (r : PDict Int Node) : Bool := regOK r && regIntsOK r && decide (canonReg r = r) &&
  r.all fun kn => !kn.2.reboot

abbrev DState := PDict Int Node

def step (reg : DState) (line : String) : DState × String :=
  match (line.trimAscii.toString.splitOn " ").filter (· ≠ "") with
  | ["rnew"] => ([], "ok")
  | ["rnode", id, ntype, pv, sn, sv, bat, hb, reboot, sleeping] =>
    (do
      let id ← id.toInt?; let ntype ← ntype.toInt?; let pv ← decodeStr pv; let sn ← decodeStr sn
      let sv ← decodeStr sv; let bat ← bat.toInt?; let hb ← hb.toInt?
      let rb ← parseBool reboot; let sl ← parseBool sleeping
      let node : Node := { ntype := ntype, pv := pv, sketchName := sn, sketchVersion := sv, battery := bat,
                           heartbeat := hb, reboot := rb, sleeping := sl }
      pure (reg.set id node, "ok")).getD (reg, "bad-op")
  | ["rchild", node, key, cid, ctype, desc] =>
    (do
      let nid ← node.toInt?; let key ← key.toInt?; let cid ← cid.toInt?; let ctype ← ctype.toInt?
      let desc ← decodeStr desc
      let n ← reg.get? nid
      pure (reg.set nid { n with children := n.children.set key ⟨cid, ctype, desc, []⟩ }, "ok")).getD (reg, "bad-op")
  | ["rval", node, key, t, v] =>
    (do
      let nid ← node.toInt?; let key ← key.toInt?; let t ← t.toInt?; let v ← decodeStr v
      let n ← reg.get? nid
      let c ← n.children.get? key
      pure (reg.set nid { n with children := n.children.set key { c with values := c.values.set t v } }, "ok")).getD (reg, "bad-op")
  | ["save"] => (reg, showJson (save reg))
  | ["regok"] => (reg, showBool (regOK reg))
  | ["loadsave"] => (reg, showLoad [] (save reg))
  | "load" :: toks =>
    match parseWholeJson toks with
    | some j => (reg, showLoad [] j)
    | none => (reg, "bad-op")
  | "loadinto" :: toks =>
    match parseWholeJson toks with
    | some j => (reg, showLoad reg j)
    | none => (reg, "bad-op")
  | ["file", s] =>
    match parseFileState s with
    | some fs => (reg, showFile reg fs)
    | none => (reg, "bad-op")
  | "legacy" :: toks =>
    match parseWholeJson toks with
    | some j => (reg, showJson (legacyOf j))
    | none => (reg, "bad-op")
  | "jrender" :: toks =>
    match parseWholeJson toks with
    | some j => (reg, showBytes (encodeUtf8 (render 0 j)))
    | none => (reg, "bad-op")
  | "jdumps" :: toks =>
    match parseWholeJson toks with
    | some j => (reg, showBytes (encodeUtf8 (dumpsSorted j)))
    | none => (reg, "bad-op")
  | ["savetext"] => (reg, showBytes (saveBytes reg))
  | ["realok"] => (reg, showBool (realOK reg))
  | ["jparse", tok] =>
    match parseBytes tok with
    | some b => (reg, showParse b)
    | none => (reg, "bad-op")
  | ["bload", tok] =>
    match parseBytes tok with
    | some b => (reg, showBytesLoad reg b)
    | none => (reg, "bad-op")
  | "node" :: toks =>
    match parseWholeJson toks with
    | some j => (reg, match loadNode j with | .ok (id, n) => "ok " ++ showNode id n | .error c => showPy c)
    | none => (reg, "bad-op")
  | "child" :: toks =>
    match parseWholeJson toks with
    | some j => (reg, match loadChild j with | .ok c => "ok " ++ showChild c.cid c | .error c => showPy c)
    | none => (reg, "bad-op")
  | _ => (reg, "bad-op")

partial def loop (h : IO.FS.Stream) (out : IO.FS.Stream) (st : DState) : IO Unit := do
  let line ← h.getLine
  if line.isEmpty then return ()
  let (st', o) := step st line
  out.putStrLn o
  loop h out st'

def main : IO Unit := do
  let out ← IO.getStdout
  loop (← IO.getStdin) out []
  out.flush
