/-
Line-protocol driver for the MQTT transport model (C18).
Run with `lake env lean --run DriverMqtt.lean`; one operation per input line, one observation per
output line.  Strings travel as comma-separated hexadecimal code points, `-` for the empty string;
byte strings the same way (values below 0x100).

  topic <prefix> <line>            -> ok <topic> <payload> <qos> | valueerror
  line <topic> <payload>           -> <line>
  match <filter> <topic>           -> 1 | 0
  subs <prefix>                    -> <filter>:<qos|indexerror> ...
  utf8 <bytes>                     -> ok <str> | invalid
  write <prefix> <line> <outcome>  -> ok <topic> <payload> <qos> | transportFailed | transportError | foreign <Class>
  conn <outcome> <outcome>*        -> ok | transportError | transportFailed | foreign <Class>
  tnew <n|w>                       -> state           (fresh transport; task not started / waiting)
  ev msg <topic> <bytes> | ev err | ev cancel | read  -> state
  qerr                             -> state           (`_receive_error` called directly: a queue arrival)
  disc <outcome>                   -> ok | raise <Class>      (and the task is finished afterwards)
  outcome ::= ok | <Class>
  state   ::= task=<n|w|ok|Class> delivered=[<item>*] waiting=<k> queue=[<item>*],  item ::= m:<line> | e
-/
import AioMySensors.Model.Mqtt

open AioMySensors AioMySensors.Mqtt

def hexVal (c : Char) : Option Nat :=
  if '0' ≤ c ∧ c ≤ '9' then some (c.toNat - 48)
  else if 'a' ≤ c ∧ c ≤ 'f' then some (c.toNat - 87)
  else none

def parseHex (s : String) : Option Nat :=
  if s.isEmpty then none else
  s.toList.foldlM (fun acc c => (hexVal c).map (acc * 16 + ·)) 0

def decodeNats (tok : String) : Option (List Nat) :=
  if tok = "-" then some [] else (tok.splitOn ",").mapM parseHex

def decodeStr (tok : String) : Option Str := (decodeNats tok).map fun l => l.map Char.ofNat

def toHex (n : Nat) : String := String.ofList (Nat.toDigits 16 n)

def encodeStr (s : Str) : String :=
  if s.isEmpty then "-" else ",".intercalate (s.map fun c => toHex c.toNat)

def exnName (c : PyExn) : String := (s!"{repr c}").replace "AioMySensors.PyExn." ""

def parseExn : String → Option PyExn
  | "MqttError" => some .MqttError | "OSError" => some .OSError | "RuntimeError" => some .RuntimeError
  | "CancelledError" => some .CancelledError | "ValueError" => some .ValueError
  | "UnicodeDecodeError" => some .UnicodeDecodeError | "KeyError" => some .KeyError
  | "TypeError" => some .TypeError | "Exception" => some .Exception | _ => none

def parseOutcome (s : String) : Option Outcome :=
  if s = "ok" then some .ok else (parseExn s).map .raised

def showMqttExn : MqttExn → String
  | .transportError => "transportError"
  | .transportFailed => "transportFailed"
  | .foreign c => "foreign " ++ exnName c

def showItem : Item → String
  | .msg l => "m:" ++ encodeStr l
  | .err => "e"

def showTask : TaskState → String
  | .notStarted => "n"
  | .waiting => "w"
  | .finished .ok => "ok"
  | .finished (.raised c) => exnName c

def showState (s : TState) : String :=
  s!"task={showTask s.task} delivered=[" ++ " ".intercalate (s.q.delivered.map showItem) ++
  s!"] waiting={s.q.waiting} queue=[" ++ " ".intercalate (s.q.queue.map showItem) ++ "]"

def showPub (r : Str × Str × Int) : String := s!"ok {encodeStr r.1} {encodeStr r.2.1} {r.2.2}"

def step (st : TState) (line : String) : TState × String :=
  match (line.trimAscii.toString.splitOn " ").filter (· ≠ "") with
  | ["topic", p, l] =>
    match decodeStr p, decodeStr l with
    | some p, some l => (st, match toTopic p l with | some r => showPub r | none => "valueerror")
    | _, _ => (st, "bad-op")
  | ["line", t, p] =>
    match decodeStr t, decodeStr p with
    | some t, some p => (st, encodeStr (toLine t p))
    | _, _ => (st, "bad-op")
  | ["match", f, t] =>
    match decodeStr f, decodeStr t with
    | some f, some t => (st, if matchesFilter f t then "1" else "0")
    | _, _ => (st, "bad-op")
  | ["subs", p] =>
    match decodeStr p with
    | some p => (st, " ".intercalate ((subscriptions p).map fun (f, q) =>
        encodeStr f ++ ":" ++ (match q with | some q => s!"{q}" | none => "indexerror")))
    | none => (st, "bad-op")
  | ["utf8", b] =>
    match decodeNats b with
    | some b => (st, match utf8Decode b with | some s => "ok " ++ encodeStr s | none => "invalid")
    | none => (st, "bad-op")
  | ["write", p, l, o] =>
    match decodeStr p, decodeStr l, parseOutcome o with
    | some p, some l, some o => (st, match write p l o with | .ok r => showPub r | .error e => showMqttExn e)
    | _, _, _ => (st, "bad-op")
  | "conn" :: a :: subs =>
    match parseOutcome a, subs.mapM parseOutcome with
    | some a, some subs => (st, match connect a subs with | .ok _ => "ok" | .error e => showMqttExn e)
    | _, _ => (st, "bad-op")
  | ["tnew", "n"] => let s : TState := { task := .notStarted }; (s, showState s)
  | ["tnew", "w"] => let s : TState := { task := .waiting }; (s, showState s)
  | ["ev", "msg", t, b] =>
    match decodeStr t, decodeNats b with
    | some t, some b => let s := tStep st (.broker (.message t b)); (s, showState s)
    | _, _ => (st, "bad-op")
  | ["ev", "err"] => let s := tStep st (.broker .mqttError); (s, showState s)
  | ["ev", "cancel"] => let s := tStep st (.broker .cancel); (s, showState s)
  | ["read"] => let s := tStep st .read; (s, showState s)
  | ["qerr"] => let s := { st with q := qStep st.q (.arrive .err) }; (s, showState s)
  | ["disc", o] =>
    match parseOutcome o with
    | some o =>
      let r := disconnect st.task o
      (tStep st (.broker .cancel), match r with | .ok => "ok" | .raised c => "raise " ++ exnName c)
    | none => (st, "bad-op")
  | _ => (st, "bad-op")

partial def loop (h : IO.FS.Stream) (out : IO.FS.Stream) (st : TState) : IO Unit := do
  let line ← h.getLine
  if line.isEmpty then return ()
  let (st', o) := step st line
  out.putStrLn o
  loop h out st'

def main : IO Unit := do
  let out ← IO.getStdout
  loop (← IO.getStdin) out {}
  out.flush
