/-
Line-protocol driver for the MQTT transport model (C18).
Run with `lake env lean --run DriverMqtt.lean`; one operation per input line, one observation per
output line.  Strings travel as comma-separated hexadecimal code points, `-` for the empty string;
byte strings the same way (values below 0x100).

  topic <prefix> <line>            -> ok <topic> <payload> <qos> | valueerror
  line <topic> <payload>           -> <line>
  match <filter> <topic>           -> 1 | 0
  subs <prefix>                    -> <filter>:<qos|indexerror> ...
  heard <prefix> <topic>           -> 1 | 0          (does one of the subscriptions `connect` makes under the in-prefix
                                                       AS CONFIGURED match the topic?  `C18.subscribed_iff`)
  utf8 <bytes>                     -> ok <str> | invalid
  write <prefix> <line> <outcome>  -> ok <topic> <payload> <qos> | transportFailed | transportError | foreign <Class>
  conn <outcome> <outcome>*        -> ok | transportError | transportFailed | foreign <Class>
  hconn <prefix> <connect> <disconnect> <subscribe>*  -> res=<ok|Class> cleanup=<0|1> inplace=[<filter>*]
                                      (`MQTTTransport.connect` over the documented hooks: outcomes of `_connect`, of
                                       `_disconnect` in the clean-up and of the `_subscribe` call per filter, any class)
  tnew <n|w>                       -> state           (fresh transport; task not started / waiting)
  ev msg <topic> <bytes> | ev err | ev cancel | read  -> state
  qerr                             -> state           (`_receive_error` called directly: a queue arrival)
  disc <outcome>                   -> ok | raise <Class>      (and the task is finished afterwards)
  outcome ::= ok | <Class>
  state   ::= task=<n|w|ok|Class> delivered=[<item>*] waiting=<k> queue=[<item>*],  item ::= m:<line> | e

The client OBJECT (`Model/MqttObject.lean`), one object at a time:
  onew                                    -> ostate           (a new `MQTTClient`)
  oconnect <aenter> <aexit> <sub>*        -> ostate           (`connect()`; outcomes of `__aenter__`, of `__aexit__`
                                                               in the clean-up, and of each `subscribe`)
  odisconnect <aexit>                     -> ostate
  oev msg <topic> <bytes> | oev err | oev cancel -> ostate    (a broker event on the connection the object holds)
  oread                                   -> ostate
  owrite <prefix> <line> <outcome>        -> ostate
  osub <outcome>                          -> ostate           (`_subscribe` called directly)
  odump                                   -> ostate
  ostate  ::= res=<done|pub:<topic>:<payload>:<qos>|transportError|transportFailed|foreign:<Class>>
              client=<0|1> task=<none|n|w|ok|Class> delivered=[<item>*] waiting=<k> queue=[<item>*]
-/
import AioMySensors.Model.Mqtt
import AioMySensors.Model.MqttObject

open AioMySensors AioMySensors.Mqtt

def hexVal (c : Char) : Option Nat :=
  if '0' ≤ c ∧ c ≤ '9' then some (c.toNat - 48)
  else if 'a' ≤ c ∧ c ≤ 'f' then some (c.toNat - 87)
  else none

def parseHex (s : String) : Option Nat :=
  if s.isEmpty then none else
  s.toList.foldlM (fun acc c => (hexVal c).map (acc * 16 + ·)) 0

def decodeNats (tok : String) : Option (List Nat) :=
  if tok = "-" then some [] else (tok.splitOn ",").mapM parseHex

def decodeStr (tok : String) : Option Str := (decodeNats tok).map fun l => l.map Char.ofNat

def toHex (n : Nat) : String := String.ofList (Nat.toDigits 16 n)

def encodeStr (s : Str) : String :=
  if s.isEmpty then "-" else ",".intercalate (s.map fun c => toHex c.toNat)

def exnName (c : PyExn) : String := (s!"{repr c}").replace "AioMySensors.PyExn." ""

/-- Every class of the vocabulary by its Python name (the hooks and the aiomqtt calls may raise any of them). -/
def parseExn : String → Option PyExn
  | "KeyError" => some .KeyError | "ValueError" => some .ValueError | "TypeError" => some .TypeError
  | "AttributeError" => some .AttributeError | "OverflowError" => some .OverflowError | "RecursionError" => some .RecursionError
  | "UnicodeDecodeError" => some .UnicodeDecodeError | "JSONDecodeError" => some .JSONDecodeError | "OSError" => some .OSError
  | "FileNotFoundError" => some .FileNotFoundError | "ValidationError" => some .ValidationError | "AwesomeVersionException" => some .AwesomeVersionException
  | "AwesomeVersionCompareException" => some .AwesomeVersionCompareException | "LimitOverrunError" => some .LimitOverrunError | "IncompleteReadError" => some .IncompleteReadError
  | "CancelledError" => some .CancelledError | "MqttError" => some .MqttError | "RuntimeError" => some .RuntimeError
  | "IndexError" => some .IndexError | "Exception" => some .Exception
  | _ => none

def parseOutcome (s : String) : Option Outcome :=
  if s = "ok" then some .ok else (parseExn s).map .raised

def showMqttExn : MqttExn → String
  | .transportError => "transportError"
  | .transportFailed => "transportFailed"
  | .foreign c => "foreign " ++ exnName c

def showItem : Item → String
  | .msg l => "m:" ++ encodeStr l
  | .err => "e"

def showTask : TaskState → String
  | .notStarted => "n"
  | .waiting => "w"
  | .finished .ok => "ok"
  | .finished (.raised c) => exnName c

def showState (s : TState) : String :=
  s!"task={showTask s.task} delivered=[" ++ " ".intercalate (s.q.delivered.map showItem) ++
  s!"] waiting={s.q.waiting} queue=[" ++ " ".intercalate (s.q.queue.map showItem) ++ "]"

def showORes : ORes → String
  | .done => "done"
  | .published t p q => s!"pub:{encodeStr t}:{encodeStr p}:{q}"
  | .raised .transportError => "transportError"
  | .raised .transportFailed => "transportFailed"
  | .raised (.foreign c) => "foreign:" ++ exnName c

def showOState (r : ORes) (s : OState) : String :=
  s!"res={showORes r} client={if s.client then 1 else 0} task=" ++
  (match s.task with | none => "none" | some t => showTask t) ++ " delivered=[" ++
  " ".intercalate (s.q.delivered.map showItem) ++
  s!"] waiting={s.q.waiting} queue=[" ++ " ".intercalate (s.q.queue.map showItem) ++ "]"

/-- One object-level command: the operation it stands for. -/
def parseOOp : List String → Option OOp
  | "oconnect" :: a :: x :: subs =>
    match parseOutcome a, parseOutcome x, subs.mapM parseOutcome with
    | some a, some x, some subs => some (.connect a subs x)
    | _, _, _ => none
  | ["odisconnect", x] => (parseOutcome x).map .disconnect
  | ["oev", "msg", t, b] =>
    match decodeStr t, decodeNats b with
    | some t, some b => some (.broker (.message t b))
    | _, _ => none
  | ["oev", "err"] => some (.broker .mqttError)
  | ["oev", "cancel"] => some (.broker .cancel)
  | ["oread"] => some .read
  | ["owrite", p, l, o] =>
    match decodeStr p, decodeStr l, parseOutcome o with
    | some p, some l, some o => some (.write p l o)
    | _, _, _ => none
  | ["osub", o] => (parseOutcome o).map .subscribe
  | _ => none

def showPub (r : Str × Str × Int) : String := s!"ok {encodeStr r.1} {encodeStr r.2.1} {r.2.2}"

def step (st : TState) (line : String) : TState × String :=
  match (line.trimAscii.toString.splitOn " ").filter (· ≠ "") with
  | ["topic", p, l] =>
    match decodeStr p, decodeStr l with
    | some p, some l => (st, match toTopic p l with | some r => showPub r | none => "valueerror")
    | _, _ => (st, "bad-op")
  | ["line", t, p] =>
    match decodeStr t, decodeStr p with
    | some t, some p => (st, encodeStr (toLine t p))
    | _, _ => (st, "bad-op")
  | ["match", f, t] =>
    match decodeStr f, decodeStr t with
    | some f, some t => (st, if matchesFilter f t then "1" else "0")
    | _, _ => (st, "bad-op")
  | ["subs", p] =>
    match decodeStr p with
    | some p => (st, " ".intercalate ((subscriptions p).map fun (f, q) =>
        encodeStr f ++ ":" ++ (match q with | some q => s!"{q}" | none => "indexerror")))
    | none => (st, "bad-op")
  | ["heard", p, t] =>
    match decodeStr p, decodeStr t with
    | some p, some t => (st, if (filters p).any (fun f => matchesFilter f t) then "1" else "0")
    | _, _ => (st, "bad-op")
  | ["utf8", b] =>
    match decodeNats b with
    | some b => (st, match utf8Decode b with | some s => "ok " ++ encodeStr s | none => "invalid")
    | none => (st, "bad-op")
  | ["write", p, l, o] =>
    match decodeStr p, decodeStr l, parseOutcome o with
    | some p, some l, some o => (st, match write p l o with | .ok r => showPub r | .error e => showMqttExn e)
    | _, _, _ => (st, "bad-op")
  | "conn" :: a :: subs =>
    match parseOutcome a, subs.mapM parseOutcome with
    | some a, some subs => (st, match connect a subs with | .ok _ => "ok" | .error e => showMqttExn e)
    | _, _ => (st, "bad-op")
  | "hconn" :: p :: c :: d :: subs =>
    match decodeStr p, parseOutcome c, parseOutcome d, subs.mapM parseOutcome with
    | some p, some c, some d, some subs =>
      -- the k-th token is the outcome of the `_subscribe` call for the k-th filter
      let fs := filters p
      let r := hookConnect p c (fun f => (subs[fs.idxOf f]?).getD .ok) d
      (st, s!"res={match r.result with | .ok => "ok" | .raised e => exnName e} cleanup={if r.cleanedUp then 1 else 0} inplace=["
        ++ " ".intercalate (r.inPlace.map encodeStr) ++ "]")
    | _, _, _, _ => (st, "bad-op")
  | ["tnew", "n"] => let s : TState := { task := .notStarted }; (s, showState s)
  | ["tnew", "w"] => let s : TState := { task := .waiting }; (s, showState s)
  | ["ev", "msg", t, b] =>
    match decodeStr t, decodeNats b with
    | some t, some b => let s := tStep st (.broker (.message t b)); (s, showState s)
    | _, _ => (st, "bad-op")
  | ["ev", "err"] => let s := tStep st (.broker .mqttError); (s, showState s)
  | ["ev", "cancel"] => let s := tStep st (.broker .cancel); (s, showState s)
  | ["read"] => let s := tStep st .read; (s, showState s)
  | ["qerr"] => let s := { st with q := qStep st.q (.arrive .err) }; (s, showState s)
  | ["disc", o] =>
    match parseOutcome o with
    | some o =>
      let r := disconnect st.task o
      (tStep st (.broker .cancel), match r with | .ok => "ok" | .raised c => "raise " ++ exnName c)
    | none => (st, "bad-op")
  | _ => (st, "bad-op")

/-- Commands starting with `o` act on the object state, everything else on the transport state. -/
def stepAll (st : TState × OState) (line : String) : (TState × OState) × String :=
  let toks := (line.trimAscii.toString.splitOn " ").filter (· ≠ "")
  match toks with
  | ["onew"] => ((st.1, {}), showOState .done {})
  | ["odump"] => (st, showOState .done st.2)
  | tok :: _ =>
    if tok.startsWith "o" then
      match parseOOp toks with
      | some op => let r := oStep st.2 op; ((st.1, r.1), showOState r.2 r.1)
      | none => (st, "bad-op")
    else
      let r := step st.1 line; ((r.1, st.2), r.2)
  | [] => (st, "bad-op")

partial def loop (h : IO.FS.Stream) (out : IO.FS.Stream) (st : TState × OState) : IO Unit := do
  let line ← h.getLine
  if line.isEmpty then return ()
  let (st', o) := stepAll st line
  out.putStrLn o
  loop h out st'

def main : IO Unit := do
  let out ← IO.getStdout
  loop (← IO.getStdin) out ({}, {})
  out.flush
