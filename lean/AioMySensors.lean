-- Root of the library: models, lemmas and property theorems.
import AioMySensors.Model
import AioMySensors.Properties.C01
import AioMySensors.Properties.C02
