-- Root of the library: models, lemmas and property theorems.
import AioMySensors.Model
import AioMySensors.Properties.C01
import AioMySensors.Properties.C02
import AioMySensors.Properties.C03
import AioMySensors.Properties.C18
import AioMySensors.Properties.C05
import AioMySensors.Properties.C17
import AioMySensors.Properties.C09
