-- Root of the library: models, lemmas and property theorems.
import AioMySensors.Model
import AioMySensors.Properties.C01
import AioMySensors.Properties.C02
import AioMySensors.Properties.C03
import AioMySensors.Properties.C18
import AioMySensors.Properties.C05
import AioMySensors.Properties.C17
import AioMySensors.Properties.C09
import AioMySensors.Properties.C10
import AioMySensors.Properties.C11
import AioMySensors.Properties.C15
import AioMySensors.Properties.C16
