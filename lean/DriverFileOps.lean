/-
Line-protocol driver for the file-operation model (C15).  `lake env lean --run DriverFileOps.lean`.
Bytes travel as two hexadecimal digits per byte, `-` for the empty string.

  ops <new>                     -> the operation sequence of `saveOps new`
  opsatomic <new>               -> the operation sequence of `saveOpsAtomic new`
  count <old> <new>             -> number of crash states of `saveOps`
  digest <old> <new>            -> every crash state of `saveOps` as  L<len>:<hash>/T<len>:<hash>  (`L-` = missing)
  crashat <old> <new> <i,i,…>   -> the crash states of `saveOps` at these indexes, in full
  adigest / acrashat            -> the same for `saveOpsAtomic`
  toyload <bytes>               -> the toy loader
  bdigest <old|missing> <op>…   -> every crash state of that operation sequence under BUFFERED writes (`crashStatesB`:
                                   any prefix of every handle's unflushed text on disk), as digests; ops in `showOp` notation
-/
import AioMySensors.Model.FileOps
import AioMySensors.Model.FileOpsBuffered

open AioMySensors.FileOps

def hexVal (c : Char) : Option Nat :=
  if '0' ≤ c ∧ c ≤ '9' then some (c.toNat - 48)
  else if 'a' ≤ c ∧ c ≤ 'f' then some (c.toNat - 87)
  else none

def decodeBytesAux : List Char → Option Bytes
  | [] => some []
  | a :: b :: rest => do
    let x ← hexVal a; let y ← hexVal b; let r ← decodeBytesAux rest
    pure (UInt8.ofNat (x * 16 + y) :: r)
  | _ => none

def decodeBytes (tok : String) : Option Bytes :=
  if tok = "-" then some [] else decodeBytesAux tok.toList

def hexDigit (n : Nat) : Char := if n < 10 then Char.ofNat (48 + n) else Char.ofNat (87 + n)

def encodeBytes (b : Bytes) : String :=
  if b.isEmpty then "-" else
  String.ofList (b.foldr (fun x acc => hexDigit (x.toNat / 16) :: hexDigit (x.toNat % 16) :: acc) [])

def hashBytes (b : Bytes) : Nat := b.foldl (fun h x => (h * 257 + x.toNat + 1) % 1000000007) 0

def showPath : Path → String
  | .live => "live" | .tmp => "tmp"

def showOp : FsOp → String
  | .openTrunc p => s!"openTrunc:{showPath p}"
  | .write p d => s!"write:{showPath p}:{encodeBytes d}"
  | .close p => s!"close:{showPath p}"
  | .rename a b => s!"rename:{showPath a}:{showPath b}"

def showOps (ops : List FsOp) : String := " ".intercalate (ops.map showOp)

def digestFile (tag : String) : Option Bytes → String
  | none => tag ++ "-"
  | some b => s!"{tag}{b.length}:{hashBytes b}"

def digestFs (fs : Fs) : String := digestFile "L" fs.live ++ "/" ++ digestFile "T" fs.tmp

def fullFile : Option Bytes → String
  | none => "missing"
  | some b => encodeBytes b

def fullFs (fs : Fs) : String := "live=" ++ fullFile fs.live ++ "/tmp=" ++ fullFile fs.tmp

def parseIdx (s : String) : Option (List Nat) := (s.splitOn ",").mapM String.toNat?

def showLoad : LoadResult Nat → String
  | .ok n => s!"ok {n}"
  | .readError => "readError"
  | .other => "other"

def states (atomic : Bool) (old new : Bytes) : List Fs :=
  crashStates (Fs.init old) (if atomic then saveOpsAtomic new else saveOps new)

def parsePath : String → Option Path
  | "live" => some .live
  | "tmp" => some .tmp
  | _ => none

def parseOp (tok : String) : Option FsOp :=
  match tok.splitOn ":" with
  | ["openTrunc", p] => (parsePath p).map .openTrunc
  | ["write", p, d] => do let p ← parsePath p; let d ← decodeBytes d; pure (.write p d)
  | ["close", p] => (parsePath p).map .close
  | ["rename", a, b] => do let a ← parsePath a; let b ← parsePath b; pure (.rename a b)
  | _ => none

def bufferedDigests (old : String) (ops : List String) : String :=
  let init : Option BFs := if old = "missing" then some { disk := { live := none } } else (decodeBytes old).map BFs.init
  match init, ops.mapM parseOp with
  | some b, some ops => " ".intercalate ((crashStatesB b ops).map digestFs).eraseDups
  | _, _ => "bad-op"

def step (line : String) : String :=
  match (line.trimAscii.toString.splitOn " ").filter (· ≠ "") with
  | "bdigest" :: o :: ops => bufferedDigests o ops
  | ["ops", n] => match decodeBytes n with
    | some n => showOps (saveOps n)
    | none => "bad-op"
  | ["opsatomic", n] => match decodeBytes n with
    | some n => showOps (saveOpsAtomic n)
    | none => "bad-op"
  | ["count", o, n] => match decodeBytes o, decodeBytes n with
    | some o, some n => toString (states false o n).length
    | _, _ => "bad-op"
  | [cmd, o, n] => match decodeBytes o, decodeBytes n with
    | some o, some n =>
      if cmd = "digest" then " ".intercalate ((states false o n).map digestFs)
      else if cmd = "adigest" then " ".intercalate ((states true o n).map digestFs)
      else "bad-op"
    | _, _ => "bad-op"
  | [cmd, o, n, idx] => match decodeBytes o, decodeBytes n, parseIdx idx with
    | some o, some n, some idx =>
      if cmd = "crashat" ∨ cmd = "acrashat" then
        let ss := (states (cmd = "acrashat") o n).toArray
        " ".intercalate (idx.map fun i => match ss[i]? with | some fs => fullFs fs | none => "out-of-range")
      else "bad-op"
    | _, _, _ => "bad-op"
  | ["toyload", b] => match decodeBytes b with
    | some b => showLoad (toyLoad b)
    | none => "bad-op"
  | _ => "bad-op"

partial def loop (h : IO.FS.Stream) (out : IO.FS.Stream) : IO Unit := do
  let line ← h.getLine
  if line.isEmpty then return ()
  out.putStrLn (step line)
  loop h out

def main : IO Unit := do
  let out ← IO.getStdout
  loop (← IO.getStdin) out
  out.flush
