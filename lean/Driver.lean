/-
Line-protocol driver for the executable model (DESIGN section 3.2).
Run with `lake env lean --run Driver.lean`; one operation per input line, one observation per
output line.  Strings travel as comma-separated hexadecimal code points, `-` for the empty string.
-/
import AioMySensors.Model.Codec
import AioMySensors.Model.Version
import AioMySensors.Model.Handlers
import AioMySensors.Model.WriteSpec
import AioMySensors.Model.RegistrySpec
import AioMySensors.Model.Objects

open AioMySensors

def hexVal (c : Char) : Option Nat :=
  if '0' ≤ c ∧ c ≤ '9' then some (c.toNat - 48)
  else if 'a' ≤ c ∧ c ≤ 'f' then some (c.toNat - 87)
  else none

def parseHex (s : String) : Option Nat :=
  if s.isEmpty then none else
  s.toList.foldlM (fun acc c => (hexVal c).map (acc * 16 + ·)) 0

def decodeStr (tok : String) : Option Str :=
  if tok = "-" then some [] else
  (tok.splitOn ",").mapM fun h => (parseHex h).map Char.ofNat

def toHex (n : Nat) : String := String.ofList (Nat.toDigits 16 n)

def encodeStr (s : Str) : String :=
  if s.isEmpty then "-" else ",".intercalate (s.map fun c => toHex c.toNat)

def parseVer : String → Option Ver
  | "1.4" => some .v14 | "1.5" => some .v15 | "2.0" => some .v20
  | "2.1" => some .v21 | "2.2" => some .v22 | _ => none

def verStr : Ver → String
  | .v14 => "1.4" | .v15 => "1.5" | .v20 => "2.0" | .v21 => "2.1" | .v22 => "2.2"

def showMsg (m : Msg) : String :=
  s!"{m.node} {m.child} {m.cmd} {m.ack} {m.type} {encodeStr m.payload}"

def parseMsg : List String → Option Msg
  | [n, c, cmd, ack, t, p] => do
    let n ← n.toInt?; let c ← c.toInt?; let cmd ← cmd.toInt?; let ack ← ack.toInt?
    let t ← t.toInt?; let p ← decodeStr p
    pure ⟨n, c, cmd, ack, t, p⟩
  | _ => none

structure DState where
  gw : St := {}
  env : Env := {}
  /-- the registry specification (`Model/RegistrySpec.lean`), advanced by `srecv` only -/
  spec : SpecSt := {}
  /-- the caller's `Message` objects and the sleep-buffer entries that are one of them (`Model/Objects.lean`) -/
  heap : PDict ObjId Msg := []
  refs : PDict Key ObjId := []

def showBool (b : Bool) : String := if b then "1" else "0"

def showAvErr : AvErr → String
  | .compare => "AwesomeVersionCompareException"
  | .value => "ValueError"
  | .index => "IndexError"

def showStrategy : AvStrategy → String
  | .buildVer => "BuildVer" | .calVer => "CalVer" | .hexVer => "HexVer" | .semVer => "SemVer"
  | .specialContainer => "SpecialContainer" | .simpleVer => "SimpleVer" | .pep440 => "PEP440" | .unknown => "unknown"

def showExn : Exn → String
  | .lib .invalidMessage => "err invalidMessage"
  | .lib (.missingNode n) => s!"err missingNode {n}"
  | .lib (.missingChild c) => s!"err missingChild {c}"
  | .lib .tooManyNodes => "err tooManyNodes"
  | .lib .unsupported => "err unsupported"
  | .lib .transportFailed => "err transportFailed"
  | .foreign c => s!"foreign {repr c}".replace "AioMySensors.PyExn." ""

def showWrites (ws : List WriteEvt) : String :=
  " W" ++ String.join (ws.map fun w => s!" {encodeStr w.line}:{showBool w.ok}")

def showValues (vs : PDict Int Str) : String :=
  "{" ++ ",".intercalate (vs.map fun (t, v) => s!"{t}={encodeStr v}") ++ "}"

def showChild (k : Int) (c : Child) : String :=
  s!"{k}/{c.cid}/{c.ctype}/{encodeStr c.desc}/{showValues c.values}"

def showNode (k : Int) (n : Node) : String :=
  s!"{k}:{n.ntype}:{encodeStr n.pv}:{encodeStr n.sketchName}:{encodeStr n.sketchVersion}:{n.battery}:{n.heartbeat}:" ++
  s!"{showBool n.reboot}:{showBool n.sleeping}:[" ++ ";".intercalate (n.children.map fun (k, c) => showChild k c) ++ "]"

def showKey (k : Key) : String := s!"{k.1}.{k.2.1}.{k.2.2}"

def showSt (s : St) : String :=
  let pv := match s.pv with | some p => "pv=" ++ encodeStr p | none => "pv=none"
  s!"{pv} proto={verStr s.proto} nodes=[" ++ "|".intercalate (s.nodes.map fun (k, n) => showNode k n) ++ "] ibuf=[" ++
  " ".intercalate (s.ibuf.map fun (k, _) => showKey k) ++ "] sbuf=[" ++
  " ".intercalate (s.sbuf.map fun (k, m) => showKey k ++ "=" ++ encodeStr m.payload) ++ "]"

def showSpec (s : SpecSt) : String :=
  s!"proto={verStr s.proto} nodes=[" ++ "|".intercalate (s.nodes.map fun (k, n) => showNode k n) ++ "]"

def parseFaults (s : String) : Option (List Fault) :=
  if s = "-" then some [] else s.toList.mapM fun c =>
    if c = '1' then some .fail else if c = '0' then some .pass else if c = 'c' then some .cancel else none

def parseBool : String → Option Bool
  | "1" => some true | "0" => some false | _ => none

def showObs (o : Obs) : String :=
  (match o.out with
   | .ok (some m) => "ok " ++ showMsg m
   | .ok none => "ok"
   | .error e => showExn e) ++ showWrites o.writes

/-- One operation of `Model/Objects.lean` (`ostep`) on the gateway and the caller's objects. -/
def runO (st : DState) (ops : List OOp) : DState × String :=
  let o : OSt := { gw := st.gw, heap := st.heap, refs := st.refs }
  let (o', obs) := orun o ops
  ({ st with gw := o'.gw, heap := o'.heap, refs := o'.refs }, match obs.getLast? with | some ob => showObs ob | none => "bad-op")

def runM {α : Type} (st : DState) (faults : List Fault) (x : M α) (showA : α → String) : DState × String :=
  match x { st := st.gw, faults := faults } with
  | (.ok a, w) => ({ st with gw := w.st }, showA a ++ showWrites w.writes)
  | (.error e, w) => ({ st with gw := w.st }, showExn e ++ showWrites w.writes)

def stepCore (st : DState) (line : String) : DState × String :=
  match (line.trimAscii.toString.splitOn " ").filter (· ≠ "") with
  | ["dec", v, l] =>
    match parseVer v, decodeStr l with
    | some v, some l =>
      match decode v l with
      | some m => (st, "ok " ++ showMsg m)
      | none => (st, "invalid")
    | _, _ => (st, "bad-op")
  | "enc" :: rest =>
    match parseMsg rest with
    | some m => (st, encodeStr (encode m))
    | none => (st, "bad-op")
  | ["int", s] =>
    match decodeStr s with
    | some s => (st, match pyInt? s with | some n => s!"ok {n}" | none => "invalid")
    | none => (st, "bad-op")
  | ["sel", s] =>
    -- `get_protocol(s)`: the protocol or the exception class (exact model, `IndexError` included)
    match decodeStr s with
    | some s => (st, match getProtocolX s with | .ok v => "ok " ++ verStr v | .error e => "exc " ++ showAvErr e)
    | none => (st, "bad-op")
  | ["avs", s] =>
    -- awesomeversion view of `s`: strategy, then `AwesomeVersion(s) < AwesomeVersion(key)` for every key, newest first
    match decodeStr s with
    | some s =>
      let str := avString (avNorm s)
      let strat := avStrategy str
      (st, showStrategy strat ++ String.join (keysDesc.map fun k =>
        " " ++ match avLtKeyOf str strat k.2.1 k.2.2 with
          | .ok true => "T" | .ok false => "F" | .error e => showAvErr e))
    | none => (st, "bad-op")
  | ["selr", s] =>
    -- the release-grammar definition (`getProtocolRelease?`)
    match decodeStr s with
    | some s => (st, match getProtocolRelease? s with | some v => "ok " ++ verStr v | none => "none")
    | none => (st, "bad-op")
  | ["flt", s] =>
    match decodeStr s with
    | some s => (st, match pyRoundFloat s with | .ok n => s!"ok {n}" | .error c => s!"{repr c}".replace "AioMySensors.PyExn." "")
    | none => (st, "bad-op")
  | ["gnew", v, metric] =>
    match parseBool metric with
    | none => (st, "bad-op")
    | some mt =>
      if v = "-" then ({ st with gw := {}, heap := [], refs := [], env := { st.env with metric := mt } }, "ok")
      else match decodeStr v with
        | none => (st, "bad-op")
        | some vs => match getProtocol? vs with
          | some ver => ({ st with gw := { pv := some vs, proto := ver }, heap := [], refs := [],
                                     env := { st.env with metric := mt } }, "ok")
          | none => (st, "bad-op")
  | ["gnode", id, ntype, pv, sn, sv, bat, hb, reboot, sleeping] =>
    (do
      let id ← id.toInt?; let ntype ← ntype.toInt?; let pv ← decodeStr pv; let sn ← decodeStr sn
      let sv ← decodeStr sv; let bat ← bat.toInt?; let hb ← hb.toInt?
      let rb ← parseBool reboot; let sl ← parseBool sleeping
      let node : Node := { ntype := ntype, pv := pv, sketchName := sn, sketchVersion := sv, battery := bat,
                           heartbeat := hb, reboot := rb, sleeping := sl }
      pure ({ st with gw := { st.gw with nodes := st.gw.nodes.set id node } }, "ok")).getD (st, "bad-op")
  | ["gchild", node, key, cid, ctype, desc] =>
    (do
      let nid ← node.toInt?; let key ← key.toInt?; let cid ← cid.toInt?; let ctype ← ctype.toInt?
      let desc ← decodeStr desc
      let n ← st.gw.nodes.get? nid
      let n' := { n with children := n.children.set key ⟨cid, ctype, desc, []⟩ }
      pure ({ st with gw := { st.gw with nodes := st.gw.nodes.set nid n' } }, "ok")).getD (st, "bad-op")
  | ["gval", node, key, t, v] =>
    (do
      let nid ← node.toInt?; let key ← key.toInt?; let t ← t.toInt?; let v ← decodeStr v
      let n ← st.gw.nodes.get? nid
      let c ← n.children.get? key
      let n' := { n with children := n.children.set key { c with values := c.values.set t v } }
      pure ({ st with gw := { st.gw with nodes := st.gw.nodes.set nid n' } }, "ok")).getD (st, "bad-op")
  | ["grecv", line, faults, y, mo, d, h, mi, sec] =>
    (do
      let line ← decodeStr line; let faults ← parseFaults faults
      let y ← y.toNat?; let mo ← mo.toNat?; let d ← d.toNat?; let h ← h.toNat?; let mi ← mi.toNat?; let sec ← sec.toNat?
      let env := { st.env with year := y, month := mo, day := d, hour := h, minute := mi, second := sec }
      pure (runO st [.plain (.recv env line faults)])).getD (st, "bad-op")
  | ["gspec", line, faults, y, mo, d, h, mi, sec] =>
    -- C06's specification (`Model/WriteSpec.lean`) evaluated at the current state; the state is not changed
    (do
      let line ← decodeStr line; let faults ← parseFaults faults
      let y ← y.toNat?; let mo ← mo.toNat?; let d ← d.toNat?; let h ← h.toNat?; let mi ← mi.toNat?; let sec ← sec.toNat?
      let env := { st.env with year := y, month := mo, day := d, hour := h, minute := mi, second := sec }
      pure (st, match decode st.gw.proto line with
        | some m => "spec" ++ showWrites (expectedAttempts env st.gw m faults)
        | none => "invalid")).getD (st, "bad-op")
  | ["gspecx", line, faults, y, mo, d, h, mi, sec] =>
    -- the exception the specification says the step ends in because of its writes (`expectedExn`), or `none`
    (do
      let line ← decodeStr line; let faults ← parseFaults faults
      let y ← y.toNat?; let mo ← mo.toNat?; let d ← d.toNat?; let h ← h.toNat?; let mi ← mi.toNat?; let sec ← sec.toNat?
      let env := { st.env with year := y, month := mo, day := d, hour := h, minute := mi, second := sec }
      pure (st, match decode st.gw.proto line with
        | some m => (match expectedExn env st.gw m faults with | some e => showExn e | none => "none")
        | none => "invalid")).getD (st, "bad-op")
  | "gsend" :: buffer :: faults :: rest =>
    (do
      let buffer ← parseBool buffer; let faults ← parseFaults faults
      let obj ← match rest with
        | ["notmsg"] => some none
        | _ => (parseMsg rest).map some
      pure (runO st [.plain (.send obj buffer faults)])).getD (st, "bad-op")
  | "gsendo" :: h :: buffer :: faults :: rest =>
    -- the caller's object `h` (created reading these fields when `h` is new; otherwise the caller first assigns to
    -- the attributes that differ), handed to `send`
    (do
      let h ← h.toNat?; let buffer ← parseBool buffer; let faults ← parseFaults faults
      let m ← parseMsg rest
      pure (runO st [.assign h m, .sendObj h buffer faults])).getD (st, "bad-op")
  | "gassign" :: h :: rest =>
    -- the caller assigns to attributes of its object `h` (or creates it) without sending it
    (do
      let h ← h.toNat?
      let m ← parseMsg rest
      pure (runO st [.assign h m])).getD (st, "bad-op")
  | ["gdump"] => (st, showSt st.gw)
  | ["srecv", line] =>
    match decodeStr line with
    | some line =>
      let sp := specStep st.spec (.recv {} line [])
      ({ st with spec := sp }, showSpec sp)
    | none => (st, "bad-op")
  | ["sdump"] => (st, showSpec st.spec)
  | _ => (st, "bad-op")

/-- The setup operations define the start state of the handler model and of the specification alike;
afterwards `grecv`/`gsend` advance the former and `srecv` the latter, independently. -/
def step (st : DState) (line : String) : DState × String :=
  let (st', o) := stepCore st line
  if ["gnew", "gnode", "gchild", "gval"].any (fun p => line.startsWith p) then ({ st' with spec := st'.gw.abs }, o)
  else (st', o)

partial def loop (h : IO.FS.Stream) (out : IO.FS.Stream) (st : DState) : IO Unit := do
  let line ← h.getLine
  if line.isEmpty then return ()
  let (st', o) := step st line
  out.putStrLn o
  loop h out st'

def main : IO Unit := do
  let out ← IO.getStdout
  loop (← IO.getStdin) out {}
  out.flush
