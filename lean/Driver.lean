/-
Line-protocol driver for the executable model (DESIGN section 3.2).
Run with `lake env lean --run Driver.lean`; one operation per input line, one observation per
output line.  Strings travel as comma-separated hexadecimal code points, `-` for the empty string.
-/
import AioMySensors.Model.Codec
import AioMySensors.Model.Version

open AioMySensors

def hexVal (c : Char) : Option Nat :=
  if '0' ≤ c ∧ c ≤ '9' then some (c.toNat - 48)
  else if 'a' ≤ c ∧ c ≤ 'f' then some (c.toNat - 87)
  else none

def parseHex (s : String) : Option Nat :=
  if s.isEmpty then none else
  s.toList.foldlM (fun acc c => (hexVal c).map (acc * 16 + ·)) 0

def decodeStr (tok : String) : Option Str :=
  if tok = "-" then some [] else
  (tok.splitOn ",").mapM fun h => (parseHex h).map Char.ofNat

def toHex (n : Nat) : String := String.ofList (Nat.toDigits 16 n)

def encodeStr (s : Str) : String :=
  if s.isEmpty then "-" else ",".intercalate (s.map fun c => toHex c.toNat)

def parseVer : String → Option Ver
  | "1.4" => some .v14 | "1.5" => some .v15 | "2.0" => some .v20
  | "2.1" => some .v21 | "2.2" => some .v22 | _ => none

def verStr : Ver → String
  | .v14 => "1.4" | .v15 => "1.5" | .v20 => "2.0" | .v21 => "2.1" | .v22 => "2.2"

def showMsg (m : Msg) : String :=
  s!"{m.node} {m.child} {m.cmd} {m.ack} {m.type} {encodeStr m.payload}"

def parseMsg : List String → Option Msg
  | [n, c, cmd, ack, t, p] => do
    let n ← n.toInt?; let c ← c.toInt?; let cmd ← cmd.toInt?; let ack ← ack.toInt?
    let t ← t.toInt?; let p ← decodeStr p
    pure ⟨n, c, cmd, ack, t, p⟩
  | _ => none

structure DState where
  dummy : Unit := ()

def step (st : DState) (line : String) : DState × String :=
  match (line.trimAscii.toString.splitOn " ").filter (· ≠ "") with
  | ["dec", v, l] =>
    match parseVer v, decodeStr l with
    | some v, some l =>
      match decode v l with
      | some m => (st, "ok " ++ showMsg m)
      | none => (st, "invalid")
    | _, _ => (st, "bad-op")
  | "enc" :: rest =>
    match parseMsg rest with
    | some m => (st, encodeStr (encode m))
    | none => (st, "bad-op")
  | ["int", s] =>
    match decodeStr s with
    | some s => (st, match pyInt? s with | some n => s!"ok {n}" | none => "invalid")
    | none => (st, "bad-op")
  | ["sel", s] =>
    match decodeStr s with
    | some s => (st, match getProtocol? s with | some v => "ok " ++ verStr v | none => "rejected")
    | none => (st, "bad-op")
  | _ => (st, "bad-op")

partial def loop (h : IO.FS.Stream) (out : IO.FS.Stream) (st : DState) : IO Unit := do
  let line ← h.getLine
  if line.isEmpty then return ()
  let (st', o) := step st line
  out.putStrLn o
  loop h out st'

def main : IO Unit := do
  let out ← IO.getStdout
  loop (← IO.getStdin) out {}
  out.flush
