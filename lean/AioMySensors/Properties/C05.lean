/-
C05 — The active protocol is the newest supported one not newer than the reported version.

`selectVer` models `get_protocol` over the generated `PROTOCOL_VERSIONS` keys; `hVersion` models the
version handler and the `protocol_version` setter (resolve first, store after).  The reported
version reaches `hVersion` through the version reply (internal type I_VERSION) and through the
gateway's (node 0) presentation — both via the generated chains.  Strings outside the release
grammar `d+(.d+){1,3}` that awesomeversion nevertheless accepts are unmodelled (DESIGN 7, C05).
-/
import AioMySensors.Lemmas.Rel

namespace AioMySensors.C05
open AioMySensors M

/-- `x` is at least the key `k` (major.minor, numerically). -/
def keyLe (k x : Nat × Nat) : Prop := k.1 < x.1 ∨ (k.1 = x.1 ∧ k.2 ≤ x.2)

theorem find?_cons_ite {α} (p : α → Bool) (a : α) (as : List α) :
    (a :: as).find? p = if p a = true then some a else as.find? p := by
  simp only [List.find?]; cases p a <;> simp

theorem keyLt_iff (x y : Nat × Nat) : keyLt x y = true ↔ (x.1 < y.1 ∨ (x.1 = y.1 ∧ x.2 < y.2)) := by
  simp [keyLt]

/-- `get_protocol` over the generated keys, as a decision list on major.minor. -/
theorem selectVer_eq (a b : Nat) : selectVer (a, b) =
    if 2 < a ∨ (2 = a ∧ 2 ≤ b) then .v22 else if 2 = a ∧ 1 ≤ b then .v21 else if 2 = a then .v20
    else if (1 = a ∧ 5 ≤ b) then .v15 else .v14 := by
  simp only [selectVer, keysDesc, Gen.versionKeys, Gen.defaultVersion, List.reverse_cons, List.reverse_nil,
    List.nil_append, List.cons_append, find?_cons_ite, List.find?_nil, Bool.not_eq_true', ← Bool.not_eq_true, keyLt_iff]
  repeat' split
  all_goals simp_all
  all_goals grind

theorem Ver.le_def (a b : Ver) : a ≤ b ↔ a.toNat ≤ b.toNat := Iff.rfl

/-- **Selection.** `selectVer x` is the newest supported protocol whose major.minor does not
exceed `x`, and the default protocol (1.4) when every supported one is newer than `x`. -/
theorem select_spec (x : Nat × Nat) :
    (∀ k ∈ Gen.versionKeys, keyLe (k.2.1, k.2.2) x → k.1 ≤ selectVer x) ∧
    ((∃ k ∈ Gen.versionKeys, k.1 = selectVer x ∧ keyLe (k.2.1, k.2.2) x) ∨
     (selectVer x = Gen.defaultVersion ∧ ∀ k ∈ Gen.versionKeys, ¬ keyLe (k.2.1, k.2.2) x)) := by
  obtain ⟨a, b⟩ := x
  rw [selectVer_eq]
  simp only [Gen.versionKeys, Gen.defaultVersion, keyLe, List.mem_cons, List.mem_nil_iff, or_false, forall_eq_or_imp,
    exists_eq_or_imp, forall_eq, exists_eq_left]
  repeat' split
  all_goals simp_all [Ver.le_def, Ver.toNat]
  all_goals grind

/-- The statement's examples. -/
theorem select_examples :
    getProtocol? "2.2.0".toList = some .v22 ∧ getProtocol? "2.3.2".toList = some .v22 ∧
    getProtocol? "2.1.1".toList = some .v21 ∧ getProtocol? "2.0.0".toList = some .v20 ∧
    getProtocol? "1.5.0".toList = some .v15 ∧ getProtocol? "1.4.9".toList = some .v14 ∧
    getProtocol? "0.9".toList = some .v14 ∧ getProtocol? "2.2".toList = some .v22 ∧
    getProtocol? "9999999999999.0".toList = some .v22 ∧ getProtocol? "garbage".toList = none ∧
    getProtocol? "".toList = none ∧ getProtocol? "2.0-beta".toList = none := by decide

/-- The reported version and the active protocol agree. -/
def Coherent (st : St) : Prop :=
  match st.pv with
  | none => st.proto = Gen.defaultVersion
  | some s => getProtocol? s = some st.proto

theorem getProtocolE_ok {s : Str} {v : Ver} (h : getProtocolE s = .ok v) : getProtocol? s = some v := by
  unfold getProtocolE at h
  unfold getProtocol?
  split at h
  · next p hp => simp only [Except.ok.injEq] at h; simp [hp, h]
  · dsimp only at h; split at h <;> exact absurd h (by simp)

/-- The relation "coherence is not lost". -/
def KeepsCoherent : W → W → Prop := OnSt fun s s' => Coherent s → Coherent s'

theorem keeps_of_same {f : St → St} (hpv : ∀ s, (f s).pv = s.pv) (hproto : ∀ s, (f s).proto = s.proto) :
    Rel KeepsCoherent (modifySt f) :=
  Rel.modifySt f fun s h => by simpa [Coherent, hpv s, hproto s] using h

theorem preO : PreO KeepsCoherent := OnSt.preO (fun _ h => h) (fun h1 h2 h => h2 (h1 h))

theorem stepRel (m : Msg) : StepRel KeepsCoherent m where
  pre := preO
  write := fun _ _ => Rel.transportWrite (fun _ h => h) _
  setNode := fun _ => keeps_of_same (fun _ => rfl) (fun _ => rfl)
  alloc := keeps_of_same (fun _ => rfl) (fun _ => rfl)
  erase := fun _ _ _ => keeps_of_same (fun s => by split <;> rfl) (fun s => by split <;> rfl)
  mark := keeps_of_same (fun _ => rfl) (fun _ => rfl)
  unmark := keeps_of_same (fun s => by split <;> rfl) (fun s => by split <;> rfl)
  version := fun v h => Rel.modifySt _ fun s _ => by simpa [Coherent] using getProtocolE_ok h

theorem park_keeps (m : Msg) : Rel KeepsCoherent (parkMod m) := keeps_of_same (fun _ => rfl) (fun _ => rfl)

/-- **Coherence is an invariant of receiving**, whatever the line, the outcome (also a rejected
version report or any other error) and the write faults. -/
theorem coherent_recv (env : Env) (line : Str) (w : W) (h : Coherent w.st) : Coherent (recv env line w).2.st :=
  (rel_recv preO (fun _ m _ => stepRel m) (ParkOK.of_all park_keeps) env).step w h

theorem coherent_send (obj : Option Msg) (b : Bool) (w : W) (h : Coherent w.st) : Coherent (apiSend obj b w).2.st :=
  (rel_apiSend preO (fun _ => Rel.transportWrite (fun _ h => h) _) (fun sm _ => park_keeps sm) obj b).step w h

theorem coherent_step (st : St) (op : Op) (h : Coherent st) : Coherent (stepOp st op).1 := by
  cases op with
  | recv env line faults =>
    have := coherent_recv env line { st := st, faults := faults } h
    simp only [stepOp]; split <;> simp_all
  | send obj b faults =>
    have := coherent_send obj b { st := st, faults := faults } h
    simp only [stepOp]; split <;> simp_all

/-- No version reported yet: protocol 1.4 is active. -/
theorem coherent_init : Coherent {} := by simp [Coherent]

/-- **Every history**: the reported version and the active rules never disagree. -/
theorem coherent_history (ops : List Op) (st : St) (h : Coherent st) : Coherent (stateAfter st ops) := by
  induction ops generalizing st with
  | nil => simpa [stateAfter, run] using h
  | cons op ops ih =>
    have := ih _ (coherent_step st op h)
    simpa [stateAfter, run] using this

/-- An accepted report installs the reported string and the selected protocol together. -/
theorem accepted_report (m : Msg) (v : Ver) (w : W) (h : getProtocol? m.payload = some v) :
    (hVersion m w).2.st.pv = some m.payload ∧ (hVersion m w).2.st.proto = v ∧ (hVersion m w).1 = .ok m := by
  have he : getProtocolE m.payload = .ok v := by
    unfold getProtocol? at h
    unfold getProtocolE
    cases hp : verParse? m.payload with
    | none => simp [hp] at h
    | some p => simpa [hp] using h
  simp [hVersion, convertExn, he, M.bind, M.pure, M.seq, M.modifySt]

/-- A rejected report changes nothing and is an invalid message (given the generated except clause). -/
theorem rejected_report (m : Msg) (w : W) (h : getProtocol? m.payload = none) :
    (hVersion m w).2 = w ∧ errOf (hVersion m w).1 = some (.lib .invalidMessage) := by
  have he : ∃ c, getProtocolE m.payload = .error c ∧ pyCaught c (clause Gen.excVersion 0) = true := by
    unfold getProtocol? at h
    cases hp : verParse? m.payload with
    | some p => simp [hp] at h
    | none =>
      unfold getProtocolE
      simp only [hp]
      split
      · exact ⟨_, rfl, by decide⟩
      · exact ⟨_, rfl, by decide⟩
  obtain ⟨c, hc, hcaught⟩ := he
  simp [hVersion, convertExn, hc, hcaught, M.bind, M.raise, errOf]

/-- **Type gate (internal).** A type that does not exist in the active protocol is refused as
unsupported, before anything else happens. -/
theorem internal_gate_refuses (env : Env) (v : Ver) (m : Msg) (w : W)
    (h : (Gen.internalTypes v).lookup m.type = none) :
    hInternal env v m w = (.error (.lib .unsupported), w) := by
  simp [hInternal, h, M.raise]

/-- A type that exists passes the gate: the outcome is that of the handler named after it. -/
theorem internal_gate_passes (env : Env) (v : Ver) (m : Msg) (name : String)
    (h : (Gen.internalTypes v).lookup m.type = some name) :
    hInternal env v m = runTyped env (((Gen.internalChains v).lookup m.type).join) m := by
  simp [hInternal, h]

theorem stream_gate_refuses (env : Env) (v : Ver) (m : Msg) (w : W) (n : Node)
    (hn : w.st.nodes.get? m.node = some n) (h : (Gen.streamTypes v).lookup m.type = none) :
    hStream env v m w = (.error (.lib .unsupported), w) := by
  simp [hStream, requireNode, M.bind, M.getSt, hn, M.pure, h, M.raise]

/-- The per-version internal tables: what exists where (generated). -/
theorem internal_tables :
    (Gen.internalTypes .v14).map Prod.fst = (List.range 15).map Int.ofNat ∧
    (Gen.internalTypes .v15).map Prod.fst = (List.range 18).map Int.ofNat ∧
    (Gen.internalTypes .v20).map Prod.fst = (List.range 29).map Int.ofNat ∧
    (Gen.internalTypes .v21).map Prod.fst = (List.range 29).map Int.ofNat ∧
    (Gen.internalTypes .v22).map Prod.fst = (List.range 34).map Int.ofNat := by decide

/-! Non-vacuity -/
example : Coherent { pv := some "2.1.1".toList, proto := .v21 } := by simp [Coherent]; decide
example : ¬ Coherent { pv := some "2.2.0".toList, proto := .v21 } := by simp [Coherent]; decide

end AioMySensors.C05
